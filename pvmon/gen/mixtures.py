"""Seeded generator of mixture cases with a known meaning (C11, C12).

A case is a JSON tree.  Nothing here parses anything: the tree is the meaning,
and the two renderings - the formula *string* of the mixture grammar and the
*call* form (mix_by_weight / mix_by_volume argument lists) - are both produced
from it.

    leaf  = {'t': 'c', 'text': 'H2O@1n',               the compound as the grammar spells it (tag included)
             'bare': 'H2O',                            ... without its density tag
             'struct': [[count, ['a', Z, A, q]] | [count, ['g', struct]], ...],   derivation tree of the compound
             'tag': [value_text, '' | 'i' | 'n'] | None,
             'via': 'parse' | 'string' | 'struct'}     how the call form builds the component
    mix   = {'t': 'm', 'mode': 'wt' | 'vol' | 'mass' | 'layer',
             'parts': [part, ...], 'seps': [' // ', ...], 'pad': '' | ' ',
             'tag': [value_text, kind] | None,         density tag of the parenthesised group
             'fp': 'grid' | 'short'}                   optional (percentage forms): trace remainder, see `remainder`
    part  = {'q': text | None, 'unit': spelling-or-unit, 'gap': '' | ' ', 'node': leaf | mix}
          | {'rep': count_text, 'node': mix}           repeated group '( ... )n' (mass and layer forms)

Meaning (documented grammar, doc/sphinx/guide/formula_grammar.rst):

    wt / vol   percentage :: count 'wt%' part ('//' count '%' part)* '//' part   the last part gets 100 - sum
    mass       quantity   :: count unit part ('//' count unit part)*             unit in kg g mg ug ng L mL uL nL
    layer      quantity   :: ...                                                  unit in cm mm um nm
    part       :: compound | '(' mixture ')' density?
    repeated   '(' quantity ')' count  inside a quantity of the same kind: the group n times

All quantities are rendered as plain decimals (never an exponent, never a bare
'0': the grammar's count is `[1-9][0-9]*` or a fraction with a '.'), so
float(text) is exactly the number the string denotes and the call form passes
exactly that number.  White space is emitted only between tokens.

Rendering positions that are known to hit candidate defects are *flagged* by
independent structural scans (`litre_first`, `has_layer_repeat`) and are
generated only when asked for.
"""
from decimal import Decimal
from fractions import Fraction

from .formulas import FormulaGen, fold

# percent spellings accepted by the grammar regexes  w((eigh)?t)? | m(ass)?  and  v(ol(ume)?)?,
# '%' before or after
WT_SPELLINGS = ['wt%', '%wt', 'mass%', '%mass', 'weight%', '%weight', 'w%', '%w', 'm%', '%m']
VOL_SPELLINGS = ['vol%', '%vol', 'volume%', '%volume', 'v%', '%v']
# the ten spellings named in DESIGN section 5 C11
NAMED_PERCENT = ['wt%', '%wt', 'mass%', 'weight%', 'w%', 'm%', 'vol%', '%vol', 'volume%', 'v%']

# documented units and what they mean (own table, not the library's)
MASS_G = {'kg': Fraction(1000), 'g': Fraction(1), 'mg': Fraction(1, 1000),
          'ug': Fraction(1, 10 ** 6), 'ng': Fraction(1, 10 ** 9)}              # grams
VOLUME_CM3 = {'L': Fraction(1000), 'mL': Fraction(1), 'uL': Fraction(1, 1000),
              'nL': Fraction(1, 10 ** 6)}                                      # cubic centimetres
LENGTH_M = {'cm': Fraction(1, 100), 'mm': Fraction(1, 1000), 'um': Fraction(1, 10 ** 6),
            'nm': Fraction(1, 10 ** 9)}                                        # metres
ALL_UNITS = list(MASS_G) + list(VOLUME_CM3) + list(LENGTH_M)

PARTSEPS = [' // ', ' // ', '//', ' //', '// ', '  //  ']
REPEATS = ['2', '3', '4', '5', '10', '12', '1.5', '2.5', '.5', '3.', '']


# --------------------------------------------------------------------------
# decimal text
# --------------------------------------------------------------------------
def frac(text):
    """Exact value of a rendered count ('.5', '3.', '12.50', '7')."""
    if text == '':
        return Fraction(1)
    s = text
    if s.startswith('.'):
        s = '0' + s
    if s.endswith('.'):
        s = s + '0'
    return Fraction(s)


def decimal_text(rng, value, maxsig=6):
    """A plain decimal spelling (grammar 'count') of a positive number near *value*,
    1..maxsig significant digits, in one of the forms 12, 12.5, 0.0125, .0125, 12."""
    sig = rng.randint(1, maxsig)
    d = Decimal(repr(float(value)))
    q = Decimal(1).scaleb(d.adjusted() - sig + 1)
    d = d.quantize(q)
    if d <= 0:
        d = q
    s = format(d, 'f')
    if '.' in s:
        s = s.rstrip('0')
        if s.endswith('.'):
            s = s[:-1]
    if '.' in s:
        if s.startswith('0.') and rng.random() < 0.2:
            s = s[1:]
    else:
        r = rng.random()
        if r < 0.12:
            s += '.'
        elif r < 0.24:
            s += '.0'
    return s


def zero_text(rng):
    return rng.choice(['0.0', '0.', '.0', '0.000'])


def log_uniform(rng, lo_exp, hi_exp):
    return 10 ** rng.uniform(lo_exp, hi_exp)


# --------------------------------------------------------------------------
# structure helpers (pure functions of the JSON tree)
# --------------------------------------------------------------------------
def struct_json(struct):
    out = []
    for c, fr in struct:
        if isinstance(fr, list):
            out.append([str(c), ['g', struct_json(fr)]])
        else:
            out.append([str(c), ['a', fr[0], fr[1], fr[2]]])
    return out


def struct_fold(sj, mult=Fraction(1), out=None):
    """Denotation key -> Fraction of a JSON structure."""
    if out is None:
        out = {}
    for c, fr in sj:
        c = Fraction(c)
        if fr[0] == 'g':
            struct_fold(fr[1], mult * c, out)
        else:
            k = (fr[1], fr[2], fr[3])
            out[k] = out.get(k, Fraction(0)) + mult * c
    return out


def node_keys(node):
    """Atom keys named anywhere below a node."""
    if node['t'] == 'c':
        return set(struct_fold(node['struct']))
    out = set()
    for p in node['parts']:
        out |= node_keys(p['node'])
    return out


def walk(node):
    """All nodes of a tree, parents first."""
    yield node
    if node['t'] == 'm':
        for p in node['parts']:
            for n in walk(p['node']):
                yield n


def depth_of(node):
    if node['t'] == 'c':
        return 0
    return 1 + max(depth_of(p['node']) for p in node['parts'])


def shape_of(node):
    """Derivation shape of a case: modes, nesting, repeat groups, unit classes, tags and which
    quantities are zero; numbers and compounds abstracted."""
    if node['t'] == 'c':
        n = len(struct_fold(node['struct']))
        return 'c%s%s' % ('1' if n == 1 else 'n', ('@' + (node['tag'][1] or 'd')) if node['tag'] else '')
    items = []
    for p in node['parts']:
        if 'rep' in p:
            items.append('R[' + shape_of(p['node']) + ']')
        else:
            q = p['q']
            z = '' if q is None else ('0' if frac(q) == 0 else 'q')
            u = p.get('unit') or ''
            cls = 'M' if u in MASS_G else 'V' if u in VOLUME_CM3 else 'L' if u in LENGTH_M else ''
            items.append(z + cls + ':' + shape_of(p['node']))
    tag = ('@' + (node['tag'][1] or 'd')) if node.get('tag') else ''
    return node['mode'] + '(' + ','.join(items) + ')' + tag


def litre_first_nodes(node, tried=True, out=None):
    """Mass-form nodes that open with the unit 'L' at a position where the grammar tries
    `compound` first (start of the string, a parenthesised part, or a repeat group that opens
    such a position): the rendering pattern of candidate defect D27."""
    if out is None:
        out = []
    if node['t'] == 'c':
        return out
    for i, p in enumerate(node['parts']):
        if 'rep' in p:
            # the '(' of a repeat group is read by `compound` only if the group opens a tried position
            litre_first_nodes(p['node'], tried and i == 0, out)
        else:
            if i == 0 and tried and node['mode'] == 'mass' and p.get('unit') == 'L':
                out.append(node)
            litre_first_nodes(p['node'], True, out)   # a part is always offered to `compound` first
    return out


def suffix_spelling(sp):
    """'wt%'-style spelling (letters then '%'); '%wt'-style and the bare '%' are not."""
    return len(sp) > 1 and sp.endswith('%')


def count_after_percent_parts(node):
    """Percentage parts written with a bare '%' or a '%wt'-style spelling whose compound opens
    with a count ('15% 2Co'): the rendering pattern of the candidate defect found by C11
    (the grammar allows optional white space only after the 'wt%'-style spellings, and a
    compound's leading count must not follow white space)."""
    out = []
    for n in walk(node):
        if n['t'] == 'm' and n['mode'] in ('wt', 'vol'):
            for p in n['parts'][:-1]:
                sub = p['node']
                if sub['t'] == 'c' and sub['text'][0] in '0123456789.' and not suffix_spelling(p['unit']):
                    out.append(p)
    return out


def percent_sibling(node):
    """Deep copy with every such part written with the 'wt%' / 'vol%' spelling."""
    import copy
    new = copy.deepcopy(node)
    for n in walk(new):
        if n['t'] == 'm' and n['mode'] in ('wt', 'vol'):
            for p in n['parts'][:-1]:
                sub = p['node']
                if sub['t'] == 'c' and sub['text'][0] in '0123456789.' and not suffix_spelling(p['unit']):
                    p['unit'] = 'wt%' if n['mode'] == 'wt' else 'vol%'
    return new


def has_layer_repeat(node):
    return any(n['t'] == 'm' and n['mode'] == 'layer' and any('rep' in p for p in n['parts'])
               for n in walk(node))


def case_features(case):
    """Rendering patterns of listed candidate defects present in a case (structural scan)."""
    tree = case['tree']
    layer_repeat = has_layer_repeat(tree) or (case.get('wrap') and tree['mode'] == 'layer')   # top-level '( layers )' is a repeat group
    return sorted((['litre-first'] if litre_first_nodes(tree) else [])
                  + (['layer-repeat'] if layer_repeat else [])
                  + (['count-after-percent'] if count_after_percent_parts(tree) else []))


def has_repeat(node):
    return any(n['t'] == 'm' and any('rep' in p for p in n['parts']) for n in walk(node))


def units_used(node):
    out = []
    for n in walk(node):
        if n['t'] == 'm':
            for p in n['parts']:
                if p.get('unit'):
                    out.append(p['unit'])
    return out


def litre_sibling(node):
    """Deep copy with every D27-pattern 'L' written as 'mL' (a different amount, same shape)."""
    import copy
    new = copy.deepcopy(node)
    for n in litre_first_nodes(new):
        n['parts'][0]['unit'] = 'mL'
    return new


# --------------------------------------------------------------------------
# rendering: string form
# --------------------------------------------------------------------------
def tag_text(tag):
    return '' if not tag else '@' + tag[0] + tag[1]


def render_part_node(node):
    if node['t'] == 'c':
        return node['text']
    return '(' + node['pad'] + render(node) + node['pad'] + ')' + tag_text(node.get('tag'))


def render(node):
    """The mixture as an *ungrouped* string (the caller adds parentheses and tag)."""
    if node['t'] == 'c':
        return node['text']
    items = []
    for p in node['parts']:
        if 'rep' in p:
            inner = p['node']
            items.append('(' + inner['pad'] + render(inner) + inner['pad'] + ')' + p['rep'])
        elif p['q'] is None:
            items.append(render_part_node(p['node']))
        else:
            items.append(p['q'] + p['gap'] + p['unit'] + ' ' + render_part_node(p['node']))
    s = items[0]
    for sep, it in zip(node['seps'], items[1:]):
        s += sep + it
    return s


def render_top(case):
    node = case['tree']
    if case.get('wrap'):
        return render_part_node(node)
    return render(node)


# --------------------------------------------------------------------------
# rendering: call form
# --------------------------------------------------------------------------
class Lib(object):
    """The library entry points used by the call form (passed in, so that this module never
    imports the library)."""

    def __init__(self, formula, mix_by_weight, mix_by_volume, lookup, strings_ok=True):
        self.formula = formula
        self.mix_by_weight = mix_by_weight
        self.mix_by_volume = mix_by_volume
        self.lookup = lookup      # key -> library atom
        # False: a component is never handed to the mixer as a string (the mixer would parse it on
        # its own table); it is parsed by self.formula first and passed as a Formula object
        self.strings_ok = strings_ok


def _lib_struct(sj, lib):
    return [(_num(c), (_lib_struct(fr[1], lib) if fr[0] == 'g' else lib.lookup((fr[1], fr[2], fr[3]))))
            for c, fr in sj]


def _num(text):
    f = Fraction(text)
    return int(f) if f.denominator == 1 else float(f)


def leaf_formula(node, lib):
    """The component as a Formula object."""
    if node['via'] == 'struct':
        kw = {}
        if node['tag']:
            kw['natural_density' if node['tag'][1] == 'n' else 'density'] = float(frac(node['tag'][0]))
        return lib.formula(_lib_struct(node['struct'], lib), **kw)
    return lib.formula(node['text'])


def remainder(node):
    """Exact percentage left to the last part.  In a node marked 'fp' (trace remainders, see
    MixtureGen.trace_percents) each stated percentage stands for the double nearest to its text
    (what any caller or parser holding the number as a float has); the generator guarantees that
    every left-to-right partial sum of these doubles is itself a double, so that 100 - sum is the
    same number in exact arithmetic and under any floating-point summation."""
    if node.get('fp'):
        return Fraction(100) - sum(Fraction(float(frac(p['q']))) for p in node['parts'][:-1])
    return Fraction(100) - sum(frac(p['q']) for p in node['parts'][:-1])


def exact_float_sum(values):
    """Fraction sum of the doubles if every left-to-right partial sum is exactly representable
    (naive, compensated and exactly rounded summation then all return it), else None."""
    s, exact = 0.0, Fraction(0)
    for x in values:
        s += x
        exact += Fraction(x)
        if Fraction(s) != exact:
            return None
    return exact


def build_call(node, lib, scale=None, trace=None):
    """Evaluate the call form.  Returns (Formula, amount) with amount = total mass in g (mass
    form), total thickness in m (layer form) or None.  *scale* maps the index of a top-level
    part to a factor k: that component is passed as k*formula (same material, other formula unit).
    *trace* collects a readable transcript of the calls."""
    if node['t'] == 'c':
        return leaf_formula(node, lib), None
    mode = node['mode']
    args = []
    amounts = []
    last = len(node['parts']) - 1
    rem = remainder(node) if mode in ('wt', 'vol') else None
    for i, p in enumerate(node['parts']):
        sub = p['node']
        f, inner_amount = build_call(sub, lib, trace=trace)
        if 'rep' in p:
            q = inner_amount * float(frac(p['rep']))
        elif mode in ('wt', 'vol'):
            q = float(rem) if i == last else float(frac(p['q']))
        elif mode == 'mass':
            if p['unit'] in MASS_G:
                q = float(frac(p['q']) * MASS_G[p['unit']])
            else:
                q = float(frac(p['q']) * VOLUME_CM3[p['unit']]) * f.density
        else:
            q = float(frac(p['q']) * LENGTH_M[p['unit']])
        if mode in ('wt', 'vol') and 'rep' not in p and q == int(q) and 1 <= q <= 100:
            # round 8: whole percentages are handed over as other kinds of whole numbers (their sum stays <= 100,
            # inside every kind used; 100*q would not fit the narrow ones)
            import numpy as np
            q = (np.uint8, np.int16, int, np.int8, np.int64, float)[(i + len(node['parts']) + int(q)) % 6](int(q))
        arg = f
        if scale and i in scale:
            arg = scale[i] * f
        elif sub['t'] == 'c' and sub['via'] == 'string' and lib.strings_ok:
            arg = sub['text']
        args.extend([arg, q])
        amounts.append(q)
    kw = {}
    if node.get('tag'):
        kw['natural_density' if node['tag'][1] == 'n' else 'density'] = float(frac(node['tag'][0]))
    fn = lib.mix_by_weight if mode in ('wt', 'mass') else lib.mix_by_volume
    if trace is not None:
        trace.append('%s(%s%s)' % (fn.__name__, ', '.join(
            repr(a) if not hasattr(a, 'structure') else 'formula(%r, density=%r)' % (str(a), a.density)
            for a in args), ''.join(', %s=%r' % kv for kv in kw.items())))
    result = fn(*args, **kw)
    amount = sum(amounts) if mode in ('mass', 'layer') else None
    return result, amount


# --------------------------------------------------------------------------
# the generator
# --------------------------------------------------------------------------
class MixtureGen(object):
    """known_density: set of Z whose element density is tabulated (decides which one-atom
    compounds may stand where a density is needed)."""

    def __init__(self, table, rng, known_density, maxdepth=2, big_counts=False):
        self.table = table
        self.rng = rng
        self.known = set(known_density)
        self.maxdepth = maxdepth
        self.fg = FormulaGen(table, rng, ws_patterns=0.0, max_groups=2, max_elements=3,
                             big_counts=big_counts)

    # -- leaves ---------------------------------------------------------
    def density_tag(self, kinds=('', 'i', 'n')):
        rng = self.rng
        text = decimal_text(rng, log_uniform(rng, -2, 1.4), maxsig=5)
        return [text, rng.choice(kinds)]

    def leaf(self, need_density=False, p_single=0.4, p_tag=0.6):
        rng = self.rng
        fg = self.fg
        if rng.random() < p_single:
            a_s, k = fg.atom()
            cs, cv = fg.count(p_one=0.6)
            if rng.random() < 0.2 and cs:
                text, struct = cs + a_s, [(cv, [(Fraction(1), k)])]     # counted implicit group 2Fe
            else:
                text, struct = a_s + cs, [(cv, k)]
            has = k[0] in self.known
        else:
            node = fg.compound(0, rng.choice([0, 0, 1]))
            text, struct = node.text, node.struct
            has = len(fold(struct)) == 1 and next(iter(fold(struct)))[0] in self.known
        tag = None
        if (need_density and not has) or rng.random() < (p_tag if not has else 0.25):
            tag = self.density_tag()
        return {'t': 'c', 'text': text + tag_text(tag), 'bare': text, 'struct': struct_json(struct),
                'tag': tag, 'via': rng.choice(['parse', 'parse', 'string', 'struct'])}

    def has_density(self, node):
        if node.get('tag'):
            return True
        if node['t'] == 'c':
            d = struct_fold(node['struct'])
            return len(d) == 1 and next(iter(d))[0] in self.known
        if node['mode'] in ('vol', 'layer'):
            return True
        return all(self.has_density(p['node']) for p in node['parts'])

    # -- quantities -----------------------------------------------------
    def percents(self, n):
        """Texts of the n-1 stated percentages: log-uniform over 12 decades, sum <= 99, or
        (rarely) summing to exactly 100 so that the last part vanishes."""
        rng = self.rng
        if rng.random() < 0.06:
            cuts = sorted(rng.sample(range(1, 400), n - 2)) if n > 2 else []
            ks = [b - a for a, b in zip([0] + cuts, cuts + [400])]
            return [format(Decimal(k) / 4, 'f') if k % 4 else str(k // 4) for k in ks], True
        texts = [decimal_text(rng, 0.9 * log_uniform(rng, -10, 2)) for _ in range(n - 1)]
        for _ in range(200):
            tot = sum(frac(t) for t in texts)
            if tot <= 99:
                break
            i = max(range(n - 1), key=lambda j: frac(texts[j]))
            texts[i] = decimal_text(rng, float(frac(texts[i])) / rng.choice([2, 3, 10]))
        if rng.random() < 0.12:
            texts[rng.randrange(n - 1)] = zero_text(rng)
        return texts, False

    def trace_percents(self, n):
        """Texts of n-1 stated percentages that leave a tiny positive remainder (1e-12 .. 1e-6 percent)
        to the last part, or None.  Two renderings:

        grid   every percentage is a multiple of 2**-46 (the spacing of doubles next to 100) written
               with all its decimal digits, so the string denotes exactly a double and all sums of
               these numbers below 128 are doubles;
        short  ordinary short literals ('99.999999999', '60' + '39.9999999995'); kept only if every
               left-to-right partial sum of the nearest doubles is exact.

        In both, the remainder the string denotes for holders of doubles is 100 - sum(doubles),
        without any rounding (see `remainder`); it is required to be positive."""
        rng = self.rng
        short = rng.random() < 0.5
        for attempt in range(60):
            grid = not short or attempt >= 30       # many-part short literals rarely add up exactly
            r = log_uniform(rng, -12, -6)
            others = [0.9 * log_uniform(rng, -10, 1.6) for _ in range(n - 2)]
            if sum(others) > 95:
                continue
            if grid:
                G = 2 ** 46
                ks = [max(1, int(round(v * G))) for v in others]
                kr = max(1, int(round(r * G)))
                ks.append(100 * G - sum(ks) - kr)
                texts = [format(Decimal(k / G), 'f') for k in ks]      # k/G is exact; Decimal(float) is exact
            else:
                texts = [decimal_text(rng, v) for v in others]
                # 100 - sum - r needs at most 3 + 18 digits: exact in the default 28-digit context
                big = Decimal(100) - sum((Decimal(t) for t in texts), Decimal(0)) \
                    - Decimal(decimal_text(rng, r, maxsig=3))
                texts.append(format(big, 'f'))
            if any(frac(t) <= 0 for t in texts):
                continue
            rng.shuffle(texts)
            total = exact_float_sum([float(frac(t)) for t in texts])
            if total is None:
                continue
            rem = Fraction(100) - total
            if not (Fraction(1, 10 ** 13) <= rem <= Fraction(2, 10 ** 6)):
                continue
            if grid and any(Fraction(float(frac(t))) != frac(t) for t in texts):
                continue
            return texts, ('grid' if grid else 'short')
        return None

    def amount(self, mode, unit):
        """Decimal text of a quantity whose absolute size is log-uniform over 12 decades."""
        rng = self.rng
        if mode == 'mass':
            base = MASS_G[unit] if unit in MASS_G else VOLUME_CM3[unit]
            target = log_uniform(rng, -9, 3)       # g or cm^3
        else:
            base = LENGTH_M[unit]
            target = log_uniform(rng, -11, 1)      # m
        return decimal_text(rng, target / float(base))

    # -- nodes ----------------------------------------------------------
    def component(self, depth, need_density, opts):
        rng = self.rng
        if depth < self.maxdepth and rng.random() < opts.get('p_nested', 0.2):
            mode = rng.choice(['wt', 'vol', 'mass', 'layer'])
            node = self.mix(mode, depth + 1, need_density and rng.random() < 0.5, opts, tried=True)
            if rng.random() < 0.3 or (need_density and not self.has_density(node)):
                node['tag'] = self.density_tag()
            return node
        return self.leaf(need_density)

    def mix(self, mode, depth, need_density, opts, tried=True, nparts=None):
        """A mixture node.  *tried*: the node is rendered where the grammar offers the text to
        `compound` first (only there the unit 'L' in first position is the D27 pattern)."""
        rng = self.rng
        nmin = 2 if mode in ('wt', 'vol') else 1
        n = nparts or rng.choice([nmin, 2, 2, 3, 3, 4, 5, 6])
        n = max(n, nmin)
        parts = []
        fp = None
        if mode in ('wt', 'vol'):
            trace = self.trace_percents(n) if (depth == 0 and opts.get('trace')) else None
            full = False
            if trace:
                texts, fp = trace
            else:
                texts, full = self.percents(n)
            spell = rng.choice(WT_SPELLINGS if mode == 'wt' else VOL_SPELLINGS)
            for i in range(n):
                # a volume share needs the component's density - unless the share is zero (a stated 0, or a remainder
                # of 0 left to the last part): such a component vanishes whether or not its density is known
                vanishes = (i < n - 1 and frac(texts[i]) == 0) or (i == n - 1 and full)
                vol_needs = mode == 'vol' and not (vanishes and rng.random() < 0.7)
                node = self.component(depth, need_density or vol_needs, opts)
                if i == n - 1:
                    if fp:
                        # the trace component names atoms of its own (its loss must show in the atoms)
                        used = set().union(*[node_keys(p['node']) for p in parts])
                        for _ in range(12):
                            if not (node_keys(node) & used):
                                break
                            node = self.leaf(need_density or mode == 'vol')
                    parts.append({'q': None, 'unit': None, 'gap': '', 'node': node})
                else:
                    sp = spell if i == 0 else rng.choice([spell, '%', '%', rng.choice(
                        WT_SPELLINGS if mode == 'wt' else VOL_SPELLINGS)])
                    if node['t'] == 'c' and node['text'][0] in '0123456789.' and not suffix_spelling(sp) \
                            and not opts.get('count_after_percent'):
                        # '15% 2Co' is a known rejected rendering: only produced when asked for
                        sp = rng.choice([x for x in (WT_SPELLINGS if mode == 'wt' else VOL_SPELLINGS)
                                         if suffix_spelling(x)])
                    parts.append({'q': texts[i], 'unit': sp, 'gap': rng.choice(['', '', ' ']), 'node': node})
        else:
            zero_at = rng.randrange(n) if (n > 1 and rng.random() < 0.12) else None
            for i in range(n):
                first_tried = tried and i == 0
                if depth < self.maxdepth and rng.random() < opts.get('p_repeat', 0.1) \
                        and (mode == 'mass' or opts.get('layer_repeat')) \
                        and not (first_tried and opts.get('litre_first') == 'pending'):
                    inner = self.mix(mode, depth + 1, need_density or mode == 'layer', opts,
                                     tried=first_tried, nparts=rng.choice([1, 2, 2, 3]))
                    parts.append({'rep': rng.choice(REPEATS), 'node': inner})
                    continue
                if mode == 'mass':
                    by_volume = rng.random() < 0.4 or (first_tried and opts.get('litre_first') == 'pending')
                    node = self.component(depth, need_density or by_volume, opts)
                    if by_volume and self.has_density(node):
                        units = list(VOLUME_CM3)
                        if first_tried and not opts.get('litre_first'):
                            units.remove('L')
                        elif first_tried and opts.get('litre_first') == 'pending':
                            units = ['L']
                            opts['litre_first'] = 'done'
                        unit = rng.choice(units)
                    else:
                        unit = rng.choice(list(MASS_G))
                else:
                    node = self.component(depth, True, opts)
                    unit = rng.choice(list(LENGTH_M))
                q = zero_text(rng) if i == zero_at else self.amount(mode, unit)
                parts.append({'q': q, 'unit': unit, 'gap': rng.choice(['', ' ']), 'node': node})
        if len(parts) > 1 and rng.random() < 0.1:
            # the same compound twice in a row at two different densities (two batches, two phases of one material):
            # they are two components, each with its own density
            i = rng.randrange(1, len(parts))
            prev, cur = parts[i - 1].get('node'), parts[i].get('node')
            if prev and cur and prev['t'] == 'c' and cur['t'] == 'c' and 'rep' not in parts[i] and 'rep' not in parts[i - 1]:
                twin = dict(prev)
                twin['tag'] = self.density_tag()
                twin['text'] = twin['bare'] + tag_text(twin['tag'])
                if not (twin['text'][0] in '0123456789.' and not cur['text'][0] in '0123456789.'):
                    parts[i]['node'] = twin
        out = {'t': 'm', 'mode': mode, 'parts': parts,
               'seps': [rng.choice(PARTSEPS) for _ in range(len(parts) - 1)],
               'pad': rng.choice(['', '', ' ']), 'tag': None}
        if fp:
            out['fp'] = fp
        return out

    def case(self, feature=None, mode=None):
        """One case.  feature: None | 'litre-first' | 'layer-repeat' | 'count-after-percent'
        (rendering patterns that hit candidate defects; never produced unless asked for)
        | 'trace-remainder' (top-level percentage form whose last part gets 1e-12 .. 1e-6 percent)."""
        rng = self.rng
        opts = {'p_nested': rng.choice([0.0, 0.15, 0.3]), 'p_repeat': rng.choice([0.0, 0.15, 0.3])}
        if feature == 'trace-remainder':
            opts['trace'] = True
            mode = rng.choice(['wt', 'vol'])
        elif feature == 'litre-first':
            opts['litre_first'] = 'pending'
            mode = 'mass'
        elif feature == 'layer-repeat':
            opts['layer_repeat'] = True
            opts['p_repeat'] = 0.5
            mode = 'layer'
        elif feature == 'count-after-percent':
            opts['count_after_percent'] = True
            mode = rng.choice(['wt', 'vol'])
        mode = mode or rng.choice(['wt', 'vol', 'mass', 'layer'])
        tree = self.mix(mode, 0, False, opts, tried=True)
        case = {'tree': tree, 'wrap': False}
        if rng.random() < 0.15 and (mode != 'layer' or feature == 'layer-repeat'):
            # a parenthesised mixture with a density tag is a `part` of the documented grammar; at
            # top level the library accepts it for the percentage forms ('(10wt% Fe // Ni)@5').
            # For the quantity forms the top-level '( ... )' is a repeat group and takes no tag.
            case['wrap'] = True
            if mode in ('wt', 'vol') and rng.random() < 0.7:
                tree['tag'] = self.density_tag()
        case['text'] = render_top(case)
        case['features'] = case_features(case)
        case['shape'] = shape_of(tree) + ('/wrap' if case['wrap'] else '')
        return case
