"""Grammar-directed generator of formula strings with known denotation.

A derivation tree of the *documented* grammar (doc/sphinx/guide/formula_grammar.rst)

    compound :: group (separator group)* density?
    group    :: count element+ | '(' formula ')' count
    element  :: symbol isotope? ion? count?

is built first and rendered to text; the meaning (atom key -> exact Fraction
count, nesting structure, density tag) is computed from the tree by a fold.
No parser is involved on the model side.

Rendering rules keep every string unambiguous under any reading of the
documented grammar (see DESIGN.md section 3.2 and Appendix A).  Two white-space
patterns that the library's parser is known to mis-bind are emitted only when
asked for (ws_patterns > 0) and are flagged on the node:

  'ws-after-counted-group'   counted implicit group, white space only, uncounted implicit group  (2H2O NaCl)
  'ws-count-after-paren'     uncounted parenthesised group, white space only, counted group      ((H2O) 2NaCl)
"""
import re
from fractions import Fraction

from ..atoms import universe


class Node(object):
    """text: rendered string; struct: list of (Fraction count, key | struct);
    denot: {key: Fraction}; kind: 'plain' | 'counted' | 'explicit' | 'compound';
    flags: set of pattern flags; depth: nesting depth; density: None | (text, value Fraction, kind 'i'|'n')"""
    __slots__ = ('text', 'struct', 'kind', 'flags', 'depth', 'density', 'last_counted')

    def __init__(self, text, struct, kind, flags=(), depth=0, density=None, last_counted=False):
        self.text = text
        self.struct = struct
        self.kind = kind
        self.flags = set(flags)
        self.depth = depth
        self.density = density
        self.last_counted = last_counted  # explicit group carries its own count


def fold(struct, mult=Fraction(1), out=None):
    """Denotation of a model structure: key -> Fraction."""
    if out is None:
        out = {}
    for c, frag in struct:
        if isinstance(frag, list):
            fold(frag, mult * c, out)
        else:
            out[frag] = out.get(frag, Fraction(0)) + mult * c
    return out


def charge_of(denot):
    return sum(c * k[2] for k, c in denot.items())


def normalize_struct(struct, count_map=None):
    """Nesting modulo groups of count 1 (both printer and parser elide them)."""
    out = []
    for c, frag in struct:
        cc = count_map(c) if count_map else c
        if isinstance(frag, (list, tuple)):
            inner = normalize_struct(frag, count_map)
            if cc == 1:
                out.extend(inner)
            else:
                out.append((cc, tuple(inner)))
        else:
            out.append((cc, frag))
    return tuple(out)


def shape_of(text):
    """Derivation shape: symbols, isotope/ion tags and counts abstracted."""
    s = re.sub(r'\[[0-9]+\]', '^', text)      # isotope tag
    s = re.sub(r'\{[0-9]*[+-]\}', '~', s)      # ion tag
    s = re.sub(r'[A-Z][a-z]?', 'E', s)
    s = re.sub(r'[0-9]*\.[0-9]*', 'f', s)
    s = re.sub(r'[0-9]+', 'n', s)
    s = re.sub(r' +', ' ', s)
    return s


class FormulaGen(object):
    def __init__(self, table, rng, ws_patterns=0.0, keys=None, max_groups=4, max_elements=4,
                 p_isotope=0.3, p_ion=0.3, p_dt=0.05, big_counts=True):
        self.table = table
        self.rng = rng
        self.ws_patterns = ws_patterns
        self.max_groups = max_groups
        self.max_elements = max_elements
        self.p_isotope = p_isotope
        self.p_ion = p_ion
        self.p_dt = p_dt
        self.big_counts = big_counts
        self.elements = [el for el in table if el.number >= 1]
        self.keys = keys  # optional restriction of the atom universe (list of keys)

    # -- tokens ---------------------------------------------------------
    def count(self, allow_one=True, p_one=0.35):
        """(text, Fraction) for a positive count; '' stands for 1."""
        rng = self.rng
        r = rng.random()
        if r < p_one and allow_one:
            return '', Fraction(1)
        if r < 0.7:
            if rng.random() < 0.5 and self.big_counts:
                n = rng.choice([1, 2, 3, 4, 6, 10, 12, 100, 999, 1000, 65536, 999999, 1000000])
            else:
                n = rng.randint(1, 50)
            return str(n), Fraction(n)
        form = rng.choice(['d.d', 'd.d', '.d', 'd.'])
        ip = rng.choice(['0', str(rng.randint(1, 999)), str(rng.randint(1, 9)),
                         str(rng.randint(1000, 999999)) if self.big_counts else '7'])
        fp = ''.join(rng.choice('0123456789') for _ in range(rng.randint(1, 6)))
        if form == 'd.d':
            s = ip + '.' + fp
        elif form == '.d':
            s = '.' + fp
        else:
            s = (ip if ip != '0' else '7') + '.'
        v = Fraction(('0' + s) if s.startswith('.') else (s + '0' if s.endswith('.') else s))
        if v == 0:
            return '2', Fraction(2)
        return s, v

    def atom(self):
        """(text, key) for a random atom the grammar can name."""
        rng = self.rng
        if self.keys is not None:
            k = rng.choice(self.keys)
            return self.render_atom(k), k
        if rng.random() < self.p_dt:
            A = rng.choice([2, 3])
            s = 'D' if A == 2 else 'T'
            Z = 1
            ions = self.table[1].ions
        else:
            el = rng.choice(self.elements)
            Z, A, s = el.number, 0, el.symbol
            ions = el.ions
            if el.isotopes and rng.random() < self.p_isotope:
                A = rng.choice(el.isotopes)
                s += '[%d]' % A
        q = 0
        if ions and rng.random() < self.p_ion:
            q = rng.choice(ions)
            s += self.render_charge(q)
        return s, (Z, A, q)

    def render_charge(self, q):
        mag = abs(q)
        sign = '+' if q > 0 else '-'
        if mag == 1 and self.rng.random() < 0.5:
            return '{%s}' % sign
        return '{%d%s}' % (mag, sign)

    def render_atom(self, k):
        Z, A, q = k
        if Z == 1 and A in (2, 3) and self.rng.random() < 0.5:
            s = 'D' if A == 2 else 'T'
        else:
            s = self.table[Z].symbol + ('[%d]' % A if A else '')
        if q:
            s += self.render_charge(q)
        return s

    # -- tree -----------------------------------------------------------
    def implicit_group(self, counted=None):
        rng = self.rng
        if counted is None:
            counted = rng.random() < 0.3
        cs, cv = self.count(allow_one=False) if counted else ('', Fraction(1))
        n = rng.randint(1, self.max_elements)
        s = cs
        items = []
        for _ in range(n):
            a_s, k = self.atom()
            es, ev = self.count()
            s += a_s + es
            items.append((ev, k))
        if cs:
            struct = [(cv, items)]
        else:
            struct = items
        return Node(s, struct, 'counted' if cs else 'plain')

    def group(self, depth, maxdepth):
        rng = self.rng
        if depth < maxdepth and rng.random() < 0.35:
            inner = self.compound(depth + 1, maxdepth, top=False)
            cs, cv = self.count()
            text = '(' + inner.text + ')' + cs
            return Node(text, [(cv, inner.struct)], 'explicit', inner.flags, inner.depth + 1,
                        last_counted=bool(cs))
        return self.implicit_group()

    def compound(self, depth=0, maxdepth=2, top=True, ngroups=None):
        rng = self.rng
        n = ngroups or rng.randint(1, self.max_groups)
        text = ''
        struct = []
        flags = set()
        prev = None
        d = 0
        for i in range(n):
            g = self.group(depth, maxdepth)
            if i > 0:
                text += self.separator(prev, g, flags)
            text += g.text
            struct.extend(g.struct)
            flags |= g.flags
            d = max(d, g.depth)
            prev = g
        return Node(text, struct, 'compound', flags, d)

    def separator(self, prev, nxt, flags):
        rng = self.rng
        seps = ['+', ' + ', '+ ', ' +']
        pat1 = prev.kind == 'counted' and nxt.kind == 'plain'
        pat2 = prev.kind == 'explicit' and not prev.last_counted and nxt.kind == 'counted'
        if pat1 or pat2:
            if rng.random() < self.ws_patterns:
                flags.add('ws-after-counted-group' if pat1 else 'ws-count-after-paren')
                return ' '
        else:
            seps += [' ', ' ']
        # empty separator only when concatenation cannot re-associate the text
        if nxt.kind != 'counted' and not pat1 and not (prev.kind == 'explicit' and nxt.kind == 'counted'):
            # next group must not start with a count; an uncounted explicit group followed by
            # a plain group is fine: (H2O)NaCl
            seps += ['', '']
        return rng.choice(seps)

    def deep(self, depth):
        """A narrow chain nested *depth* parentheses deep."""
        node = self.implicit_group()
        text, struct = node.text, node.struct
        for _ in range(depth):
            cs, cv = self.count()
            side = self.implicit_group(counted=False)
            if self.rng.random() < 0.5:
                text = side.text + '(' + text + ')' + cs
                struct = side.struct + [(cv, struct)]
            else:
                text = '(' + text + ')' + cs + side.text
                struct = [(cv, struct)] + side.struct
        return Node(text, struct, 'compound', (), depth)

    def with_density(self, node):
        """Append a density tag: returns (text, value Fraction, kind) with kind in 'i', 'n'."""
        rng = self.rng
        form = rng.choice(['int', 'd.d', '.d', 'd.'])
        if form == 'int':
            s = str(rng.randint(1, 25))
        elif form == 'd.d':
            s = '%d.%s' % (rng.choice([0, 0, 1, 2, 7, 11, 19]), ''.join(rng.choice('0123456789') for _ in range(rng.randint(1, 5))))
        elif form == '.d':
            s = '.' + ''.join(rng.choice('0123456789') for _ in range(rng.randint(1, 4)))
        else:
            s = str(rng.randint(1, 25)) + '.'
        v = Fraction(('0' + s) if s.startswith('.') else (s + '0' if s.endswith('.') else s))
        if v == 0:
            s, v = '1.5', Fraction(3, 2)
        kind = rng.choice(['', 'i', 'n'])
        node.density = (s, v, kind or 'i')
        node.text = node.text + '@' + s + kind
        return node


# ---------------------------------------------------------------- optional instrumentation on private names
# notes/ROBUSTNESS_GUIDE.md: whatever touches a PRIVATE part of the library (a name starting with '_', a nested
# function found by name, a private attribute of a table entry) is optional instrumentation.  These helpers look
# such things up without ever raising; when the source tree does not have them the reach / contract requirement that
# hangs on them is waived (counter 'anchor_missing.<requirement counter>', see pvmon/cli.py) and a note says why.
def waive(ctx, counters, why):
    """Waive the requirement counters (exact names given to ctx.require) and note the reason."""
    for c in counters:
        ctx.count('anchor_missing.' + c)
    if getattr(ctx, 'shard', 0):
        return                      # every shard counts, the first one writes the note
    ctx.note('%s; optional instrumentation skipped, requirement(s) %s waived' % (why, ', '.join(counters) or '-'))


def waive_unjudged(ctx, requirement, judged, unrecognised, what):
    """finish(): a contract on a private function that never saw a call of the pinned form while calls of another
    form went through it un-judged (changed signature) cannot meet its evaluation requirement: waive it."""
    if not judged and unrecognised:
        waive(ctx, [requirement], '%s is called in another form than on the pinned tree (%d calls passed through '
              'un-judged, changed signature)' % (what, unrecognised))


def waive_dead(ctx, label, requirements, public_counter):
    """finish(), after Reach.export: the private function with reach counter 'reach.<label>' is still defined in
    this tree but was never entered by this shard although the public mechanism counted in *public_counter* was
    exercised - it is dead code here (kept as an alias, bypassed): the requirements hanging on it are waived."""
    c = ctx.counters
    if c.get('reach.' + label, 0) == 0 and c.get(public_counter, 0) > 0 \
            and not c.get('anchor_missing.reach.' + label, 0):
        waive(ctx, ['reach.' + label] + list(requirements),
              'private function %s is defined but was never entered while %s = %d (no longer on the path in this '
              'source tree)' % (label, public_counter, c.get(public_counter, 0)))


def private(ctx, owner, name, waived=()):
    """getattr(owner, name) of a private library name, or None (requirements *waived* then) when this tree has none."""
    obj = getattr(owner, name, None)
    if obj is None:
        waive(ctx, waived, 'private name %s.%s not found in this source tree (refactored)'
              % (getattr(owner, '__name__', owner), name))
    return obj


def nested_codes(func, names):
    """{name: code object} of the functions nested (at any depth) in *func* whose name is in *names*."""
    out = {}

    def walk(code):
        for c in code.co_consts:
            if hasattr(c, 'co_name'):
                if c.co_name in names and c.co_name not in out:
                    out[c.co_name] = c
                walk(c)
    code = getattr(func, '__code__', None)
    if code is not None:
        walk(code)
    return out


def watch_nested(ctx, reach, func, names, extra_waived=None):
    """Reach counters 'reach.<name>' on functions nested in *func* (grammar parse actions).  A name that is not
    there (actions renamed / moved to module level) has its reach requirement waived, together with the
    counters extra_waived[name]."""
    found = nested_codes(func, set(names)) if func is not None else {}
    for name in names:
        if name in found:
            reach.codes[found[name]] = name
        else:
            waive(ctx, ['reach.' + name] + list((extra_waived or {}).get(name, ())),
                  'nested function %r not found in %s (refactored source)' % (name, getattr(func, '__name__', func)))
    return found


def watch_private(ctx, reach, owner, name, label=None, waived=()):
    """Reach counter 'reach.<label>' on the private function owner.<name>; waived when absent or not a function."""
    label = label or name
    obj = getattr(owner, name, None)
    try:
        if obj is None:
            raise TypeError('absent')
        reach.watch(obj, label)
        return obj
    except Exception:
        waive(ctx, ['reach.' + label] + list(waived), 'private function %s.%s not found in this source tree (refactored)'
              % (getattr(owner, '__name__', owner), name))
        return None


def pairs_structure(seq):
    """True if *seq* is a formula structure: a list/tuple of (count, fragment) pairs, fragments being such
    sequences again or anything else (an atom)."""
    if not isinstance(seq, (list, tuple)):
        return False
    for item in seq:
        if not isinstance(item, (list, tuple)) or len(item) != 2:
            return False
        if isinstance(item[1], (list, tuple)) and not pairs_structure(item[1]):
            return False
    return True


def private_table_with_other_masses(name, factor_of):
    """(table, scaled): a private PeriodicTable with mass and density loaded whose tabulated masses were multiplied
    by factor_of(Z).  There is no public way to give a table other masses: the private attribute behind .mass is
    written and the effect is verified through the public .mass of every element and isotope.  When that does not
    work in this source tree a fresh, unscaled private table is returned with scaled = False (the caller then runs
    the same cases with factor 1)."""
    from periodictable import core, mass, density

    def fresh(n):
        T = core.PeriodicTable(n)
        mass.init(T)
        density.init(T)
        return T
    T = fresh(name)
    ok = True
    try:
        for el in T:
            k = factor_of(el.number)
            for a in [el] + list(el):
                before = a.mass
                a._mass = a._mass * k
                if not (a.mass == before * k):
                    ok = False
    except Exception:
        ok = False
    if ok:
        return T, True
    return fresh(name + '_unscaled'), False
