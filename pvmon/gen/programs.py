"""Random straight-line programs over formulas, with a shadow interpreter (DESIGN 3.3).

A program is a JSON-serialisable dictionary {'stmts': [...]}; statement number i
either defines the next variable or (for '+=') updates an existing one:

  {'op': 'atom',  'key': [Z, A, q]}                               v = formula(<atom object>)
  {'op': 'str',   'text': s, 'struct': S}                         v = formula(s)          (S: model structure of s)
  {'op': 'dict',  'items': [[[Z, A, q], num], ...]}               v = formula({atom: count, ...})
  {'op': 'seq',   'struct': Q, 'tuples': bool}                    v = formula([(count, atom | [...]), ...])
  {'op': 'empty', 'how': 'none' | 'str'}                          v = formula() / formula('')
  {'op': 'copy',  'src': i}                                       v = formula(v_i)
  {'op': 'alias', 'src': i}                                       v = v_i                 (the same Python object)
  {'op': 'add',   'a': i, 'b': j}                                 v = v_i + v_j
  {'op': 'mul',   'n': num, 'src': i}                             v = n * v_i
  {'op': 'iadd',  'a': i, 'b': j}                                 v_i += v_j              (no new variable)

Leaf statements may carry 'name' and/or 'density' (keyword arguments of formula()).
A number `num` is a pair [kind, value] with kind in
  'i' python int, 'f' python float, 'ni64' numpy.int64, 'ni32' numpy.int32, 'nf64' numpy.float64,
  'nf32' numpy.float32, 'frac' fractions.Fraction (value 'p/q' text), 'dec' decimal.Decimal (value decimal text);
S is [[count-as-'p/q'-string, [Z, A, q] | S], ...]; Q is [[num, [Z, A, q] | Q], ...].

RealMachine executes a program statement by statement through the library;
ShadowMachine executes the same statements on model values: an object store of
(atoms: key -> Fraction, struct: nested list) plus the alias map var -> object,
so an in-place '+=' is seen through every variable bound to the same object.
The model never touches the library.
"""
import json
import operator
from fractions import Fraction

from ..atoms import lookup, universe
from .formulas import FormulaGen, fold

LEAF_OPS = ('atom', 'str', 'dict', 'seq', 'empty')
MAX_TOTAL_COUNT = 1e13   # keeps numpy.int64 counts far from overflow (a numpy artefact, not the library's)


# ---------------------------------------------------------------- numbers
def num(spec):
    """The Python/numpy number object of a number spec."""
    kind, v = spec
    if kind == 'i':
        return int(v)
    if kind == 'f':
        return float(v)
    import numpy as np
    if kind == 'ni64':
        return np.int64(v)
    if kind == 'ni32':
        return np.int32(v)
    if kind == 'nf64':
        return np.float64(v)
    if kind == 'nf32':
        return np.float32(v)
    if kind == 'frac':          # value is the text 'p/q'
        return Fraction(v)
    if kind == 'dec':           # value is decimal text
        from decimal import Decimal
        return Decimal(v)
    raise ValueError('unknown number kind %r' % (kind,))


def frac(spec):
    """Exact rational value of a number spec (every float is a rational)."""
    kind, v = spec
    if kind in ('i', 'ni64', 'ni32'):
        return Fraction(int(v))
    if kind == 'nf32':
        return Fraction(float(num(spec)))
    if kind in ('frac', 'dec'):
        return Fraction(num(spec))
    return Fraction(float(v))


def ser_struct(struct):
    """Model structure (Fraction counts, key tuples) -> JSON."""
    return [[str(c), ser_struct(frag) if isinstance(frag, list) else list(frag)] for c, frag in struct]


def deser_struct(S):
    out = []
    for c, frag in S:
        if frag and isinstance(frag[0], (list, tuple)):
            out.append((Fraction(c), deser_struct(frag)))
        elif len(frag) == 0:
            out.append((Fraction(c), []))
        else:
            out.append((Fraction(c), tuple(frag)))
    return out


def _is_key(x):
    return len(x) == 3 and all(isinstance(v, int) for v in x)


def seq_model(Q):
    """Model structure of a 'seq' statement."""
    return [(frac(n), tuple(frag) if _is_key(frag) else seq_model(frag)) for n, frag in Q]


def seq_object(Q, table, tuples):
    """The nested (count, fragment) sequence handed to formula()."""
    mk = tuple if tuples else list
    return mk((num(n), lookup(table, tuple(frag)) if _is_key(frag) else seq_object(frag, table, not tuples))
              for n, frag in Q)


def struct_keys(structure):
    """A library structure as nested tuples of (count, key | nested)."""
    from ..atoms import key
    return tuple((c, struct_keys(frag) if isinstance(frag, (list, tuple)) else key(frag))
                 for c, frag in structure)


def dumps(prog):
    """A program as compact JSON text.  Cases carry programs in this form: the framework's witness
    serialiser flattens anything nested more than eight levels deep, which nested sequences exceed."""
    return json.dumps(prog, separators=(',', ':'))


def loads(text):
    return json.loads(text) if isinstance(text, str) else text


def signature(prog):
    """(operator sequence, leaf-kind sequence) of a program."""
    ops = tuple(st['op'] for st in prog['stmts'] if st['op'] not in LEAF_OPS)
    leaves = tuple(st['op'] for st in prog['stmts'] if st['op'] in LEAF_OPS)
    return ops, leaves


# ---------------------------------------------------------------- machines
class RealMachine(object):
    """Executes statements through the library.  vars[i] is the Formula bound to variable i."""

    def __init__(self, table=None, other_table=None):
        self.table = table
        self.other_table = other_table   # a second table, for formula(f, table=<another table>)
        self.vars = []

    def step(self, st):
        """Returns (kind, result, operands): kind 'leaf' | 'value' | 'alias' | 'inplace'."""
        import periodictable as pt
        from periodictable import formulas
        T = self.table if self.table is not None else pt.elements
        op = st['op']
        kw = {}
        if st.get('name'):
            kw['name'] = st['name']
        if st.get('density') is not None:
            kw['density'] = st['density']
        V = self.vars
        if op == 'atom':
            r = formulas.formula(lookup(T, tuple(st['key'])), **kw)
        elif op == 'str':
            r = formulas.formula(st['text'], table=T, **kw)
        elif op == 'dict':
            r = formulas.formula(dict((lookup(T, tuple(k)), num(n)) for k, n in st['items']), **kw)
        elif op == 'seq':
            r = formulas.formula(seq_object(st['struct'], T, st.get('tuples', False)), **kw)
        elif op == 'empty':
            how = st.get('how')
            if how == 'none':
                r = formulas.formula(**kw)
            elif how == 'blank':
                # a blank string (spaces, tabs) is the empty formula too, by the string route
                r = formulas.formula(st.get('text', ' '), table=T, **kw)
            elif how == 'parse':
                r = formulas.parse_formula(st.get('text', ''), table=T)
            else:
                r = formulas.formula('', **kw)
        elif op == 'copy':
            # formula(f), or formula(f, table=...): the keyword is documented for strings; whatever it does for a
            # formula initializer, f itself is an operand and stays what it was
            how = st.get('table')
            if how == 'same':
                r = formulas.formula(V[st['src']], table=T)
            elif how == 'other' and self.other_table is not None:
                r = formulas.formula(V[st['src']], table=self.other_table)
            else:
                r = formulas.formula(V[st['src']])
            V.append(r)
            return 'value', r, [V[st['src']]]
        elif op == 'alias':
            r = V[st['src']]
            V.append(r)
            return 'alias', r, [r]
        elif op == 'add':
            a, b = V[st['a']], V[st['b']]
            r = a + b
            V.append(r)
            return 'value', r, [a, b]
        elif op == 'mul':
            a = V[st['src']]
            r = num(st['n']) * a
            V.append(r)
            return 'value', r, [a]
        elif op == 'iadd':
            a, b = V[st['a']], V[st['b']]
            r = operator.iadd(a, b)
            V[st['a']] = r
            return 'inplace', r, [a, b]
        elif op == 'clone':
            # the formula through an ordinary Python protocol: copy.copy, copy.deepcopy or a pickle round trip.  The
            # result is a formula of the same atoms (the table's own atom objects), the source is unchanged
            import copy
            import pickle
            src = V[st['src']]
            how = st.get('how', 'deepcopy')
            if how == 'copy':
                r = copy.copy(src)
            elif how == 'pickle':
                r = pickle.loads(pickle.dumps(src, st.get('protocol', pickle.HIGHEST_PROTOCOL)))
            else:
                r = copy.deepcopy(src)
            V.append(r)
            return 'value', r, [src]
        elif op == 'scribble':
            # the caller edits what a read handed back (the atoms dict, the mass-fraction dict, the Hill formula): these
            # are the caller's own objects, editing them changes nothing the library serves later
            v = V[st['src']]
            try:
                d = v.atoms
                for k in list(d):
                    d[k] = 12345.0
                d.clear()
                mf = v.mass_fraction
                for k in list(mf):
                    mf[k] = -1.0
                h = v.hill
                if h is not v:
                    h += h
                    try:
                        h.density = 99.0
                        h.name = 'scribbled'
                    except Exception:
                        pass
            except Exception:
                pass
            return 'observe', v, [v]
        elif op == 'observe':
            # read-only use of a variable between two operations (print it, take its Hill form, read
            # its derived values): must not change what any later operation returns
            v = V[st['src']]
            for read in (str, repr, lambda f: f.hill, lambda f: str(f.hill), lambda f: f.atoms,
                         lambda f: f.mass, lambda f: f.charge, lambda f: f.mass_fraction,
                         lambda f: f.natural_density, lambda f: f.molecular_mass):
                try:
                    read(v)
                except Exception:
                    pass
            return 'observe', v, [v]
        else:
            raise ValueError('unknown statement %r' % (op,))
        V.append(r)
        return 'leaf', r, []


class ModelObject(object):
    __slots__ = ('atoms', 'struct')

    def __init__(self, atoms, struct):
        self.atoms = atoms      # key -> Fraction
        self.struct = struct    # [(Fraction, key | struct), ...]


def _add_atoms(a, b):
    out = dict(a)
    for k, v in b.items():
        out[k] = out.get(k, Fraction(0)) + v
    return out


class ShadowMachine(object):
    """The same statements on model values.  objs is the object store; var[i] is the index of the
    object variable i is bound to (the alias map)."""

    def __init__(self):
        self.objs = []
        self.var = []

    def _new(self, atoms, struct):
        self.objs.append(ModelObject(atoms, struct))
        self.var.append(len(self.objs) - 1)

    def obj(self, i):
        return self.objs[self.var[i]]

    def atoms(self, i):
        return self.obj(i).atoms

    def aliases(self, i):
        return [j for j, o in enumerate(self.var) if o == self.var[i]]

    def max_count(self, i):
        a = self.atoms(i)
        return max(a.values()) if a else Fraction(0)

    def step(self, st):
        op = st['op']
        if op in ('observe', 'scribble'):
            return  # a read changes nothing, and neither does editing what the read returned
        if op == 'clone':
            o = self.obj(st['src'])
            self._new(dict(o.atoms), list(o.struct))
            return
        if op == 'atom':
            k = tuple(st['key'])
            self._new({k: Fraction(1)}, [(Fraction(1), k)])
        elif op == 'str':
            s = deser_struct(st['struct'])
            self._new(fold(s), s)
        elif op == 'dict':
            items = [(tuple(k), frac(n)) for k, n in st['items']]
            atoms = {}
            for k, c in items:
                atoms[k] = atoms.get(k, Fraction(0)) + c
            self._new(atoms, [(c, k) for k, c in items])
        elif op == 'seq':
            s = seq_model(st['struct'])
            self._new(fold(s), s)
        elif op == 'empty':
            self._new({}, [])
        elif op == 'copy':
            o = self.obj(st['src'])
            self._new(dict(o.atoms), list(o.struct))
        elif op == 'alias':
            self.var.append(self.var[st['src']])
        elif op == 'add':
            a, b = self.obj(st['a']), self.obj(st['b'])
            self._new(_add_atoms(a.atoms, b.atoms), list(a.struct) + list(b.struct))
        elif op == 'mul':
            n = frac(st['n'])
            o = self.obj(st['src'])
            self._new({k: n * v for k, v in o.atoms.items()}, [(n, list(o.struct))] if o.struct else [])
        elif op == 'iadd':
            a, b = self.obj(st['a']), self.obj(st['b'])
            # in place: every variable bound to a's object sees the extension; when b is the
            # same object the right-hand side is read before the update
            a.atoms, a.struct = _add_atoms(a.atoms, b.atoms), list(a.struct) + list(b.struct)
        else:
            raise ValueError('unknown statement %r' % (op,))


def run_program(prog, table=None):
    """Execute a whole program through the library; returns the list of variables."""
    m = RealMachine(table)
    for st in prog['stmts']:
        m.step(st)
    return m.vars


def run_shadow(prog):
    s = ShadowMachine()
    for st in prog['stmts']:
        s.step(st)
    return s


# ---------------------------------------------------------------- generator
class ProgramGen(object):
    """Random programs.  *leaf_count(rng)* and *multiplier(rng)* return number specs and may be
    replaced to shape the count distribution (C13: positive, log-uniform over 18 decades; C19:
    integers); *positive* excludes zero counts/multipliers and empty fragments."""

    def __init__(self, table, rng, positive=False, leaf_count=None, multiplier=None,
                 p_dt=0.05, names=True, string_depth=2, string_counts=None, name_pool=None, protocols=False):
        self.table = table
        self.protocols = protocols
        self.rng = rng
        self.positive = positive
        self.names = names
        self.name_pool = list(name_pool) if name_pool else ['water', 'salt', 'sample 7', 'x']
        self.p_dt = p_dt
        self.string_depth = string_depth
        self.universe = universe(table)
        self.fgen = FormulaGen(table, rng, ws_patterns=0.0, max_groups=3, max_elements=3)
        if string_counts is not None:
            self.fgen.count = string_counts
        if leaf_count is not None:
            self.leaf_count = leaf_count
        if multiplier is not None:
            self.multiplier = multiplier

    # -- numbers --------------------------------------------------------
    def leaf_count(self, rng=None):
        rng = self.rng
        r = rng.random()
        if r < 0.03 and not self.positive:
            return ['i', 0]
        if r < 0.28:
            return ['i', 1]
        if r < 0.55:
            return ['i', rng.randint(2, 12)]
        if r < 0.65:
            return ['f', rng.choice([0.5, 0.25, 1.5, 2.5, 1.0, 0.1])]
        if r < 0.82:
            return ['f', 10 ** rng.uniform(-3, 3)]
        if r < 0.92:
            # numpy.int32 counts are not generated: numpy wraps int32 products beyond 2**31 silently
            # (count*charge with a count of 1.5e9), which is numpy's arithmetic, not the library's
            return ['ni64', rng.randint(1, 12)]
        if r < 0.96:
            return ['nf64', rng.choice([0.5, 1.5, 10 ** rng.uniform(-3, 3)])]
        # round 8: exact rational counts (fractions.Fraction), integral ones included
        return ['frac', '%d/%d' % (rng.randint(1, 30), rng.choice([1, 2, 3, 3, 4, 5, 7, 8, 10]))]

    def multiplier(self, rng=None):
        rng = self.rng
        r = rng.random()
        if r < 0.06 and not self.positive:
            return [rng.choice(['i', 'f', 'ni64', 'nf64']), 0]
        if r < 0.16:
            return [rng.choice(['i', 'i', 'f', 'ni64', 'nf64']), 1]
        if r < 0.24:
            return [rng.choice(['i', 'i', 'f']), 2]
        if r < 0.39:
            return ['i', rng.randint(3, 12)]
        if r < 0.44:
            return ['i', rng.choice([100, 1000, 65536, 999999, 1000000, rng.randint(13, 10 ** 6)])]
        if r < 0.50:
            # trace amounts and multipliers a hair away from a whole number (or from 0): "all non-negative real
            # multipliers" - hostile to any clean-up of 'floating point noise' with an absolute tolerance
            k = rng.choice([0, 0, 1, 1, 2, 3, 10, 1000])
            d = 10 ** rng.uniform(-12, -6.5) * rng.choice([1, 1, -1])
            v = k + d if k + d > 0 else abs(d)
            return [rng.choice(['f', 'f', 'nf64']), v]
        if r < 0.79:
            return ['f', 10 ** rng.uniform(-6, 6)]
        if r < 0.88:
            return ['ni64', rng.randint(1, 12)]
        if r < 0.90:
            return ['ni32', rng.randint(1, 12)]   # as a multiplier numpy hands a Python int to __rmul__
        if r < 0.95:
            return ['nf64', 10 ** rng.uniform(-6, 6)]
        # round 8: rational multipliers (fractions.Fraction is a numbers.Rational but not an Integral)
        return ['frac', '%d/%d' % (rng.randint(1, 30), rng.choice([1, 2, 3, 3, 4, 5, 7, 8, 10]))]

    # -- atoms ----------------------------------------------------------
    def random_key(self):
        """An atom key of the universe: half uniformly over all keys (isotope ions dominate),
        half element-first so that plain elements and their ions are common too."""
        rng = self.rng
        if rng.random() < self.p_dt:
            return (1, rng.choice([2, 3]), rng.choice([0, 0, 1, -1]))
        if rng.random() < 0.5:
            return rng.choice(self.universe)
        el = self.table[rng.randint(1, 118)]
        A = rng.choice(el.isotopes) if el.isotopes and rng.random() < 0.35 else 0
        q = rng.choice(el.ions) if el.ions and rng.random() < 0.35 else 0
        return (el.number, A, q)

    def pool(self, n=None):
        """A small pool of atoms for one program, so that the same atom recurs in several leaves.
        Related atoms (other charge states / isotopes of one element) are put in deliberately."""
        rng = self.rng
        n = n or rng.randint(2, 6)
        out = []
        while len(out) < n:
            k = self.random_key()
            out.append(k)
            if rng.random() < 0.3:
                el = self.table[k[0]]
                if el.ions and rng.random() < 0.6:
                    out.append((k[0], k[1], rng.choice(el.ions)))
                elif el.isotopes:
                    out.append((k[0], rng.choice(el.isotopes), k[2]))
        return list(dict.fromkeys(out))

    # -- leaves ---------------------------------------------------------
    def seq(self, pool, depth=0):
        rng = self.rng
        out = []
        for _ in range(rng.randint(1, 3)):
            c = self.leaf_count()
            # count-1 groups are elided by the parser, so they only arise here and in arithmetic
            if depth < 3 and rng.random() < 0.4:
                if rng.random() < 0.4:
                    c = ['i', 1] if rng.random() < 0.7 else ['f', 1.0]
                if rng.random() < 0.04 and not self.positive:
                    inner = []
                else:
                    inner = self.seq(pool, depth + 1)
                out.append([c, inner])
            else:
                out.append([c, list(rng.choice(pool))])
        return out

    def leaf(self, pool):
        rng = self.rng
        r = rng.random()
        if r < 0.04 and not self.positive:
            st = {'op': 'empty', 'how': rng.choice(['none', 'str', 'blank', 'blank', 'parse'])}
            if st['how'] in ('blank', 'parse'):
                st['text'] = rng.choice([' ', '  ', '\t', ' \n', '   '] + ([''] if st['how'] == 'parse' else []))
        elif r < 0.20:
            st = {'op': 'atom', 'key': list(rng.choice(pool))}
        elif r < 0.50:
            self.fgen.keys = pool
            node = self.fgen.compound(0, rng.choice([0, 1, self.string_depth]))
            st = {'op': 'str', 'text': node.text, 'struct': ser_struct(node.struct)}
        elif r < 0.72:
            keys = rng.sample(pool, rng.randint(1, min(4, len(pool))))
            st = {'op': 'dict', 'items': [[list(k), self.leaf_count()] for k in keys]}
        else:
            st = {'op': 'seq', 'struct': self.seq(pool), 'tuples': rng.random() < 0.5}
        if self.names and st['op'] != 'empty':
            if rng.random() < 0.12:
                st['name'] = rng.choice(self.name_pool)
            if rng.random() < 0.2:
                st['density'] = round(10 ** rng.uniform(-1, 1.3), 4)
        return st

    # -- programs -------------------------------------------------------
    def program(self, nstmts=None, pool=None):
        rng = self.rng
        n = nstmts or rng.randint(3, 12)
        pool = pool or self.pool()
        stmts = []
        sh = ShadowMachine()
        while len(stmts) < n:
            nv = len(sh.var)
            r = rng.random()
            if nv == 0 or (nv == 1 and r < 0.5) or r < 0.22:
                st = self.leaf(pool)
            elif rng.random() < 0.15:
                st = {'op': 'observe', 'src': rng.randrange(nv)}
            elif self.protocols and rng.random() < 0.10:
                st = {'op': 'clone', 'src': rng.randrange(nv), 'how': rng.choice(['copy', 'deepcopy', 'deepcopy', 'pickle']),
                      'protocol': rng.choice([0, 2, 4, 5])}
            elif self.protocols and rng.random() < 0.06:
                st = {'op': 'scribble', 'src': rng.randrange(nv)}
            else:
                i, j = rng.randrange(nv), rng.randrange(nv)
                r = rng.random()
                if r < 0.10:
                    st = {'op': 'copy', 'src': i}
                    if rng.random() < 0.4:
                        st['table'] = rng.choice(['same', 'other'])
                elif r < 0.18:
                    st = {'op': 'alias', 'src': i}
                elif r < 0.45:
                    st = {'op': 'add', 'a': i, 'b': j}
                elif r < 0.78:
                    m = self.multiplier()
                    if float(sh.max_count(i)) * float(frac(m)) > MAX_TOTAL_COUNT:
                        m = ['f', rng.choice([0.5, 1e-3])] if rng.random() < 0.5 else ['i', 1]
                    st = {'op': 'mul', 'n': m, 'src': i}
                else:
                    if float(sh.max_count(i)) + float(sh.max_count(j)) > MAX_TOTAL_COUNT:
                        continue
                    st = {'op': 'iadd', 'a': i, 'b': j}
            sh.step(st)
            if st['op'] in LEAF_OPS and float(sh.max_count(len(sh.var) - 1)) > MAX_TOTAL_COUNT:
                sh.objs.pop()   # a leaf with astronomically large counts: draw another one
                sh.var.pop()
                continue
            stmts.append(st)
        return {'stmts': stmts, 'pool': [list(k) for k in pool]}
