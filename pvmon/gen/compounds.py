"""Seeded generator of neutron-capable compounds (C04, C17).

A compound is a *multiset of atoms*: a list of (key, count) with key the model
triple (Z, A, q) of pvmon.atoms and count an exact Fraction whose decimal
expansion is finite and short.  Nothing here parses anything: the multiset is
the meaning, and every rendering (formula string, {atom: count} dict, nested
(count, fragment) structure, Formula arithmetic) is produced *from* it by
random bracketing / permutation / splitting / scaling.  `denote()` folds a
rendering tree back to the multiset so the generator checks itself.

String rendering is deliberately simple and unambiguous under any reading of
the documented grammar (DESIGN 3.2, Appendix A):

* symbols exactly as the table prints them, isotope tag `[A]` (never on the
  aliases D/T), ion tag `{q+}` / `{+}`;
* counts are integers `[1-9][0-9]*` or plain decimals `d.d` (never an
  exponent, never a lone '.', never white space before a count);
* groups are *uncounted implicit* `H2O`, *counted implicit* `2H2O` and
  *explicit* `(H2O)3` / `(H2O)`;
* the separator between two groups is '+' (or ' + '), or one blank only where
  the blank cannot re-associate the text: never between a counted implicit
  group and a following uncounted implicit group (`2H2O NaCl` is read as
  2(H2O NaCl), candidate defect D24) and never between ')' and a group that
  leads with a count (`(H2O) 2NaCl` is read as (H2O)2 NaCl, D25).  The empty
  separator is never used.

Trees are JSON-serialisable:
    group   = ['imp', mult_text | None, [[Z, A, q, count_text], ...]]
            | ['exp', mult_text | None, [group, ...]]
    tree    = [group, ...]
"""
from fractions import Fraction

from .. import atoms as atoms_mod

MAX_DIGITS = 14          # significant digits of any rendered count
MULTIPLIERS = ['2', '3', '4', '5', '6', '7', '10', '12', '0.5', '1.5', '2.5', '0.25', '0.2', '20', '100']
SAFE_MULTIPLIERS = ['2', '5', '10', '0.5', '4']   # division always gives a finite decimal


# --------------------------------------------------------------------------
# exact decimal text
# --------------------------------------------------------------------------
def finite_decimal(fr):
    """Number of decimal places of *fr* if its expansion is finite, else None."""
    den = fr.denominator
    k = 0
    while den % 10 == 0:
        den //= 10
        k += 1
    a = b = 0
    while den % 2 == 0:
        den //= 2
        a += 1
    while den % 5 == 0:
        den //= 5
        b += 1
    if den != 1:
        return None
    return k + max(a, b)


def dec_text(fr):
    """Plain positional decimal text of a positive Fraction with a finite
    expansion: '12', '0.5', '0.000123', '1250.75'.  float(dec_text(x)) is the
    double nearest to x."""
    fr = Fraction(fr)
    if fr <= 0:
        raise ValueError('count must be positive: %r' % (fr,))
    k = finite_decimal(fr)
    if k is None:
        raise ValueError('no finite decimal expansion: %r' % (fr,))
    if k == 0:
        return str(fr.numerator)
    scaled = fr * 10 ** k
    assert scaled.denominator == 1
    s = str(scaled.numerator).rjust(k + 1, '0')
    return s[:-k] + '.' + s[-k:]


def renderable(fr):
    k = finite_decimal(fr)
    if k is None or fr <= 0:
        return False
    return len(dec_text(fr).replace('.', '').lstrip('0')) <= MAX_DIGITS


# --------------------------------------------------------------------------
# atom universe
# --------------------------------------------------------------------------
class Universe(object):
    """Keys of all atoms with neutron data, by class."""

    def __init__(self, table):
        self.table = table
        self.elements, self.isotopes = [], []
        for el in table:
            if el.number < 1:
                continue
            if self.has_data(el):
                self.elements.append((el.number, 0, 0))
            for A in el.isotopes:
                if self.has_data(el[A]):
                    self.isotopes.append((el.number, A, 0))
        neutral = self.elements + self.isotopes
        self.edep = [k for k in neutral if self.atom(k).neutron.nsf_table is not None]
        self.ions = [(Z, A, q) for (Z, A, _) in self.elements for q in table[Z].ions]
        self.isotope_ions = [(Z, A, q) for (Z, A, _) in self.isotopes for q in table[Z].ions]
        self.edep_set = set(self.edep)
        # atoms whose tabulated total cross section is below 4 pi |b_c|^2: the incoherent clip engages
        self.clip = []
        for k in neutral:
            n = self.atom(k).neutron
            if n.nsf_table is None and n.total is not None:
                if n.total < 4 * 3.141592653589793 / 100 * abs(n.b_c_complex) ** 2:
                    self.clip.append(k)
        self.classes = {'element': self.elements, 'isotope': self.isotopes, 'edep': self.edep,
                        'ion': self.ions, 'isotope_ion': self.isotope_ions, 'clip': self.clip}

    @staticmethod
    def has_data(atom):
        """Complete scattering data: a scattering length and a total cross section (or an energy table).
        Not `has_sld()`: that also asks for a tabulated *element* density, which a compound with a given density
        does not need (Ra, Ra[226]; neutron_scattering accepts them since /repo 0b7e9c8)."""
        n = atom.neutron
        return n.b_c is not None and (n.nsf_table is not None or n.total is not None)

    def atom(self, k):
        return atoms_mod.lookup(self.table, tuple(k))

    def is_edep(self, k):
        return (k[0], k[1], 0) in self.edep_set

    def draw_key(self, rng, weights=None):
        w = weights or (('element', 34), ('isotope', 22), ('edep', 14), ('ion', 12), ('isotope_ion', 8), ('clip', 10))
        r = rng.random() * sum(x for _, x in w)
        for name, x in w:
            r -= x
            if r < 0:
                break
        k = rng.choice(self.classes[name])
        if name == 'edep' and rng.random() < 0.2 and self.table[k[0]].ions:
            k = (k[0], k[1], rng.choice(self.table[k[0]].ions))
        return k


def draw_count(rng):
    """A count as exact Fraction: small integers, simple fractions, or three
    significant digits spread log-uniformly over 1e-3 .. 1e3."""
    r = rng.random()
    if r < 0.5:
        return Fraction(rng.choice([1, 1, 1, 2, 2, 3, 4, 5, 6, 7, 8, 9, 10, 12, 16, 24, 60]))
    if r < 0.65:
        return Fraction(rng.choice(['0.5', '1.5', '2.5', '0.25', '0.1', '0.75', '3.5']))
    mant = rng.randint(100, 999)
    exp = rng.randint(-5, 1)      # mant * 10^exp in [1e-3, 1e4)
    return Fraction(mant) * Fraction(10) ** exp


def draw_scale(rng):
    r = rng.random()
    if r < 0.4:
        return Fraction(rng.choice([2, 3, 4, 5, 7, 10, 12, 100, 1000]))
    if r < 0.6:
        return Fraction(rng.choice(['0.5', '0.25', '0.1', '0.01', '0.001', '1.5', '2.5']))
    return Fraction(rng.randint(101, 999)) * Fraction(10) ** rng.randint(-5, 1)


def draw_multiset(rng, uni, nmin=1, nmax=8, weights=None):
    """1..8 atoms drawn with replacement (the same atom may occur twice), each
    with its own count.  Returns a list of (key, Fraction)."""
    n = rng.randint(nmin, nmax)
    items = []
    for _ in range(n):
        if items and rng.random() < 0.12:
            k = rng.choice(items)[0]         # deliberate repeat of an atom
        else:
            k = uni.draw_key(rng, weights)
        items.append((tuple(k), draw_count(rng)))
    return items


def total(items):
    """Multiset -> {key: Fraction} with repeated atoms merged."""
    out = {}
    for k, c in items:
        out[tuple(k)] = out.get(tuple(k), 0) + Fraction(c)
    return out


def scaled(items, c):
    return [(k, Fraction(v) * Fraction(c)) for k, v in items]


def split_some(rng, items, p=0.3):
    """Split some occurrences (k, c) into (k, c1) + (k, c - c1): same multiset,
    more places for a regrouping to put the same atom."""
    out = []
    for k, c in items:
        c = Fraction(c)
        if rng.random() < p:
            if c.denominator == 1 and c >= 2:
                c1 = Fraction(rng.randint(1, int(c) - 1))
            else:
                c1 = c / 2 if renderable(c / 2) else None
                if rng.random() < 0.5 and renderable(c / 5):
                    c1 = c / 5
            if c1 is not None and renderable(c1) and renderable(c - c1):
                out.append((k, c1))
                out.append((k, c - c1))
                continue
        out.append((k, c))
    return out


# --------------------------------------------------------------------------
# trees
# --------------------------------------------------------------------------
def _pick_multiplier(rng, counts):
    """A multiplier m (text) such that every count/m is renderable, or None."""
    cands = list(MULTIPLIERS)
    rng.shuffle(cands)
    for m in cands[:6] + SAFE_MULTIPLIERS:
        fm = Fraction(m)
        if all(renderable(Fraction(c) / fm) for c in counts):
            return m
    return None


def make_tree(rng, items, depth=0, maxdepth=3):
    """Random bracketing of a random permutation of the multiset."""
    items = list(items)
    rng.shuffle(items)
    groups = []
    i = 0
    while i < len(items):
        n = rng.randint(1, min(4, len(items) - i))
        chunk = items[i:i + n]
        i += n
        r = rng.random()
        if r < 0.40:
            groups.append(['imp', None, [[k[0], k[1], k[2], dec_text(c)] for k, c in chunk]])
            continue
        m = _pick_multiplier(rng, [c for _, c in chunk])
        if r < 0.62:
            if m is None:
                groups.append(['imp', None, [[k[0], k[1], k[2], dec_text(c)] for k, c in chunk]])
            else:
                fm = Fraction(m)
                groups.append(['imp', m, [[k[0], k[1], k[2], dec_text(Fraction(c) / fm)] for k, c in chunk]])
            continue
        # explicit group, possibly nested
        if m is None or rng.random() < 0.15:
            m, inner = None, chunk
        else:
            fm = Fraction(m)
            inner = [(k, Fraction(c) / fm) for k, c in chunk]
        if depth + 1 < maxdepth and (len(inner) > 1 or rng.random() < 0.3):
            children = make_tree(rng, inner, depth + 1, maxdepth)
        else:
            children = [['imp', None, [[k[0], k[1], k[2], dec_text(c)] for k, c in inner]]]
        groups.append(['exp', m, children])
    return groups


def _imp(mult, chunk):
    return ['imp', mult, [[k[0], k[1], k[2], dec_text(c)] for k, c in chunk]]


def nest_tree(rng, items, levels=2):
    """A tree of the multiset *items* (at least two occurrences) in which a non-empty proper part of the atoms - the
    core - sits under *levels* or more groups nested inside each other, EVERY one of them with a multiplier other
    than 1, and the enclosing groups (as a rule) also hold atoms of their own next to the nested group
    (`Mg3(Ca(OH)2 + 2H2O)3`, `(Fe2(SO4)3(H2O)9)2`): dropping, doubling or misplacing the multiplier of a level
    changes the composition, not just the size of the cell.  The rest of the atoms is bracketed at random
    (make_tree) at the top level.  Returns None when no chain of multipliers keeps every count renderable
    (the caller draws again)."""
    items = list(items)
    if len(items) < 2 or levels < 1:
        return None
    rng.shuffle(items)
    ncore = rng.randint(1, min(3, len(items) - 1))
    core, rest = items[:ncore], items[ncore:]
    # atoms standing directly in the enclosing groups (innermost enclosing group first); the core is a proper part
    # of the multiset, so there is always an atom outside the innermost group
    own = []
    for _ in range(levels - 1):
        n = rng.randint(1 if rng.random() < 0.8 else 0, min(2, len(rest))) if rest else 0
        own.append(rest[:n])
        rest = rest[n:]
    m = _pick_multiplier(rng, [c for _, c in core])
    if m is None:
        return None
    fm = Fraction(m)
    inner = [(k, Fraction(c) / fm) for k, c in core]
    if rng.random() < 0.5:
        group = ['exp', m, [_imp(None, inner)] if rng.random() < 0.7 else make_tree(rng, inner, 2, 3)]
    else:
        group = _imp(m, inner)                  # counted implicit group, e.g. the 2H2O of (CaSO4+2H2O)3
    for extra in own:
        m = _pick_multiplier(rng, _leaf_counts(group) + [c for _, c in extra])
        if m is None:
            return None
        fm = Fraction(m)
        _divide_group(group, fm)
        body = [group]
        for k, c in extra:                      # each atom of the group's own before or after the nested group
            body.insert(rng.randint(0, len(body)), _imp(None, [(k, Fraction(c) / fm)]))
        group = ['exp', m, _merge_uncounted(body)]
    tree = [group]
    if rest:
        for g in make_tree(rng, rest, 1, 3):
            tree.insert(rng.randint(0, len(tree)), g)
    return tree


def _leaf_counts(group):
    kind, _m, body = group
    if kind == 'imp':
        return [Fraction(row[3]) for row in body]
    return [c for g in body for c in _leaf_counts(g)]


def _divide_group(group, fm):
    """Divide every count below *group* by fm, leaving its own multiplier alone (in place)."""
    kind, _m, body = group
    if kind == 'imp':
        for row in body:
            row[3] = dec_text(Fraction(row[3]) / fm)
    else:
        for g in body:
            _divide_group(g, fm)


def _merge_uncounted(groups):
    """Adjacent uncounted implicit groups are one run of atoms in any rendering: join them."""
    out = []
    for g in groups:
        if out and g[0] == 'imp' and not g[1] and out[-1][0] == 'imp' and not out[-1][1]:
            out[-1] = ['imp', None, out[-1][2] + g[2]]
        else:
            out.append(g)
    return out


def nesting_of(tree, depth=0):
    """Largest number of groups with a multiplier other than 1 that enclose one atom."""
    best = depth
    for kind, m, body in tree:
        d = depth + (1 if m and Fraction(m) != 1 else 0)
        best = max(best, d if kind == 'imp' else nesting_of(body, d))
    return best


def flat_tree(items):
    """One uncounted implicit group in the given order."""
    return [['imp', None, [[k[0], k[1], k[2], dec_text(c)] for k, c in items]]]


def denote(tree, mult=Fraction(1), acc=None):
    """Fold of a tree: {key: Fraction}."""
    if acc is None:
        acc = {}
    for kind, m, body in tree:
        mm = mult * (Fraction(m) if m else 1)
        if kind == 'imp':
            for Z, A, q, c in body:
                acc[(Z, A, q)] = acc.get((Z, A, q), 0) + mm * Fraction(c)
        else:
            denote(body, mm, acc)
    return acc


def depth_of(tree):
    d = 0
    for kind, m, body in tree:
        d = max(d, 1 + (depth_of(body) if kind == 'exp' else 0))
    return d


def shape_of(tree):
    """Structural signature of a tree (kinds / multiplier presence / arity)."""
    out = []
    for kind, m, body in tree:
        if kind == 'imp':
            out.append(('i', bool(m), len(body)))
        else:
            out.append(('e', bool(m), shape_of(body)))
    return tuple(out)


# --------------------------------------------------------------------------
# renderings
# --------------------------------------------------------------------------
def _count_text(c):
    return '' if c == '1' else c


def _leads_with_count(group):
    return group[0] == 'imp' and bool(group[1])


def _sep(rng, prev, nxt):
    blank_ok = True
    if prev[0] == 'imp' and prev[1] and nxt[0] == 'imp' and not nxt[1]:
        blank_ok = False          # 2H2O NaCl  -> 2(H2O NaCl)   (D24)
    if prev[0] == 'exp' and _leads_with_count(nxt):
        blank_ok = False          # (H2O) 2NaCl -> (H2O)2 NaCl  (D25)
    r = rng.random()
    if blank_ok and r < 0.35:
        return ' '
    if r < 0.45:
        return ' + '
    return '+'


def render_string(tree, table, rng):
    parts = []
    prev = None
    for g in tree:
        kind, m, body = g
        if kind == 'imp':
            s = (m or '') + ''.join(atoms_mod.render(table, (Z, A, q), rng) + _count_text(c) for Z, A, q, c in body)
        else:
            s = '(' + render_string(body, table, rng) + ')' + (m or '')
        if prev is not None:
            parts.append(_sep(rng, prev, g))
        parts.append(s)
        prev = g
    return ''.join(parts)


def _num(text, rng=None):
    """Library-side number for a count text: int when integral, else float."""
    f = Fraction(text)
    if f.denominator == 1 and (rng is None or rng.random() < 0.7):
        return int(f)
    return float(text)


def build_structure(tree, uni):
    """Nested (count, fragment) structure accepted by formula()."""
    out = []
    for kind, m, body in tree:
        if kind == 'imp':
            frag = [(_num(c), uni.atom((Z, A, q))) for Z, A, q, c in body]
        else:
            frag = build_structure(body, uni)
        if m or kind == 'exp':
            out.append((_num(m or '1'), frag))
        else:
            out.extend(frag)
    return out


def build_dict(items_text, uni):
    """{atom: count}; repeated atoms are merged (dict semantics)."""
    d = {}
    for Z, A, q, c in items_text:
        a = uni.atom((Z, A, q))
        d[a] = d.get(a, 0) + _num(c)
    return d


def build_arith(tree, uni, formula):
    """The same tree through Formula arithmetic: sum of m * formula(child)."""
    tot = formula()
    for kind, m, body in tree:
        if kind == 'imp':
            f = formula([(_num(c), uni.atom((Z, A, q))) for Z, A, q, c in body])
        else:
            f = build_arith(body, uni, formula)
        if m:
            f = _num(m) * f
        tot = tot + f
    return tot


def items_text(items):
    return [[k[0], k[1], k[2], dec_text(c)] for k, c in items]


def items_from_text(rows):
    return [((Z, A, q), Fraction(c)) for Z, A, q, c in rows]
