"""./check <ID>|all [--tier quick|thorough] [--seed N] [--replay file] [--jobs N]

exit 0: held on everything explored (KNOWN-FINDING lines possible)
exit 1: unlisted violation, `VIOLATION property=<id> replay=<path>` printed
exit 2: inconclusive (worker timeout/crash, harness error, a required monitor
        never reached) - never folded into the other two
"""
import argparse
import importlib
import json
import os
import shutil
import subprocess
import sys
import time
from collections import Counter
from concurrent.futures import ThreadPoolExecutor

from . import findings as findings_mod

HERE = os.path.dirname(os.path.dirname(os.path.abspath(__file__)))
ALL = ['C%02d' % i for i in range(1, 21)]


def available():
    out = []
    for p in ALL:
        if os.path.exists(os.path.join(HERE, 'pvmon', 'props', p.lower() + '.py')):
            out.append(p)
    return out


def spawn(prop, tier, seed, shard, nshards, outfile, timeout, replay=None):
    cmd = [sys.executable, '-m', 'pvmon.worker', prop, tier, str(seed), str(shard),
           str(nshards), outfile]
    if replay:
        cmd.append(replay)
    log = outfile + '.log'
    t0 = time.time()
    try:
        with open(log, 'w') as fid:
            rc = subprocess.run(cmd, cwd=HERE, stdout=fid, stderr=subprocess.STDOUT,
                                timeout=timeout).returncode
        status = 'ok' if rc == 0 else 'exit %d' % rc
    except subprocess.TimeoutExpired:
        status = 'timeout after %ds' % timeout
    return status, time.time() - t0


def git_head(path):
    try:
        return subprocess.run(['git', '-C', path, 'rev-parse', '--short', 'HEAD'],
                              capture_output=True, text=True).stdout.strip()
    except Exception:
        return ''


def run_property(prop, tier, seed, jobs, replay=None):
    t0 = time.time()
    mod = importlib.import_module('pvmon.props.' + prop.lower())
    nshards = 1 if replay else mod.SHARDS[tier]
    timeout = getattr(mod, 'TIMEOUT', {'quick': 600, 'thorough': 5400})[tier]
    outdir = os.path.join(os.environ.get('VERIF_OUT') or os.path.join(HERE, 'out'), prop)
    scratch = os.path.realpath(os.environ.get('VERIF_REPO', '/repo')) != '/repo'
    if scratch:  # runs against a scratch copy never touch the real evidence or replay files
        outdir = os.path.join(outdir, 'scratch-%d' % os.getpid())
    rundir = os.path.join(outdir, 'run')
    shutil.rmtree(rundir, ignore_errors=True)
    os.makedirs(rundir, exist_ok=True)
    files = [os.path.join(rundir, 'shard%02d.json' % i) for i in range(nshards)]
    with ThreadPoolExecutor(max_workers=jobs) as pool:
        futs = [pool.submit(spawn, prop, tier, seed, i, nshards, files[i], timeout, replay)
                for i in range(nshards)]
        statuses = [f.result() for f in futs]

    counters = Counter()
    distinct = set()
    samples = {}
    viols = []
    bykey = Counter()
    worst = {}
    reqs = {}
    notes = []
    info = {}
    inconclusive = []
    for i, (status, _) in enumerate(statuses):
        if status != 'ok' or not os.path.exists(files[i]):
            tail = ''
            try:
                tail = open(files[i] + '.log').read()[-1500:]
            except Exception:
                pass
            inconclusive.append('shard %d: %s %s' % (i, status, tail))
            continue
        d = json.load(open(files[i]))
        counters.update(d['counters'])
        distinct.update(d['distinct'])
        for k, v in d['samples'].items():
            samples.setdefault(k, [])
            if len(samples[k]) < 2:
                samples[k].extend(v[:2 - len(samples[k])])
        viols.extend(d['violations'])
        bykey.update(d.get('bykey', {}))
        for k, v in d['worst'].items():
            worst[k] = max(worst.get(k, v), v)
        reqs.update(d['requirements'])
        notes.extend(d['notes'])
        for k, v in d.get('info', {}).items():
            if isinstance(v, list) and isinstance(info.get(k), list):
                info[k] = (info[k] + v)[:50]
            elif isinstance(v, (int, float)) and isinstance(info.get(k), (int, float)):
                info[k] = max(info[k], v)
            else:
                info.setdefault(k, v)
        for e in d['harness_errors']:
            inconclusive.append('shard %d harness error: %s' % (i, e))

    # thorough tier: the repository's own tests with this property's contracts attached
    suite_wanted = getattr(mod, 'SUITE_UNDER_CONTRACTS', False) and (
        (tier == 'thorough' and not replay) or (replay and json.load(open(replay)).get('check') == 'suite'))
    if suite_wanted:
        sfile = os.path.join(rundir, 'suite.json')
        try:
            with open(sfile + '.log', 'w') as fid:
                subprocess.run([sys.executable, '-m', 'pvmon.suite', prop, sfile], cwd=HERE, stdout=fid,
                               stderr=subprocess.STDOUT, timeout=1800)
            sres = json.load(open(sfile))
        except Exception as exc:
            sres = None
            inconclusive.append('suite under contracts did not complete: %r' % (exc,))
        if sres is not None:
            info['suite_under_contracts'] = {'tests_passed': sres['passed'], 'tests_failed': len(sres['failed']),
                                             'monitor_counters_during_suite': sres['counters']}
            counters['evaluations'] += sum(v for k, v in sres['counters'].items() if k.startswith('contract.'))
            if replay:
                counters['evaluations'] += sres['passed']
            for f in sres['failed']:
                v = {'property': prop, 'check': 'suite', 'case': {'nodeid': f['nodeid']}, 'key': None,
                     'msg': 'repository test fails with the contracts of %s attached: %s' % (prop, f['text'][-600:]),
                     'detail': {'when': f['when']}, 'seed': seed, 'tier': tier}
                viols.append(v)
                bykey['None'] += 1
            if sres['passed'] == 0:
                inconclusive.append('suite under contracts ran no test')

    if not replay:
        for name, (minimum, why) in sorted(reqs.items()):
            if counters.get('anchor_missing.' + name, 0):
                continue  # line anchor not present in this source tree: counter is evidence only
            if counters.get(name, 0) < minimum:
                inconclusive.append('monitor/reach requirement not met: %s = %d < %d (%s)'
                                    % (name, counters.get(name, 0), minimum, why))

    known, fixed = findings_mod.load()
    known_seen = Counter()
    real = []
    for v in viols:
        key = v.get('key')
        if key is not None and (prop, key) in known:
            known_seen[key] += 0  # counted from bykey below
        else:
            real.append(v)
    unlisted = 0
    for key, n in bykey.items():
        if key != 'None' and (prop, key) in known:
            known_seen[key] = n
        else:
            unlisted += n

    lines = []
    for key, n in sorted(known_seen.items()):
        lines.append('KNOWN-FINDING: property=%s %s [key=%s, seen %d times in this run]'
                     % (prop, known[(prop, key)], key, n))
    replay_paths = []
    os.makedirs(outdir, exist_ok=True)
    if not replay:
        for f in os.listdir(outdir):
            if f.startswith('replay-'):
                os.remove(os.path.join(outdir, f))
    real.sort(key=lambda v: len(json.dumps(v.get('case'))))  # smallest witness first
    groups = {}                                                 # ... round-robin over (check, key) mechanisms
    for v in real:
        groups.setdefault((v.get('check'), v.get('key')), []).append(v)
    real = [g[i] for i in range(max([len(g) for g in groups.values()] or [0])) for g in groups.values() if i < len(g)]
    for n, v in enumerate(real[:20]):
        if replay:
            path = replay
        else:
            path = os.path.join(outdir, 'replay-%d.json' % n)
            with open(path, 'w') as fid:
                json.dump(v, fid, indent=1)
        replay_paths.append(path)
        tag = ''
        if v.get('key') is not None and (prop, v['key']) in fixed:
            tag = ' [regression of fixed finding %s]' % v['key']
        lines.append('VIOLATION property=%s replay=%s%s' % (prop, path, tag))
        lines.append('  check=%s msg=%s' % (v['check'], v['msg'][:300]))
        lines.append('  case=%s' % json.dumps(v['case'])[:400])

    wall = time.time() - t0
    evaluations = int(counters.get('evaluations', 0))
    if evaluations == 0 and not replay:
        inconclusive.append('no oracle evaluation was performed')
    verdict = 'VIOLATED' if unlisted else ('INCONCLUSIVE' if inconclusive else 'HELD')

    if not replay:
        cov = {
            'evaluations': evaluations,
            'distinct_nontrivial': len(distinct),
            'rule': getattr(mod, 'RULE', ''),
            'samples': [{'check': k, 'case': c} for k, cs in sorted(samples.items()) for c in cs][:24],
            'cases': int(counters.get('cases', 0)),
            'observed_counters': {k: int(v) for k, v in sorted(counters.items())
                                  if not k.startswith('violations.')},
            'worst_observed': worst,
            'reach_requirements': {k: {'minimum': v[0], 'observed': int(counters.get(k, 0)), 'why': v[1]}
                                   for k, v in sorted(reqs.items())},
            'known_findings_seen': dict(known_seen),
            'verdict': verdict,
            'inconclusive_reasons': [s[:500] for s in inconclusive[:10]],
            'shards': nshards,
            'repo': os.environ.get('VERIF_REPO', '/repo'),
            'repo_head': git_head(os.environ.get('VERIF_REPO', '/repo')),
            'notes': notes[:20],
        }
        if getattr(mod, 'EXHAUSTIVE', False):
            cov['exhaustive'] = True
        cov.update(info)
        ev = {
            'property_id': prop, 'tier': tier, 'seed': int(seed), 'level': 'exploration',
            'coverage': cov,
            'assumptions': list(getattr(mod, 'ASSUMPTIONS', [])),
            'wall_s': round(wall, 2),
            'violations': int(unlisted),
        }
        evpath = os.path.join(HERE, 'evidence', prop + '.json')
        if scratch or os.environ.get('VERIF_NO_EVIDENCE'):
            evpath = os.path.join(outdir, 'evidence-%s.json' % prop)
        os.makedirs(os.path.dirname(evpath), exist_ok=True)
        with open(evpath, 'w') as fid:
            json.dump(ev, fid, indent=1, sort_keys=True)
        try:
            import jsonschema
            schema = json.load(open('/root/.vp/EVIDENCE.schema.json'))
            jsonschema.validate(ev, schema)
        except ImportError:
            pass
        except FileNotFoundError:
            pass
        except Exception as exc:
            if not unlisted:
                inconclusive.append('evidence does not validate: %s' % str(exc)[:300])
                verdict = 'INCONCLUSIVE'

    if scratch:
        shutil.rmtree(rundir, ignore_errors=True)
    for line in lines:
        print(line)
    print('%s %s seed=%s: %s; %d cases, %d oracle evaluations, %d distinct non-trivial, %.1fs'
          % (prop, tier if not replay else 'replay', seed, verdict, counters.get('cases', 0),
             evaluations, len(distinct), wall))
    if verdict == 'INCONCLUSIVE':
        for s in inconclusive[:10]:
            print('INCONCLUSIVE: ' + s[:1500])
    sys.stdout.flush()
    return 1 if unlisted else (2 if inconclusive else 0)


def main(argv=None):
    ap = argparse.ArgumentParser()
    ap.add_argument('prop')
    ap.add_argument('rest', nargs='*')
    ap.add_argument('--tier', default=os.environ.get('VERIF_TIER', 'quick'),
                    choices=['quick', 'thorough'])
    ap.add_argument('--seed', type=int, default=int(os.environ.get('VERIF_SEED', '0') or 0))
    ap.add_argument('--replay')
    ap.add_argument('--jobs', type=int, default=int(os.environ.get('VERIF_JOBS', '16')))
    args = ap.parse_args(argv)
    if args.prop == 'selftest':
        from . import selftest
        return selftest.main(args.rest)
    props = available() if args.prop == 'all' else [args.prop.upper()]
    rc = 0
    for p in props:
        if p not in available():
            print('no check for %s' % p)
            return 2
        r = run_property(p, args.tier, args.seed, args.jobs, replay=args.replay)
        rc = 1 if (r == 1 or rc == 1) else max(rc, r)
    return rc


if __name__ == '__main__':
    sys.exit(main())
