"""C12 - density, natural density, isotope substitution and cell volume are consistent.

Reference-model monitor: formulas come from derivation trees (pvmon/gen/formulas.py,
pvmon/gen/mixtures.py), so the composition is known without parsing; the mass a
formula would have with every isotope replaced by its element (ion charges kept)
is computed from the independently read mass tables (pvmon/ref/masses.py).  Each
case drives one mechanism through every documented route (keyword, attribute,
'@d' / '@di' / '@dn' tags on compounds and on parenthesised mixtures) and compares
with the model; a hand-written postcondition wrapper on _isotope_substitution
fires on every internal call."""
import math

RULE = ('natural: one random compound (elements, isotopes, ions, isotope ions, D/T; nesting <= 2) and a log-uniform '
        'density, driven through keyword / attribute / tag / structure / dict / copy routes; group-tag: one random '
        'percentage mixture in parentheses with a @d, @di or @dn tag, plus the same through mix_by_*(..., density= / '
        'natural_density=) and the attribute; default: every element (exhaustive) and sampled isotopes/ions as one-atom '
        'formulas in five spellings; replace: compound x (source, target != source, portion in {0,1} u U(0,1)) with and '
        'without density; volume: compound x (five lattice names, numeric packing factors, default) and lattice cells '
        'with positive Gram determinant in six argument conventions; history: ONE formula object is given a density '
        '(keyword / attribute / tag, natural or not), then a random sequence of conversions (read natural_density, set '
        'natural_density, set density), in-place changes of the composition (+= a compound of other isotopic content, '
        'assignment to .structure, change_table to a private table) and derived objects (n*f, formula(f), replace) that '
        'are changed and converted in turn; every conversion is judged against the model ratio of the composition at '
        'that moment. distinct = (check, derivation shape of the compound '
        'or mixture, route / portion class / packing or argument convention); trivial cases (formulas whose natural mass '
        'ratio is exactly 1 for the natural-density checks) are executed but not counted as non-trivial')
SHARDS = {'quick': 8, 'thorough': 16}
TIMEOUT = {'quick': 600, 'thorough': 3600}
TECHNIQUE = ('runtime monitoring: derivation-tree workload with a reference model of the natural mass ratio, the '
             'substitution arithmetic and the two volume formulas (independent mass/density tables, own packing-factor '
             'table), hand-written postcondition wrapper on _isotope_substitution, sys.monitoring reach counters on '
             'natural_mass_ratio, the natural_density setter, convert_compound / convert_mixture, Formula.volume and cell_volume')
LEVEL_TEXT = ('Random compounds and mixtures with known composition are given densities through every documented route '
              'and density / natural_density are compared to 1e-12 with the mass ratio computed from independently read '
              'tables; substitutions are compared count by count and in density; volume() is compared with the '
              'covalent-sphere formula for all five lattice names and numeric factors and with the triclinic cell formula '
              'of the property text. Held means held on the compounds, densities, substitutions and cells generated.'
              ' Added in rounds 5-7: very flat lattice cells (60-digit reference), substitutions that leave one kind of atom, clones of substitution results.')
LEVEL_NOTE = ('Trusted: pvmon/gen/formulas.py and pvmon/gen/mixtures.py (known denotation), pvmon/ref/masses.py, the public '
              'covalent_radius attribute (checked against the embedded table by C20), periodictable.constants.electron_mass.')
ASSUMPTIONS = ['model masses: tabulated neutral mass less charge * electron_mass (pvmon/ref/masses.py)',
               'the density of an ion is that of its element or isotope; of an isotope, the element density scaled by the mass ratio',
               'substitutions have source != target (the property speaks of substituting one atom for another); a formula '
               'that starts as a single atom with a tabulated density is never "unknown" (it carries the one-atom default '
               'from construction); a result that is left with one kind of atom keeps an unknown density unknown',
               'volume(): documented default packing factor is hcp; lattice defaults b=c=a and 90 degrees are used only '
               'when no angle is given; cells are sampled with Gram determinant >= 0.01',
               'tolerance 1e-12 relative (DESIGN 3.7)',
               'periodictable.constants are data']

REL = 1e-12
_s = {}

# own table of the documented packing factors (Formula.volume docstring: 0.52360 0.68017 0.74048 0.74048 0.34009)
PACKING = {'cubic': math.pi / 6, 'bcc': math.pi * math.sqrt(3) / 8, 'hcp': math.pi / math.sqrt(18),
           'fcc': math.pi / math.sqrt(18), 'diamond': math.pi * math.sqrt(3) / 16}
PACKING_DOC = {'cubic': 0.52360, 'bcc': 0.68017, 'hcp': 0.74048, 'fcc': 0.74048, 'diamond': 0.34009}


class ModelError(Exception):
    pass


# --------------------------------------------------------------------------
# model
# --------------------------------------------------------------------------
def _mass(k):
    return _s['model'].atom_mass(k, _s['me'])


def _natural_mass(k):
    return _s['model'].el[k[0]][0] - k[2] * _s['me']


def _atom_density(k):
    m = _s['model']
    rho = m.density[_s['symbol'][k[0]]]
    if rho is None:
        return None
    if k[1]:
        return rho * m.iso[(k[0], k[1])][0] / m.el[k[0]][0]
    return rho


def _ratio(counts):
    """natural mass / actual mass of a composition {key: count}."""
    nat = sum(float(c) * _natural_mass(k) for k, c in counts.items())
    act = sum(float(c) * _mass(k) for k, c in counts.items())
    return nat / act


def _keys_of(f):
    from ..atoms import key as akey
    out = {}
    for a, c in f.atoms.items():
        k = akey(a)
        out[k] = out.get(k, 0) + c
    return out


def _denot(case):
    from ..gen.mixtures import struct_fold
    return struct_fold(case['struct'])


def _lib_struct(sj):
    from ..gen.mixtures import _lib_struct as conv
    return conv(sj, _s['lib'])


# --------------------------------------------------------------------------
# in-process postcondition on _isotope_substitution
# --------------------------------------------------------------------------
def _post_substitution(compound, source, target, portion, result):
    n = _s['n']
    n['contract._isotope_substitution'] += 1
    if source is target:
        n['contract._isotope_substitution.same-atom'] += 1
        return None
    old = compound.atoms
    new = result.atoms
    for a in set(old) | set(new):
        if a is source or a is target:
            continue
        if old.get(a, 0) != new.get(a, 0):
            return 'count of %s changed from %r to %r' % (a, old.get(a, 0), new.get(a, 0))
    before = old.get(source, 0) + old.get(target, 0)
    after = new.get(source, 0) + new.get(target, 0)
    if abs(before - after) > REL * abs(before):
        return 'source+target count %r became %r' % (before, after)
    moved = old.get(source, 0) * portion
    want_t = old.get(target, 0) + moved
    if abs(new.get(target, 0) - want_t) > REL * max(abs(want_t), 1e-300) and new.get(target, 0) != want_t:
        return 'target count %r, expected %r' % (new.get(target, 0), want_t)
    if compound.density is None:
        if result.density is not None:
            return 'density %r from an unknown density' % (result.density,)
    else:
        want = compound.density * result.mass / compound.mass
        if result.density is None or abs(result.density - want) > REL * abs(want):
            return 'density %r, old density * new mass / old mass = %r' % (result.density, want)
    return None


def _install_wrapper(ctx):
    """Postcondition wrapper on the PRIVATE _isotope_substitution: optional instrumentation.  Absent name: skipped
    and the requirement on its evaluation waived.  A call that is not of the pinned form (compound, source, target
    [, portion]) or a result that is not a Formula is passed through un-judged (…unrecognised_call)."""
    from collections import Counter
    from periodictable import formulas
    from ..gen.formulas import private
    _s['n'] = Counter()
    _s['post_failures'] = []
    orig = private(ctx, formulas, '_isotope_substitution', waived=['contract._isotope_substitution'])
    if orig is None or not callable(orig):
        return
    Formula = formulas.Formula

    def _isotope_substitution(*args, **kw):
        try:
            result = orig(*args, **kw)
        except Exception:
            _s['n']['contract._isotope_substitution.raised'] += 1
            raise
        try:
            extra = dict(kw)
            portion = extra.pop('portion', args[3] if len(args) == 4 else 1)
            recognised = (not extra and 3 <= len(args) <= 4 and not (len(args) == 4 and 'portion' in kw)
                          and isinstance(args[0], Formula) and isinstance(result, Formula))
        except Exception:
            recognised = False
        if not recognised:
            _s['n']['contract._isotope_substitution.unrecognised_call'] += 1
            return result
        try:
            msg = _post_substitution(args[0], args[1], args[2], portion, result)
        except Exception as exc:
            msg = 'postcondition could not be evaluated: %r' % (exc,)
        if msg:
            _s['post_failures'].append('_isotope_substitution postcondition: ' + msg)
        return result
    _isotope_substitution.__wrapped__ = orig
    _isotope_substitution.__doc__ = getattr(orig, '__doc__', None)
    formulas._isotope_substitution = _isotope_substitution


def setup(ctx):
    import periodictable as pt
    from periodictable import formulas, util
    from ..ref.masses import MassModel
    from ..statemon import Reach
    from ..atoms import lookup
    from ..gen.mixtures import Lib
    from ..gen.formulas import watch_nested, watch_private, waive
    _s['model'] = MassModel()
    _s['me'] = pt.constants.electron_mass
    _s['symbol'] = {el.number: el.symbol for el in pt.elements}
    _s['known'] = sorted(el.number for el in pt.elements
                         if el.number >= 1 and _s['model'].density.get(el.symbol) is not None)
    _s['radius'] = {el.number: el.covalent_radius for el in pt.elements if el.covalent_radius is not None}
    _s['lookup'] = lambda k: lookup(pt.elements, tuple(k))
    _s['lib'] = Lib(pt.formula, pt.mix_by_weight, pt.mix_by_volume, _s['lookup'])
    from periodictable import core, mass as mass_mod, density as density_mod
    pt.elements.H.mass, pt.elements.H.density       # the public groups are loaded first
    private = core.PeriodicTable('c12_private_%d' % ctx.shard)
    mass_mod.init(private)
    density_mod.init(private)
    _s['private'] = private
    for name, v in PACKING.items():
        if abs(v - PACKING_DOC[name]) > 6e-6:
            raise ModelError('own packing factor table disagrees with the documented value of %s' % name)
    reach = Reach()
    if getattr(formulas, '_isotope_substitution', None) is not None:
        watch_private(ctx, reach, formulas, '_isotope_substitution')      # evidence only (no requirement on it)
    _install_wrapper(ctx)
    # the two parse actions are nested functions of formula_grammar on the pinned tree (private names): optional
    watch_nested(ctx, reach, getattr(formulas, 'formula_grammar', None), ('convert_compound', 'convert_mixture'))
    reach.watch(formulas.Formula.natural_mass_ratio, 'natural_mass_ratio')
    # natural_density is a documented read/write attribute; that it is a Python property with fget/fset code of
    # its own is how the pinned tree does it
    nd = getattr(formulas.Formula, 'natural_density', None)
    for part, label in (('fset', 'natural_density.setter'), ('fget', 'natural_density.getter')):
        code = getattr(getattr(nd, part, None), '__code__', None)
        if code is not None:
            reach.codes[code] = label
        else:
            waive(ctx, ['reach.' + label], 'Formula.natural_density has no %s code object in this tree' % part)
    reach.watch(formulas.Formula.volume, 'Formula.volume')
    reach.watch(util.cell_volume, 'cell_volume')
    reach.start()
    _s['reach'] = reach
    if not ctx.replay:
        for name in ('convert_compound', 'convert_mixture', 'natural_mass_ratio', 'natural_density.setter',
                     'natural_density.getter', 'Formula.volume', 'cell_volume'):
            ctx.require('reach.' + name, 1, 'the workload must enter this anchored mechanism')
        ctx.require('contract._isotope_substitution', 1, 'the substitution postcondition must have been evaluated')
        for name in PACKING:
            ctx.require('volume.packing.' + name, 1, 'every named lattice must have been used')
        for tag in ('@d', '@di', '@dn'):
            ctx.require('natural.tag.' + tag, 1, 'every density tag must have been used on a compound')
            ctx.require('group.tag.' + tag, 1, 'every density tag must have been used on a parenthesised mixture')
        ctx.require('natural.nontrivial', 1, 'formulas whose natural mass differs from their mass')
        ctx.require('natural.isotope-ion', 1, 'formulas containing isotope ions')
        ctx.require('replace.unknown-density', 1, 'substitutions on formulas of unknown density')
        ctx.require('cell.acute', 1, 'very flat but valid lattice cells')
        ctx.require('replace.unknown-density.one-atom-left', 1, 'a substitution on an unknown density that leaves one kind of atom')
        ctx.require('replace.partial', 1, 'partial substitutions')
        ctx.require('replace.target-present', 1, 'substitutions whose target is already in the formula')
        ctx.require('history.ratio-changed-in-place', 1, 'conversions after an in-place change of the isotopic content')
        for name in ('iadd', 'assign', 'change-table', 'mul', 'copy', 'replace'):
            ctx.require('history.op.' + name, 1, 'histories must contain this operation')


def finish(ctx):
    _s['reach'].stop()
    _s['reach'].export(ctx)
    from ..gen.formulas import waive_unjudged, waive_dead
    for k, v in list(_s['n'].items()):
        ctx.count(k, v)
    if '_isotope_substitution' in _s['reach'].codes.values():
        waive_dead(ctx, '_isotope_substitution', ['contract._isotope_substitution'], 'eval.replace-counts')
    waive_unjudged(ctx, 'contract._isotope_substitution', _s['n']['contract._isotope_substitution'],
                   _s['n']['contract._isotope_substitution.unrecognised_call'], 'the private formulas._isotope_substitution')


def _drain(problems):
    fails = _s['post_failures']
    if fails:
        problems.append(fails[0])
        del fails[:]


def _close(ctx, got, want, name, problems, what):
    ctx.evaluated(what=name)
    if got is None or not ctx.close(got, want, rel=REL, name=name + '.relerr'):
        problems.append('%s: %r, expected %r' % (what, got, want))
        return False
    return True


# --------------------------------------------------------------------------
# natural density of compounds
# --------------------------------------------------------------------------
def check_natural(ctx, case):
    import periodictable as pt
    from ..gen.mixtures import frac
    text = case['text']
    den = _denot(case)
    R = _ratio(den)                      # natural mass / mass
    rho = float(frac(case['rho']))
    rt = case['rho']
    problems = []
    trivial = all(k[1] == 0 for k in den)
    if not trivial:
        ctx.count('natural.nontrivial')
    if any(k[1] and k[2] for k in den):
        ctx.count('natural.isotope-ion')
    atoms = {_s['lookup'](k): float(c) for k, c in den.items()}
    struct = _lib_struct(case['struct'])

    def builders():
        yield 'string', lambda **kw: pt.formula(text, **kw)
        yield 'structure', lambda **kw: pt.formula(struct, **kw)
        yield 'dict', lambda **kw: pt.formula(dict(atoms), **kw)
        yield 'copy', lambda **kw: pt.formula(pt.formula(text), **kw)

    for route, build in builders():
        # keyword natural_density -> density
        f = build(natural_density=rho)
        _close(ctx, f.density, rho / R, 'kw-natural', problems, '%s, natural_density=%r: density' % (route, rho))
        _close(ctx, f.natural_density, rho, 'kw-natural-back', problems, '%s, natural_density=%r: natural_density' % (route, rho))
        # keyword density -> natural_density
        f = build(density=rho)
        _close(ctx, f.density, rho, 'kw-density', problems, '%s, density=%r: density' % (route, rho))
        _close(ctx, f.natural_density, rho * R, 'kw-density-natural', problems, '%s, density=%r: natural_density' % (route, rho))
        # attribute: set one, read the other, and back
        f = build()
        f.natural_density = rho
        _close(ctx, f.density, rho / R, 'attr-natural', problems, '%s, .natural_density=%r: density' % (route, rho))
        _close(ctx, f.natural_density, rho, 'attr-invert', problems, '%s, .natural_density=%r read back' % (route, rho))
        f.density = rho
        nd = f.natural_density
        _close(ctx, nd, rho * R, 'attr-density', problems, '%s, .density=%r: natural_density' % (route, rho))
        f.density = 123.456
        f.natural_density = nd
        _close(ctx, f.density, rho, 'attr-invert', problems, '%s, .natural_density=<read value> restores density' % route)
        ctx.count('natural.route.' + route)
    # tags
    for tag, want in (('@' + rt, rho), ('@' + rt + 'i', rho), ('@' + rt + 'n', rho / R)):
        f = pt.formula(text + tag)
        kind = '@d' + tag[len(rt) + 1:]
        _close(ctx, f.density, want, 'tag', problems, '%r: density' % (text + tag))
        _close(ctx, f.natural_density, want * R, 'tag-natural', problems, '%r: natural_density' % (text + tag))
        ctx.count('natural.tag.' + kind)
    # the ratio itself
    f = pt.formula(text, density=rho)
    _close(ctx, f.natural_density / f.density, R, 'ratio', problems, 'natural_density/density of %r' % text)
    if problems:
        ctx.violation('%r: %s' % (text, problems[0]), problems=problems[:5], isotope_ion=any(k[1] and k[2] for k in den),
                      ions=any(k[2] for k in den))
    if not trivial:
        ctx.distinct_case(('natural', case.get('shape')))


# --------------------------------------------------------------------------
# density tags and keywords on mixtures
# --------------------------------------------------------------------------
def check_group_tag(ctx, case):
    import json
    import periodictable as pt
    from ..gen import mixtures as G
    case = dict(case)
    if isinstance(case['tree'], str):
        case['tree'] = json.loads(case['tree'])
    tree = case['tree']
    text = G.render_top(case)
    rho = float(G.frac(tree['tag'][0]))
    kind = tree['tag'][1]
    problems = []

    def want_for(f):
        R = _ratio(_keys_of(f))
        return (rho / R if kind == 'n' else rho), R

    # string form '( ... )@d[n|i]'
    f = pt.formula(text)
    want, R = want_for(f)
    nontrivial = abs(R - 1) > 1e-9
    _close(ctx, f.density, want, 'group-tag', problems, '%r: density' % text)
    _close(ctx, f.natural_density, want * R, 'group-tag-natural', problems, '%r: natural_density' % text)
    ctx.count('group.tag.@d' + kind)
    # call form with the keyword
    g, _ = G.build_call(tree, _s['lib'])
    want, Rg = want_for(g)
    _close(ctx, g.density, want, 'mix-keyword', problems, 'mix_by_*(..., %s=%r): density'
           % ('natural_density' if kind == 'n' else 'density', rho))
    # attribute on the untagged mixture, and keyword of formula() on the untagged string
    bare = dict(tree)
    bare['tag'] = None
    h, _ = G.build_call(bare, _s['lib'])
    if kind == 'n':
        h.natural_density = rho
    else:
        h.density = rho
    want, Rh = want_for(h)
    _close(ctx, h.density, want, 'mix-attribute', problems, 'attribute on the mixture: density')
    _close(ctx, h.natural_density, want * Rh, 'mix-attribute-natural', problems, 'attribute on the mixture: natural_density')
    kw = {'natural_density' if kind == 'n' else 'density': rho}
    u = pt.formula(G.render(bare), **kw)
    want, Ru = want_for(u)
    _close(ctx, u.density, want, 'mix-string-keyword', problems, 'formula(%r, %s): density' % (G.render(bare), kw))
    if problems:
        ctx.violation('%r: %s' % (text, problems[0]), problems=problems[:5], kind=kind)
    if nontrivial:
        ctx.count('group.nontrivial')
        ctx.distinct_case(('group', case.get('shape'), kind))


# --------------------------------------------------------------------------
# one-atom default density
# --------------------------------------------------------------------------
def check_default(ctx, case):
    import periodictable as pt
    from ..atoms import render
    k = tuple(case['key'])
    atom = _s['lookup'](k)
    want = _atom_density(k)
    name = render(pt.elements, k, None, alias=case.get('alias', False))
    n = case.get('count', 3)
    forms = [('formula(atom)', lambda: pt.formula(atom)),
             ('formula(%r)' % name, lambda: pt.formula(name)),
             ('formula(%r)' % (name + str(n)), lambda: pt.formula(name + str(n))),
             ('formula({atom: %d})' % n, lambda: pt.formula({atom: n})),
             ('formula([(%d, atom)])' % n, lambda: pt.formula([(n, atom)])),
             ('formula(%r)' % ('%d%s' % (n, name)), lambda: pt.formula('%d%s' % (n, name)))]
    problems = []
    for label, build in forms:
        f = build()
        ctx.evaluated(what='default')
        if want is None:
            if f.density is not None:
                problems.append('%s: density %r, the atom has none' % (label, f.density))
        elif f.density is None or not ctx.close(f.density, want, rel=REL, name='default.relerr'):
            problems.append('%s: density %r, the atom\'s is %r' % (label, f.density, want))
    if problems:
        ctx.violation('%r: %s' % (k, problems[0]), problems=problems[:4])
    ctx.distinct_case(('default', k[0], bool(k[1]), bool(k[2])))


# --------------------------------------------------------------------------
# replace
# --------------------------------------------------------------------------
def _replace_once(ctx, case, rho):
    """Run one substitution with the given starting density (None = unknown); returns problems."""
    import periodictable as pt
    den = {k: float(c) for k, c in _denot(case).items()}
    src, tgt = tuple(case['source']), tuple(case['target'])
    portion = case['portion']
    text = case['text']
    f = pt.formula(text, density=rho) if rho is not None else pt.formula(text)
    if rho is None and f.density is not None:
        if len(den) > 1:
            # no density was given and the formula is not a single-atom one: there is no default to take
            return ['formula(%r) has density %r although none was given and it holds %d different atoms '
                    '(only a single-atom formula defaults to its atom\'s density)' % (text, f.density, len(den))]
        raise ModelError('case marked as unknown density has density %r' % f.density)
    a_src, a_tgt = _s['lookup'](src), _s['lookup'](tgt)
    del _s['post_failures'][:]
    if portion == 1 and case.get('omit_portion'):
        g = f.replace(a_src, a_tgt)
    else:
        g = f.replace(a_src, a_tgt, portion)
    problems = []
    _drain(problems)
    want = dict(den)
    if src in den:
        n = want.pop(src)
        want[tgt] = want.get(tgt, 0.0) + n * portion
        if portion != 1:
            want[src] = n * (1 - portion)
    got = {k: c for k, c in _keys_of(g).items() if c != 0}
    want_nz = {k: c for k, c in want.items() if c != 0}
    ctx.evaluated(what='replace-counts')
    if set(got) != set(want_nz):
        problems.append('atoms after replace %r, expected %r' % (sorted(got), sorted(want_nz)))
    else:
        for k, v in want_nz.items():
            if k in (src, tgt):
                ok = ctx.close(got[k], v, rel=REL, name='replace.count.relerr')
            else:
                ok = got[k] == den[k] or ctx.close(got[k], den[k], rel=REL, name='replace.other.relerr')
            if not ok:
                problems.append('count of %r after replace is %r, expected %r' % (k, got[k], v))
                break
        ctx.evaluated(what='replace-conservation')
        before = den.get(src, 0.0) + den.get(tgt, 0.0)
        after = got.get(src, 0.0) + got.get(tgt, 0.0)
        if not ctx.close(after, before, rel=REL, name='replace.sum.relerr'):
            problems.append('source+target count %r became %r' % (before, after))
    # the result through ordinary Python protocols: the same formula with the same (known or unknown) density
    import copy
    import pickle
    for how, clone in (('copy.copy', copy.copy), ('copy.deepcopy', copy.deepcopy),
                       ('pickle round trip', lambda x: pickle.loads(pickle.dumps(x))), ('1*f', lambda x: 1 * x)):
        ctx.evaluated(what='replace-clone')
        h = clone(g)
        same_density = (h.density is None and g.density is None) or \
            (h.density is not None and g.density is not None and abs(h.density - g.density) <= REL * abs(g.density))
        if not same_density or h.atoms != g.atoms:
            problems.append('%s of the result of replace has density %r and atoms %r; the result itself has density %r and '
                            'atoms %r' % (how, h.density, h.atoms, g.density, g.atoms))
            break
    ctx.evaluated(what='replace-density')
    if rho is None:
        if g.density is not None:
            problems.append('density was unknown, after replace it is %r' % (g.density,))
    else:
        m_old = sum(c * _mass(k) for k, c in den.items())
        m_new = sum(c * _mass(k) for k, c in want.items())
        if g.density is None or not ctx.close(g.density, rho * m_new / m_old, rel=REL, name='replace.density.relerr'):
            problems.append('density after replace %r, old density * new mass / old mass = %r'
                            % (g.density, rho * m_new / m_old))
    return problems


def check_replace(ctx, case):
    from ..gen.mixtures import frac
    rho = float(frac(case['rho'])) if case.get('rho') else None
    den = _denot(case)
    src = tuple(case['source'])
    present = src in den
    portion = case['portion']
    if rho is None:
        ctx.count('replace.unknown-density')
        left = (set(den) - ({src} if (present and portion == 1) else set())) | ({tuple(case['target'])} if present else set())
        if len(left) == 1 and len(den) > 1:
            ctx.count('replace.unknown-density.one-atom-left')
    if 0 < portion < 1:
        ctx.count('replace.partial')
    if tuple(case['target']) in den:
        ctx.count('replace.target-present')
    if not present:
        ctx.count('replace.source-absent')
    try:
        problems = _replace_once(ctx, case, rho)
    except ModelError:
        raise
    except Exception as exc:
        detail = dict(exc_type=type(exc).__name__, unknown_density=rho is None, source_present=present)
        if rho is None and present:
            # sibling: the same substitution on the same formula with a density
            try:
                detail['sibling_ok'] = not _replace_once(ctx, case, 1.5)
            except Exception:
                detail['sibling_ok'] = False
        ctx.violation('formula(%r%s).replace(%r, %r, %r) raised %s: %s'
                      % (case['text'], '' if rho is None else ', density=%r' % rho, src, tuple(case['target']),
                         portion, type(exc).__name__, str(exc)[:200]), **detail)
        del _s['post_failures'][:]
        return
    if problems:
        ctx.violation('formula(%r%s).replace(%r, %r, %r): %s'
                      % (case['text'], '' if rho is None else ', density=%r' % rho, src, tuple(case['target']),
                         portion, problems[0]), problems=problems[:4], unknown_density=rho is None,
                      source_present=present)
    pc = 'zero' if portion == 0 else 'full' if portion == 1 else 'partial'
    ctx.distinct_case(('replace', case.get('shape'), pc, rho is None, present, tuple(case['target']) in den))


# --------------------------------------------------------------------------
# volume
# --------------------------------------------------------------------------
def _number(x, numtype):
    import numpy as np
    if numtype == 'numpy':
        return np.float64(x)
    if numtype == 'int':
        return int(x)
    return float(x)


def check_volume(ctx, case):
    import periodictable as pt
    den = _denot(case)
    f = pt.formula(case['text'])
    spheres = 4 * math.pi / 3 * sum(float(c) * _s['lookup']((k[0], 0, 0)).covalent_radius ** 3 for k, c in den.items())
    pf, how = case['pf'], case['how']
    if how == 'default':
        got = f.volume()
        factor = PACKING['hcp']
        label = 'volume()'
        ctx.count('volume.default')
    elif isinstance(pf, str):
        got = f.volume(pf) if how == 'pos' else f.volume(packing_factor=pf)
        factor = PACKING[pf]
        label = 'volume(%s%r)' % ('' if how == 'pos' else 'packing_factor=', pf)
        ctx.count('volume.packing.' + pf)
    else:
        x = _number(pf, case.get('numtype', 'float'))
        got = f.volume(x) if how == 'pos' else f.volume(packing_factor=x)
        factor = float(x)
        label = 'volume(%s%r)' % ('' if how == 'pos' else 'packing_factor=', x)
        ctx.count('volume.packing.numeric')
    want = spheres / factor * 1e-24
    ctx.evaluated(what='volume')
    if not ctx.close(got, want, rel=REL, name='volume.relerr'):
        ctx.violation('formula(%r).%s = %r, summed covalent spheres / packing factor * 1e-24 = %r'
                      % (case['text'], label, got, want), pf=pf, how=how)
    ctx.distinct_case(('volume', case.get('shape'), pf if isinstance(pf, str) else 'numeric', how, case.get('numtype')))


def cell_formula(a, b, c, alpha, beta, gamma):
    """The property text's triclinic volume, Angstrom^3."""
    ca, cb, cg = (math.cos(math.radians(x)) for x in (alpha, beta, gamma))
    return a * b * c * math.sqrt(1 - ca * ca - cb * cb - cg * cg + 2 * ca * cb * cg)


def check_cell(ctx, case):
    import numpy as np
    import periodictable as pt
    a, b, c = case['a'], case['b'], case['c']
    al, be, ga = case['alpha'], case['beta'], case['gamma']
    style = case['style']
    f = pt.formula(case.get('text', 'Fe'))
    if style == 'pos6':
        got = f.volume(a, b, c, al, be, ga)
    elif style == 'kw6':
        got = f.volume(a=a, b=b, c=c, alpha=al, beta=be, gamma=ga)
    elif style == 'mixed':
        got = f.volume(a, b, c, alpha=al, beta=be, gamma=ga)
    elif style == 'kw-shuffled':
        got = f.volume(gamma=ga, c=c, alpha=al, a=a, beta=be, b=b)
    elif style == 'a-kw':
        got = f.volume(a=a)
        b = c = a
        al = be = ga = 90.
    elif style == 'abc-pos':
        got = f.volume(a, b, c)
        al = be = ga = 90.
    elif style == 'ab-pos':
        got = f.volume(a, b)
        c = a
        al = be = ga = 90.
    # partially given angles: documented defaults (alpha defaults to 90, beta and gamma default to alpha)
    elif style == 'alpha-only':           # rhombohedral
        al = be = ga = min(al, 119.)
        got = f.volume(a, b, c, al) if case['a'] < 10 else f.volume(a=a, b=b, c=c, alpha=al)
    elif style == 'gamma-kw':             # hexagonal / monoclinic, the usual way to give such a cell
        got = f.volume(a=a, c=c, gamma=ga)
        b = a
        al = be = 90.
    elif style == 'beta-kw':              # monoclinic
        got = f.volume(a, b, c, beta=be)
        al = ga = 90.
    elif style == 'beta-gamma-pos':
        if 1 - math.cos(math.radians(be)) ** 2 - math.cos(math.radians(ga)) ** 2 < 0.01:
            be, ga = 90 + (be - 90) / 3, 90 + (ga - 90) / 3     # keep the cell valid with alpha = 90
        got = f.volume(a, b, c, None, be, ga)
        al = 90.
    else:
        raise ModelError('unknown style %r' % style)
    rel = REL
    if case.get('acute'):
        # a valid but very flat cell: the documented expression cancels, so the reference is evaluated with 60 digits
        # and the tolerance is what double arithmetic can lose in that expression (a few eps over the Gram factor)
        import mpmath
        with mpmath.workdps(60):
            cs = [mpmath.cos(mpmath.mpf(x) * mpmath.pi / 180) for x in (al, be, ga)]
            G = 1 - cs[0] ** 2 - cs[1] ** 2 - cs[2] ** 2 + 2 * cs[0] * cs[1] * cs[2]
            if not G > 0:
                raise ModelError('acute cell %r is not a valid cell' % (case,))
            want = float(mpmath.mpf(a) * b * c * mpmath.sqrt(G))
            rel = REL + 64 * 2.0 ** -52 / float(G)
        ctx.count('cell.acute')
        ctx.observe('cell.acute.smallest_angle_deg', min(al, be, ga))
    else:
        want = cell_formula(a, b, c, al, be, ga)
        # self-check of the oracle: V^2 is the Gram determinant of the cell vectors
        ca, cb, cg = (math.cos(math.radians(x)) for x in (al, be, ga))
        gram = np.array([[a * a, a * b * cg, a * c * cb], [a * b * cg, b * b, b * c * ca], [a * c * cb, b * c * ca, c * c]])
        if abs(math.sqrt(np.linalg.det(gram)) - want) > 1e-8 * want:
            raise ModelError('oracle self-check failed for cell %r' % (case,))
    ctx.evaluated(what='cell')
    if not ctx.close(got, want * 1e-24, rel=rel, name='cell.relerr' if not case.get('acute') else 'cell.acute.relerr'):
        ctx.violation('volume(%s) [%s] = %r, a*b*c*sqrt(1-cos^2-...)*1e-24 = %r'
                      % (', '.join('%r' % v for v in (case['a'], case['b'], case['c'], case['alpha'], case['beta'], case['gamma'])),
                         style, got, want * 1e-24), style=style)
    ctx.count('cell.style.' + style)
    ctx.distinct_case(('cell', style, round(al / 15), round(be / 15), round(ga / 15)))


# --------------------------------------------------------------------------
# histories on one formula object: conversions after the composition changed in place
# --------------------------------------------------------------------------
def _comp_add(a, b, n=1.0):
    out = dict(a)
    for k, c in b.items():
        out[k] = out.get(k, 0.0) + n * c
    return out


def check_history(ctx, case):
    """One Formula object is given a density, converted, CHANGED IN PLACE (+=, assignment to .structure,
    change_table), and converted again; products and copies made after a conversion are changed and converted
    too.  Every conversion is judged against the model ratio of the composition the object has at that moment."""
    import periodictable as pt
    from ..gen.mixtures import frac, struct_fold
    parts = case['parts']
    comps = [{k: float(c) for k, c in struct_fold(p['struct']).items()} for p in parts]
    rho0 = float(frac(case['rho']))
    how = case['start']
    text = parts[0]['text']
    problems = []

    def R(comp):
        return _ratio(comp)

    # start: the formula gets its density through one of the documented routes
    if how == 'kw-density':
        f = pt.formula(text, density=rho0)
    elif how == 'kw-natural':
        f = pt.formula(text, natural_density=rho0)
    elif how == 'tag':
        f = pt.formula(text + '@' + case['rho'])
    elif how == 'tag-natural':
        f = pt.formula(text + '@' + case['rho'] + 'n')
    elif how == 'attr-density':
        f = pt.formula(text)
        f.density = rho0
    elif how == 'attr-natural':
        f = pt.formula(text)
        f.natural_density = rho0
    else:
        raise ModelError('unknown start %r' % how)
    comp = comps[0]
    want_d = rho0 / R(comp) if 'natural' in how else rho0
    _close(ctx, f.density, want_d, 'history-start', problems, 'start %s %r: density' % (how, case['rho']))
    live = []                     # objects left behind, verified again at the end
    trail = ['formula(%r) [%s %s]' % (text, how, case['rho'])]
    table = [None]                # None = public

    def fresh(j):
        g = pt.formula(parts[j]['text'])
        if table[0] is not None:
            g.change_table(table[0])
        return g

    def verify(obj, comp, label):
        d = obj.density
        if d is None:
            ctx.count('history.unknown-density')
            return
        _close(ctx, obj.natural_density, d * R(comp), 'history-relation', problems,
               '%s: natural_density with density %r and model mass ratio %r of the current composition'
               % (label, d, R(comp)))
        # the estimated volume follows the composition too (public atoms only: the private table has no radii)
        if 'change_table' not in label and all(k[0] in _s['radius'] for k in comp):
            spheres = 4 * math.pi / 3 * sum(c * _s['radius'][k[0]] ** 3 for k, c in comp.items())
            _close(ctx, obj.volume(), spheres / PACKING['hcp'] * 1e-24, 'history-volume', problems,
                   '%s: volume() against the covalent spheres of the current composition' % label)

    changed = False
    for op in case['ops']:
        kind = op[0]
        before = R(comp)
        if kind == 'read':
            verify(f, comp, ' -> '.join(trail))
        elif kind == 'set-natural':
            rho = float(frac(op[1]))
            f.natural_density = rho
            trail.append('.natural_density = %s' % op[1])
            _close(ctx, f.density, rho / R(comp), 'history-set-natural', problems,
                   '%s: density (model mass ratio of the current composition %r)' % (' -> '.join(trail), R(comp)))
            if op[2]:
                _close(ctx, f.natural_density, rho, 'history-invert', problems, '%s: read back' % ' -> '.join(trail))
        elif kind == 'set-density':
            rho = float(frac(op[1]))
            f.density = rho
            trail.append('.density = %s' % op[1])
            if op[2]:
                _close(ctx, f.natural_density, rho * R(comp), 'history-set-density', problems,
                       '%s: natural_density (model mass ratio of the current composition %r)'
                       % (' -> '.join(trail), R(comp)))
        elif kind == 'iadd':
            g = fresh(op[1])
            f += g
            comp = _comp_add(comp, comps[op[1]])
            trail.append('+= formula(%r)' % parts[op[1]]['text'])
            ctx.count('history.op.iadd')
        elif kind == 'assign':
            f.structure = fresh(op[1]).structure
            comp = dict(comps[op[1]])
            trail.append('.structure = formula(%r).structure' % parts[op[1]]['text'])
            ctx.count('history.op.assign')
        elif kind == 'change-table':
            table[0] = _s['private']
            f.change_table(table[0])
            trail.append('.change_table(private)')
            ctx.count('history.op.change-table')
        elif kind in ('mul', 'copy'):
            live.append((f, comp, ' -> '.join(trail)))
            if kind == 'mul':
                n = _number(op[1], op[2])
                f = n * f
                comp = {k: float(n) * c for k, c in comp.items()}
                trail = ['(%r * (%s))' % (n, ' -> '.join(trail))]
            else:
                f = pt.formula(f)
                trail = ['formula(%s)' % ' -> '.join(trail)]
            ctx.count('history.op.' + kind)
        elif kind == 'replace':
            src, tgt, portion = tuple(op[1]), tuple(op[2]), op[3]
            live.append((f, comp, ' -> '.join(trail)))
            f = f.replace(_s['lookup'](src), _s['lookup'](tgt), portion)
            del _s['post_failures'][:]       # the substitution itself is judged by the replace check
            if src in comp:
                comp = dict(comp)
                n = comp.pop(src)
                comp[tgt] = comp.get(tgt, 0.0) + n * portion
                if portion != 1:
                    comp[src] = n * (1 - portion)
            trail = ['(%s).replace(%r, %r, %r)' % (' -> '.join(trail), src, tgt, portion)]
            ctx.count('history.op.replace')
        else:
            raise ModelError('unknown op %r' % (op,))
        if abs(R(comp) / before - 1) > 1e-9:
            changed = True
            if kind in ('iadd', 'assign'):
                ctx.count('history.ratio-changed-in-place')
    verify(f, comp, ' -> '.join(trail))
    for obj, c, label in live:
        verify(obj, c, label + ' (left behind)')
    if problems:
        ctx.violation(problems[0], problems=problems[:5], ops=[o[0] for o in case['ops']], start=how)
    if changed:
        ctx.distinct_case(('history', case.get('shape'), how, tuple(o[0] for o in case['ops'])))


CHECKS = {'natural': check_natural, 'group_tag': check_group_tag, 'default': check_default,
          'replace': check_replace, 'volume': check_volume, 'cell': check_cell, 'history': check_history}


# --------------------------------------------------------------------------
# workload
# --------------------------------------------------------------------------
def _compound(gen, rng, zmax=None, maxdepth=2):
    from ..gen.formulas import fold, shape_of
    from ..gen.mixtures import struct_json
    for _ in range(100):
        node = gen.compound(0, rng.choice(list(range(maxdepth + 1))))
        den = fold(node.struct)
        if zmax and any(k[0] not in zmax for k in den):
            continue
        return {'text': node.text, 'struct': struct_json(node.struct), 'shape': shape_of(node.text)}, den
    raise ModelError('no compound within the element range')


def _atom_key(rng, table, zs=None):
    el = table[rng.choice(zs)] if zs else rng.choice([e for e in table if e.number >= 1])
    A = rng.choice(el.isotopes) if (el.isotopes and rng.random() < 0.4) else 0
    q = rng.choice(el.ions) if (el.ions and rng.random() < 0.35) else 0
    return (el.number, A, q)


FIXED_PARTS = [{'text': 'D2O', 'struct': [['2', ['a', 1, 2, 0]], ['1', ['a', 8, 0, 0]]]},
               {'text': 'H2O', 'struct': [['2', ['a', 1, 0, 0]], ['1', ['a', 8, 0, 0]]]},
               {'text': 'H[1]2O[18]', 'struct': [['2', ['a', 1, 1, 0]], ['1', ['a', 8, 18, 0]]]},
               {'text': 'Li[6]F', 'struct': [['1', ['a', 3, 6, 0]], ['1', ['a', 9, 0, 0]]]},
               {'text': 'NaCl', 'struct': [['1', ['a', 11, 0, 0]], ['1', ['a', 17, 0, 0]]]},
               {'text': 'U[235]O2', 'struct': [['1', ['a', 92, 235, 0]], ['2', ['a', 8, 0, 0]]]}]


def _history_case(rng, fg):
    from ..gen.mixtures import decimal_text, log_uniform, struct_fold

    def rho():
        return decimal_text(rng, log_uniform(rng, -2, 1.4), maxsig=6)

    parts = []
    for _ in range(rng.randint(2, 4)):
        if rng.random() < 0.35:
            parts.append(dict(rng.choice(FIXED_PARTS)))
        else:
            parts.append(_compound(fg, rng)[0])
    keys = set()
    for p in parts:
        keys.update(struct_fold(p['struct']))
    ops = []
    private = False
    replaced = False
    nops = rng.randint(2, 7)
    while len(ops) < nops:
        r = rng.random()
        if r < 0.18:
            ops.append(['read'])
        elif r < 0.32:
            ops.append(['set-natural', rho(), rng.random() < 0.5])
        elif r < 0.44:
            ops.append(['set-density', rho(), rng.random() < 0.7])
        elif r < 0.68:
            ops.append(['iadd', rng.randrange(1, len(parts))])
        elif r < 0.74:
            ops.append(['assign', rng.randrange(1, len(parts))])
        elif r < 0.84:
            numtype = rng.choice(['int', 'float', 'numpy'])
            n = rng.randint(2, 9) if numtype == 'int' else round(10 ** rng.uniform(-3, 3), rng.randint(0, 6)) or 2.5
            ops.append(['mul', n, numtype])
        elif r < 0.90:
            ops.append(['copy'])
        elif r < 0.95:
            if not replaced:
                ops.append(['change-table'])
                private = True
        elif not private:
            src = rng.choice(sorted(keys))
            tgt = rng.choice([k for k in [(1, 2, 0), (1, 0, 0), (8, 18, 0), (6, 13, 0), (3, 6, 0)] if k != src])
            ops.append(['replace', list(src), list(tgt), rng.choice([1, 1, rng.random()])])
            replaced = True
    # a conversion before and after the first in-place change, so that nothing kept from the first can hide
    first = next((i for i, o in enumerate(ops) if o[0] in ('iadd', 'assign')), None)
    if first is None:
        ops.append(['iadd', rng.randrange(1, len(parts))])
    return {'parts': [{'text': p['text'], 'struct': p['struct']} for p in parts], 'shape': parts[0].get('shape', parts[0]['text']),
            'rho': rho(), 'ops': ops,
            'start': rng.choice(['kw-density', 'kw-natural', 'tag', 'tag-natural', 'attr-density', 'attr-natural'])}


def generate(ctx):
    import json
    import periodictable as pt
    from ..gen.formulas import FormulaGen
    from ..gen.mixtures import MixtureGen, decimal_text, log_uniform, render_top, shape_of as mshape
    rng = ctx.rng
    T = pt.elements
    fg = FormulaGen(T, rng, ws_patterns=0.0, max_groups=3, max_elements=3, p_isotope=0.4, p_ion=0.35, p_dt=0.08,
                    big_counts=ctx.thorough())
    mg = MixtureGen(T, rng, _s['known'], maxdepth=2)
    radius_z = set(_s['radius']) - {0}

    # 1. one-atom defaults: every element (round-robin over shards), sampled isotopes / ions
    i = 0
    for el in T:
        if el.number < 1:
            continue
        if ctx.mine(i):
            yield 'default', {'key': [el.number, 0, 0], 'count': rng.choice([2, 3, 7, 12])}
            ks = []
            if el.isotopes:
                ks += [(el.number, A, 0) for A in rng.sample(el.isotopes, min(len(el.isotopes), 4 if ctx.thorough() else 2))]
            if el.ions:
                ks += [(el.number, 0, q) for q in rng.sample(el.ions, min(len(el.ions), 2))]
                if el.isotopes:
                    ks.append((el.number, rng.choice(el.isotopes), rng.choice(el.ions)))
            for k in ks:
                yield 'default', {'key': list(k), 'count': rng.choice([2, 3, 7, 12]),
                                  'alias': bool(k[0] == 1 and k[1] in (2, 3) and rng.random() < 0.5)}
        i += 1

    n = ctx.scale(900, 8000)
    nh = ctx.scale(150, 1500)
    hevery = max(1, n // nh)
    for j in range(n):
        if j % hevery == 0:
            yield 'history', _history_case(rng, fg)
        r = rng.random()
        if r < 0.22:
            case, den = _compound(fg, rng)
            case['rho'] = decimal_text(rng, log_uniform(rng, -3, 1.4), maxsig=6)
            yield 'natural', case
        elif r < 0.34:
            mcase = mg.case(mode=rng.choice(['wt', 'vol']))
            mcase['wrap'] = True
            mcase['tree']['tag'] = [decimal_text(rng, log_uniform(rng, -2, 1.4), maxsig=5), rng.choice(['', 'i', 'n', 'n'])]
            mcase['text'] = render_top(mcase)
            mcase['shape'] = mshape(mcase['tree'])
            mcase['tree'] = json.dumps(mcase['tree'], separators=(',', ':'))
            yield 'group_tag', mcase
        elif r < 0.72:
            case, den = _compound(fg, rng)
            keys = sorted(den)
            unknown = rng.random() < 0.12
            present = rng.random() < 0.85
            src = rng.choice(keys) if present else None
            while src is None or (not present and src in den):
                src = _atom_key(rng, T)
            pool = [k for k in keys if k != src]
            tgt = rng.choice(pool) if (pool and rng.random() < 0.3) else None
            while tgt is None or tgt == src:
                tgt = rng.choice([(1, 2, 0), (1, 0, 0), (8, 18, 0), (26, 0, 2), _atom_key(rng, T), _atom_key(rng, T)])
            portion = rng.choice([0, 1, 1, rng.random(), rng.random(), 10 ** rng.uniform(-9, 0), 1 - 10 ** rng.uniform(-9, 0)])
            if unknown and len(keys) == 2 and rng.random() < 0.5:
                # all of one atom replaced by the other one: a single kind of atom is left - and the density, which
                # was unknown, stays unknown (the one-atom default belongs to construction, not to substitution)
                src, tgt = rng.sample(keys, 2)
                present, portion = True, 1
            if unknown:
                default_known = len(den) == 1 and next(iter(den))[0] in _s['known']
                if default_known:
                    unknown = False     # a one-atom formula carries its atom's density from the start (see ASSUMPTIONS)
            case.update({'rho': None if unknown else decimal_text(rng, log_uniform(rng, -3, 1.4)),
                         'source': list(src), 'target': list(tgt), 'portion': portion,
                         'omit_portion': rng.random() < 0.5})
            yield 'replace', case
        elif r < 0.88:
            case, den = _compound(fg, rng, zmax=radius_z)
            style = rng.random()
            if style < 0.1:
                case.update({'pf': None, 'how': 'default'})
            elif style < 0.6:
                case.update({'pf': rng.choice(sorted(PACKING)), 'how': rng.choice(['pos', 'kw'])})
            else:
                numtype = rng.choice(['float', 'float', 'numpy', 'int'])
                pf = 1 if numtype == 'int' else rng.choice([10 ** rng.uniform(-2, 0), rng.uniform(0.2, 0.8), 0.74048, 0.5])
                case.update({'pf': pf, 'how': rng.choice(['pos', 'kw']), 'numtype': numtype})
            yield 'volume', case
        else:
            for _ in range(1000):
                al, be, ga = (rng.uniform(20, 160) for _ in range(3))
                if rng.random() < 0.3:
                    al, be, ga = (rng.choice([60., 90., 90., 120., 45., 109.4712206, x]) for x in (al, be, ga))
                ca, cb, cg = (math.cos(math.radians(x)) for x in (al, be, ga))
                if 1 - ca * ca - cb * cb - cg * cg + 2 * ca * cb * cg >= 0.01:
                    break
            a, b, c = (10 ** rng.uniform(0, 1.7) for _ in range(3))
            if rng.random() < 0.12:
                # "all lattice parameters with a valid cell": very flat cells too - one angle of a few degrees or less
                # with the others at 90, or a rhombohedral cell with three equal small angles
                x = 10 ** rng.uniform(-1.3, 0.9)        # 0.05 .. 8 degrees
                if rng.random() < 0.5:
                    angles = [90., 90., 90.]
                    angles[rng.randrange(3)] = x if rng.random() < 0.7 else 180. - x
                    style = rng.choice(['pos6', 'kw6', 'mixed', 'kw-shuffled'])
                else:
                    angles = [x, x, x]
                    style = rng.choice(['pos6', 'kw6', 'alpha-only'])
                yield 'cell', {'a': a, 'b': b, 'c': c, 'alpha': angles[0], 'beta': angles[1], 'gamma': angles[2],
                               'style': style, 'text': rng.choice(['Fe', 'H2O', 'NaCl']), 'acute': True}
                continue
            yield 'cell', {'a': a, 'b': b, 'c': c, 'alpha': al, 'beta': be, 'gamma': ga,
                           'style': rng.choice(['pos6', 'pos6', 'kw6', 'kw6', 'mixed', 'kw-shuffled', 'a-kw', 'abc-pos', 'ab-pos',
                                                'alpha-only', 'gamma-kw', 'beta-kw', 'beta-gamma-pos']),
                           'text': rng.choice(['Fe', 'H2O', 'Cf2', 'NaCl'])}


def classify(rec):
    d = rec.get('detail') or {}
    case = rec.get('case') or {}
    # public symptoms only (exception type and text are free): replace() on a formula of unknown density raises
    # although the source atom is present, and the same substitution on the same formula with a density works
    if rec.get('check') == 'replace' and d.get('exc_type') and d.get('unknown_density') is True \
            and d.get('source_present') is True and d.get('sibling_ok') is True and case.get('rho') is None:
        return 'c12.replace-unknown-density'
    return None
