"""C17 - the composite SLD calculator equals the direct calculation on the weighted sum.

For a list of materials and a wavelength argument the precomputed calculator
nsf.neutron_composite_sld(materials, wavelength) is applied to several weight
vectors / densities and each result is compared with the direct
nsf.neutron_sld(sum_i w_i*material_i, density=rho, wavelength=...).  The oracle
of the calculator is the direct route (the source marks the calculator as a
duplicate of it); shapes are compared with the shape of the wavelength
argument; the vacuum cases (zero total weight, zero density) by value.
The icontract postconditions on the PRIVATE helpers nsf._sum_piece / nsf._calculate_scattering, the entry
counter on the code behind the returned calculator and the line counters are optional instrumentation: where a
tree does not have them (helper merged, renamed, turned into a class; body re-written) they are skipped, noted
and their reach requirements waived through anchor_missing.*; the differential oracle uses public calls only."""
import json
import math
from fractions import Fraction

from ..statemon import Reach, FPMonitor

RULE = ('one case = one list of 1-6 materials (each 1-4 atoms with neutron data: elements, isotopes, energy-dependent '
        'entries, ions; repeated materials; given as Formula objects built from strings, dicts, nested structures) with '
        'three wavelength arguments (scalar, length-1 vector, length-n vector; float / numpy scalar / int / list / array; in 4 % of the lists the scalar is a 0-d numpy array) '
        'and for each calculator three weight vectors (zeros, ones, 12-decade spread; float or int numpy arrays) with '
        'densities >= 0, including zero total weight and zero density; the first weight vector is applied twice; a quarter '
        'of the float weight vectors carry a common factor 1e-15..1e12 and 12 % of the non-zero densities are 1e-15..1e-3. '
        'One history case = 2-4 material OBJECTS built once and used in 3-5 successive calculators of the process at two '
        'recurring wavelength arguments (the same argument objects; an array is sometimes overwritten in place), where '
        'each later calculator takes materials derived from the live objects by n*f, f+g, f+=g (on the object and on a '
        'copy), formula(f), renaming, assigning a density, change_table; compared with the direct route on the weighted '
        'sum of the model multisets and on the Formula sum of the live objects; earlier calculators are applied again '
        'after the later ones were built. '
        'distinct = distinct (per-material sorted atom keys, repetition pattern, zero pattern of each weight vector, '
        'rho == 0 pattern, wavelength kinds and lengths); every case is non-trivial (each compares computed numbers)')
TECHNIQUE = ('runtime monitoring: differential monitor of two execution routes of the library (precomputed calculator vs '
             'direct calculation on the weighted formula sum) on generated inputs, icontract postcondition on '
             'nsf._sum_piece and nsf._calculate_scattering, sys.monitoring branch-reach counters')
LEVEL_TEXT = ('Random material lists over all atoms with neutron data are evaluated through the composite calculator and '
              'through the direct route for scalar, length-1 and length-n wavelength arguments, and the three SLDs and '
              'the output shapes are compared to 1e-10, also for material objects that were used in earlier calculators '
              'and then scaled, added or extended; only the sampled lists, weights, densities and wavelengths are '
              'covered.'
              ' Added in rounds 4-7: direct route through the package-level alias by energy, integer weights of billions of formula units, refused call forms before the judged call.')
LEVEL_NOTE = ('Trusted: numpy; the direct route neutron_sld is the oracle the property names (its own correctness is C03/C04); '
              'Formula arithmetic is used literally for sum_i w_i*material_i and, on a mismatch, re-derived from the '
              'generator\'s multiset to attribute the failure.')
SHARDS = {'quick': 4, 'thorough': 16}
TIMEOUT = {'quick': 300, 'thorough': 2400}
ASSUMPTIONS = ['weights are numpy arrays (the documented "vector of weights"; a Python list fails on weights[:, None])',
               'integer (int64) weight arrays are generated only while weight x atoms per material, summed over the materials, '
               'stays below 1e18: beyond 2**63 numpy wraps an int64 array silently whatever the library does with it (found by '
               'the thorough tier: weights [10**15, 0] on a material of 9276 atoms); float weights are not capped',
               'materials are non-empty Formula objects; wavelength arguments are Python/numpy scalars, lists or 1-d arrays; a 0-d numpy '
               'array counts as a scalar (the direct route treats it as one): finding c17.zero-dim-wavelength',
               'tolerance 1e-10 relative; incoherent SLD additionally |d| <= 1e-7*(|rho_re|+rho_im) (DESIGN 3.7); real SLD '
               'additionally |d| <= 1e-13*sqrt(re^2+im^2+inc^2) (cancellation of Re b_c between atoms of opposite sign)',
               'vacuum cases are compared by value only (both routes return scalar zeros there)',
               'wavelength 0.05..50 Angstrom, densities 0 or 1e-15..25 g/cm^3, weights 0 or 1e-21..1e18 (proportions 1e-6..1e6 '
               'times a common factor 1e-15..1e12)',
               'what a calculator built earlier returns after one of its material objects was extended in place (f += g), or '
               'after the caller overwrote its wavelength array, is not stated: such calculators are not applied again']

REL = 1e-10
NAMES = ('sld_re', 'sld_im', 'sld_inc')
_state = {}


class ContractBreach(Exception):
    """Raised by an in-process postcondition."""


# --------------------------------------------------------------------------
# in-process contracts
# --------------------------------------------------------------------------
def post_sum_piece(wavelength, compound, result):
    """_sum_piece returns (number of atoms, molar mass, sum n_i b_i, sum n_i sigma_i) of the material,
    with b_c and sigma_s shaped like the wavelength."""
    import numpy as np
    try:
        num_atoms, molar_mass, b_c, sigma_s = result
        atoms = compound.atoms
        n = sum(atoms.values())
        m = compound.mass
        float(num_atoms), float(molar_mass)
    except Exception:           # a private helper may take / return what it likes: not judged
        _state['n']['contract._sum_piece.unrecognised_result'] += 1
        return True
    _state['n']['contract._sum_piece'] += 1
    if abs(num_atoms - n) > 1e-12 * abs(n) or abs(molar_mass - m) > 1e-12 * abs(m):
        _state['breach'] = ('_sum_piece(%s): num_atoms %r (sum of counts %r), molar_mass %r (formula mass %r)'
                            % (compound, num_atoms, n, molar_mass, m))[:600]
        return False
    if atoms and (np.shape(b_c) != np.shape(wavelength) or np.shape(sigma_s) != np.shape(wavelength)):
        _state['breach'] = ('_sum_piece(%s): b_c shape %r, sigma_s shape %r, wavelength shape %r'
                            % (compound, np.shape(b_c), np.shape(sigma_s), np.shape(wavelength)))[:600]
        return False
    return True


def post_nonnegative(number_density, wavelength, b_c, sigma_s, result):
    import numpy as np
    try:
        (sld_re, sld_im, sld_inc), (coh, abs_, inc), pen = result
    except Exception:           # a private helper may return what it likes: not judged
        _state['n']['contract._calculate_scattering.unrecognised_result'] += 1
        return True
    _state['n']['contract._calculate_scattering'] += 1
    try:
        fin = all(bool(np.all(np.isfinite(np.asarray(x, dtype=complex)))) for x in (number_density, wavelength, b_c, sigma_s))
    except Exception:
        fin = False
    if not fin or not np.all(np.asarray(number_density) > 0):
        return True
    if np.any(np.asarray(sigma_s) - 4 * math.pi / 100 * np.abs(np.asarray(b_c)) ** 2 < 0):
        _state['n']['reach.direct_clip_engaged'] += 1
    for name, x in zip(('sld_im', 'sld_inc', 'coh_xs', 'abs_xs', 'inc_xs', 'penetration'), (sld_im, sld_inc, coh, abs_, inc, pen)):
        if not np.all(np.asarray(x, dtype=float) >= 0):
            _state['breach'] = ('%s = %r for number_density=%r wavelength=%r b_c=%r sigma_s=%r'
                                % (name, x, number_density, wavelength, b_c, sigma_s))[:600]
            return False
    return True


def _breach_text(exc):
    lines = [l for l in str(exc).splitlines() if l.strip() and not l.startswith('OLD was')]
    head = ' '.join(lines[1:2] or lines[:1])[:200]
    return '%s [%s]' % (head, _state.pop('breach', 'no values recorded'))


def _sum_piece_adapter(wavelength, compound, _call):
    """Fixed-signature adapters carrying the icontract postconditions of the PRIVATE helpers; _call is the pending
    call of the original with whatever arguments it was given (pvmon.ref.neutron.tolerant)."""
    return _call()


def _calculate_scattering_adapter(number_density, wavelength, b_c, sigma_s, _call):
    return _call()


def attach_contracts(ctx, nsf):
    """icontract postconditions on the private helpers nsf._sum_piece and nsf._calculate_scattering: optional
    instrumentation.  A helper that is absent (merged, renamed, turned into a class) is skipped, noted and its
    reach requirement waived; a call whose arguments cannot be bound to the expected parameter names, or whose
    result has another structure, is passed through un-judged and counted."""
    import icontract
    from collections import Counter
    from ..ref.neutron import private, tolerant
    n = _state['n'] = Counter()
    if getattr(nsf, '_pvmon_c17_contracts', False):
        return
    orig = private(ctx, nsf, '_sum_piece', ['contract._sum_piece'])
    if orig is not None:
        nsf._sum_piece = tolerant(orig, ('wavelength', 'compound'), icontract.ensure(
            post_sum_piece, '_sum_piece == (sum n_i, mass, ...) of the material, shaped like the wavelength',
            error=ContractBreach)(_sum_piece_adapter), n, 'contract._sum_piece')
    orig = private(ctx, nsf, '_calculate_scattering', ['contract._calculate_scattering', 'reach.direct_clip_engaged'])
    if orig is not None:
        nsf._calculate_scattering = tolerant(orig, ('number_density', 'wavelength', 'b_c', 'sigma_s'), icontract.ensure(
            post_nonnegative, 'sld_im, sld_inc, coh, abs, inc, penetration >= 0', error=ContractBreach)(
                _calculate_scattering_adapter), n, 'contract._calculate_scattering')
    nsf._pvmon_c17_contracts = True


def setup(ctx):
    import periodictable as pt
    from periodictable import nsf
    from ..gen import compounds as G
    pt.elements.H.neutron
    _state['uni'] = G.Universe(pt.elements)
    from ..ref.neutron import watch_entry, watch_lines
    attach_contracts(ctx, nsf)
    calc = nsf.neutron_composite_sld([pt.formula('H2O')], wavelength=2.0)     # the calculator, for its code object
    reach = Reach()
    watch_entry(ctx, reach, nsf.neutron_composite_sld, 'neutron_composite_sld', requirements=[])
    # the code behind the returned calculator (a closure on the pinned tree, possibly an object with __call__) and
    # the line anchors inside function bodies are optional instrumentation
    watch_entry(ctx, reach, calc, '_compute')
    sbw = nsf.Neutron.scattering_by_wavelength
    for func, texts, label in ((calc, ('return 0, 0, 0',), 'branch.compute_vacuum'),
                               (calc, ('return sld_re, sld_im, sld_inc', 'sld_inc = ', 'sigma_i = '), 'branch.compute_body'),
                               (sbw, ('return ones*self.b_c_complex', 'if self.nsf_table is None'), 'branch.constant_b_c'),
                               (sbw, ('np.interp(', 'return b_c, sigma_s'), 'branch.energy_table')):
        watch_lines(ctx, reach, func, texts, label)
    try:
        reach.start()
    except Exception as exc:
        ctx.note('sys.monitoring could not be started: %r' % (exc,))
    _state['reach'] = reach
    _state['fpe'] = FPMonitor().start()


# --------------------------------------------------------------------------
# generation
# --------------------------------------------------------------------------
def _log_uniform(rng, lo, hi):
    return 10 ** rng.uniform(math.log10(lo), math.log10(hi))


def _material(rng, G, uni, table, weights=None, items=None):
    if items is None:
        items = G.draw_multiset(rng, uni, 1, 4, weights)
    form = rng.choice(['string', 'string', 'dict', 'struct'])
    m = {'atoms': G.items_text(items), 'form': form}
    if form == 'dict':
        m['items'] = G.items_text(items)
    else:
        tree = G.make_tree(rng, items) if rng.random() < 0.7 else G.flat_tree(items)
        if G.denote(tree) != G.total(items):
            raise AssertionError('generator self-check failed: %r' % (tree,))
        m['tree'] = json.dumps(tree)
        if form == 'string':
            m['text'] = G.render_string(tree, table, rng)
    if rng.random() < 0.3:
        m['density'] = round(_log_uniform(rng, 0.1, 20), 4)      # the calculator must ignore it
    if rng.random() < 0.3:
        # named formulas print their name; a handful of names recur for different compositions
        m['name'] = rng.choice(['solvent', 'sample', 'buffer', 'layer A'])
    return m


def _wl_value(rng):
    if rng.random() < 0.3:
        # a few instrument wavelengths recur across calculators of one process (hostile to any
        # state kept between calculators)
        return rng.choice([1.798, 4.75, 5.0, 6.0, 0.5, 12.0])
    if rng.random() < 0.35:
        return _log_uniform(rng, 0.4, 6.0)      # inside the energy tables
    return _log_uniform(rng, 0.05, 50.0)


def _weights(rng, n, kind):
    if kind == 'zero':
        return [0.0] * n
    if kind == 'ones':
        return [1.0] * n
    if kind == 'ints':
        w = [float(rng.choice([0, 1, 2, 3, 10, 1000])) for _ in range(n)]
    elif kind == 'spread':
        w = [_log_uniform(rng, 1e-6, 1e6) for _ in range(n)]
        if n > 1:
            w[rng.randrange(n)] = 1e-6 * rng.uniform(1, 9)
            w[rng.randrange(n)] = 1e6 * rng.uniform(1, 9)
    else:
        w = [rng.choice([0.0, 1.0, _log_uniform(rng, 1e-6, 1e6), _log_uniform(rng, 1e-2, 1e2)]) for _ in range(n)]
    if kind != 'spread' and n > 1 and rng.random() < 0.4:
        w[rng.randrange(n)] = 0.0
    return w


def _extreme_factor(rng):
    """Common factor of a weight vector: 1e-15 .. 1e12, with the ends over-represented."""
    r = rng.random()
    if r < 0.25:
        return rng.choice([1e-15, 1e-13, 1e-12, 1e-11, 1e-10, 1e-9])
    if r < 0.35:
        return rng.choice([1e9, 1e12])
    return _log_uniform(rng, 1e-15, 1e12)


def _case(ctx, index, G, uni, table):
    rng = ctx.rng
    n = rng.choice([1, 2, 2, 3, 3, 4, 5, 6])
    r = rng.random()
    mats = []
    if r < 0.06:
        # all materials made of one atom whose sigma_s < sigma_c: the incoherent clip engages in both routes
        k = rng.choice(uni.clip)
        for _ in range(n):
            mats.append(_material(rng, G, uni, table, items=[(k, G.draw_count(rng))]))
    elif r < 0.12:
        # one energy-dependent atom only: sigma_s == sigma_c up to rounding
        k = uni.edep[index % len(uni.edep)]
        for _ in range(n):
            mats.append(_material(rng, G, uni, table, items=[(k, G.draw_count(rng))]))
    else:
        for _ in range(n):
            mats.append(_material(rng, G, uni, table))
        if index < 2 * len(uni.edep):
            k = uni.edep[index % len(uni.edep)]
            mats[rng.randrange(n)] = _material(rng, G, uni, table, items=[(k, G.draw_count(rng))]
                                               + G.draw_multiset(rng, uni, 1, 2))
    order = list(range(len(mats)))
    if rng.random() < 0.3:                               # repeated material (the same object twice)
        order.append(rng.randrange(len(mats)))
        if rng.random() < 0.3:
            order.append(order[-1])
        rng.shuffle(order)
        order = order[:6]
    nm = len(order)
    # three wavelength arguments
    nvec = rng.randint(2, 7)
    vec = [_wl_value(rng) for _ in range(nvec)]
    if rng.random() < 0.15:
        vec[rng.randrange(nvec)] = vec[0]
    wargs = [{'kind': rng.choice(['float', 'float', 'np.float64', 'int', 'default']), 'values': [_wl_value(rng)]},
             {'kind': rng.choice(['list', 'array']), 'values': [_wl_value(rng)]},
             {'kind': rng.choice(['list', 'array']), 'values': vec}]
    if rng.random() < 0.04:
        wargs[0]['kind'] = 'zero_dim'          # numpy 0-d array: a scalar by shape (known finding, bounded minority)
    if wargs[0]['kind'] == 'int':
        wargs[0]['values'] = [float(rng.randint(1, 30))]
    if wargs[0]['kind'] == 'default':
        wargs[0]['values'] = []
    for w in wargs:
        apps = []
        kinds = [rng.choice(['mixed', 'mixed', 'spread', 'ones', 'ints']), rng.choice(['mixed', 'spread']),
                 rng.choice(['zero', 'mixed', 'mixed', 'spread', 'spread'])]
        for j, kind in enumerate(kinds):
            rho = _log_uniform(rng, 1e-3, 25.0)
            if rng.random() < 0.06:
                rho = rng.choice([1, 2, 5])
            if (j == 2 and kind != 'zero' and rng.random() < 0.25) or rng.random() < 0.03:
                rho = rng.choice([0.0, 0.0, 0])
            wts = _weights(rng, nm, kind)
            if kind == 'ints' and rng.random() < 0.35:
                # whole-number amounts of a large sample (an integer weight array): billions of formula units, so that
                # the cell holds far more than 2**31.5 atoms - integer arithmetic inside the calculator must not wrap
                # ... while every product the calculator can form (weight x atoms of a material, summed) stays far
                # inside int64: beyond 2**63 an int64 weight array wraps in numpy itself, which is the caller's
                # choice of dtype, not the library's arithmetic (see ASSUMPTIONS)
                atoms_tot = sum(float(Fraction(a[3])) for m_ in mats for a in m_['atoms'])
                cands = [f for f in (10 ** 6, 10 ** 8, 3 * 10 ** 9, 10 ** 10, 10 ** 12)
                         if max(wts) * f * max(atoms_tot, 1.0) * len(mats) < 1e18]
                if cands:
                    f = rng.choice(cands)
                    wts = [x * f for x in wts]
            if kind != 'ints' and rng.random() < 0.25:
                # the same proportions as absolute amounts of a very small / very large sample: only an exactly
                # zero total weight is a vacuum
                f = _extreme_factor(rng)
                wts = [x * f for x in wts]
            if rho != 0 and rng.random() < 0.12:
                rho = _log_uniform(rng, 1e-15, 1e-3)       # residual gas: tiny, not zero
            apps.append({'weights': wts, 'dtype': 'int' if kind == 'ints' else 'float',
                         'density': rho, 'density_positional': rng.random() < 0.2})
        w['apps'] = apps
    return {'index': index, 'materials': mats, 'order': order, 'wavelengths': wargs}


RECURRING = [1.798, 4.75, 5.0, 6.0, 0.5, 12.0]
SCALARS = ['2', '3', '50', '0.5', '1000', '0.001', '2.5', '7', '1', '12']
HISTORY_OPS = ('mul', 'add', 'iadd', 'iadd_copy', 'formula', 'ref', 'rename', 'redensity', 'change_table')


def _history_case(ctx, index, G, uni, table):
    """Material OBJECTS that live through several calculators of one process: built once, used in a calculator,
    then scaled / added / extended in place / copied, and used again at the same wavelength."""
    rng = ctx.rng
    nb = rng.choice([2, 2, 3, 3, 4])
    mats = [_material(rng, G, uni, table) for _ in range(nb)]
    if rng.random() < 0.35:
        k = uni.edep[index % len(uni.edep)]
        mats[rng.randrange(nb)] = _material(rng, G, uni, table, items=[(k, G.draw_count(rng))]
                                            + G.draw_multiset(rng, uni, 1, 2))
    wargs = []
    for _ in range(2):                       # every stage uses one of two wavelength arguments, so both recur
        kind = rng.choice(['float', 'float', 'np.float64', 'list', 'array', 'array', 'default'])
        n = 1 if kind in ('float', 'np.float64', 'default') else rng.choice([1, 2, 3, 5])
        vals = [rng.choice(RECURRING) if rng.random() < 0.7 else _wl_value(rng) for _ in range(n)]
        wargs.append({'kind': kind, 'values': [] if kind == 'default' else vals})
    pool = nb
    first = list(range(nb))
    rng.shuffle(first)
    stages = [{'entries': [['ref', i] for i in first]}]
    for _ in range(rng.choice([2, 3, 3, 4])):
        entries = []
        for _e in range(rng.randint(2, 4)):
            op = rng.choice(['mul', 'mul', 'mul', 'add', 'iadd', 'iadd', 'iadd_copy', 'formula', 'ref', 'ref',
                             'rename', 'redensity', 'change_table'])
            i = rng.randrange(pool)
            if op == 'mul':
                entries.append([op, rng.choice(SCALARS), i])
                pool += 1
            elif op in ('add', 'iadd_copy'):
                entries.append([op, i, rng.randrange(pool)])
                pool += 1
            elif op == 'iadd':
                entries.append([op, i, rng.randrange(pool)])
            elif op == 'formula':
                entries.append([op, i])
                pool += 1
            elif op == 'rename':
                entries.append([op, i, rng.choice(['solvent', 'sample', 'buffer', 'layer A', ''])])
            elif op == 'redensity':
                entries.append([op, i, round(_log_uniform(rng, 0.1, 20), 4)])
            else:
                entries.append([op, i])
        stages.append({'entries': entries})
    for st in stages:
        ne = len(st['entries'])
        wts = _weights(rng, ne, rng.choice(['ones', 'spread', 'mixed', 'mixed']))
        if sum(wts) == 0:
            wts[rng.randrange(ne)] = 1.0
        if rng.random() < 0.15:
            f = _extreme_factor(rng)
            wts = [x * f for x in wts]
        st['weights'] = wts
        st['density'] = _log_uniform(rng, 1e-3, 25.0)
        st['wl'] = 0 if rng.random() < 0.7 else 1
        w = wargs[st['wl']]
        if w['kind'] == 'array' and rng.random() < 0.15:
            # the caller overwrites his wavelength array in place before building the next calculator
            st['wl_set'] = [rng.choice(RECURRING) for _ in w['values']]
    return {'index': index, 'materials': mats, 'wavelengths': wargs, 'stages': stages}


def generate(ctx):
    import periodictable as pt
    from ..gen import compounds as G
    uni = _state['uni']
    n = ctx.scale(1000, 3000)
    for j in range(n):
        index = j * ctx.nshards + ctx.shard
        yield 'composite', _case(ctx, index, G, uni, pt.elements)
    for j in range(ctx.scale(150, 500)):
        index = j * ctx.nshards + ctx.shard
        yield 'history', _history_case(ctx, index, G, uni, pt.elements)


# --------------------------------------------------------------------------
# evaluation
# --------------------------------------------------------------------------
def _build_material(m):
    import periodictable as pt
    from ..gen import compounds as G
    uni = _state['uni']
    kw = {}
    if 'density' in m:
        kw['density'] = m['density']
    if 'name' in m:
        kw['name'] = m['name']
    if m['form'] == 'string':
        return pt.formula(m['text'], **kw)
    if m['form'] == 'dict':
        return pt.formula(G.build_dict(m['items'], uni), **kw)
    return pt.formula(G.build_structure(json.loads(m['tree']), uni), **kw)


def _wl_arg(w):
    import numpy as np
    kind, vals = w['kind'], w['values']
    if kind == 'default':
        return None
    if kind == 'float':
        return float(vals[0])
    if kind == 'np.float64':
        return np.float64(vals[0])
    if kind == 'int':
        return int(vals[0])
    if kind == 'zero_dim':
        return np.array(float(vals[0]))
    if kind == 'list':
        return [float(v) for v in vals]
    return np.array(vals, dtype=float)


def _as3(violation, what, res):
    try:
        a, b, c = res
    except Exception:
        violation('%s: result is not a triple: %r' % (what, res), symptom='structure', route=what)
        return None
    if a is None or b is None or c is None:
        violation('%s: result contains None although every atom has neutron data' % what, symptom='none', route=what)
        return None
    return (a, b, c)


def _model_dict(case, weights):
    """sum_i w_i * multiset_i as {atom: float count}, from the generator's multisets (no Formula arithmetic)."""
    from fractions import Fraction
    uni = _state['uni']
    d = {}
    for idx, w in zip(case['order'], weights):
        for Z, A, q, c in case['materials'][idx]['atoms']:
            a = uni.atom((Z, A, q))
            d[a] = d.get(a, 0.0) + float(w) * float(Fraction(c))
    return d


class _Sink(object):
    """Stands in for ctx during a sibling probe: swallows counters, collects violation messages."""

    def __init__(self):
        self.msgs = []

    def violation(self, msg, **detail):
        self.msgs.append(msg)

    def evaluated(self, *a, **k):
        pass

    count = observe = evaluated


def check_composite(ctx, case):
    uni = _state['uni']
    built = [_build_material(m) for m in case['materials']]
    mats = [built[i] for i in case['order']]
    keysets = []
    for m in case['materials']:
        ks = tuple(sorted({(Z, A, q) for Z, A, q, _ in m['atoms']}))
        keysets.append(ks)
        for k in ks:
            if uni.is_edep(k):
                ctx.count('seen.edep.%d-%d' % (k[0], k[1]))
            if k[2]:
                ctx.count('seen.ion_atoms')
    if len(set(case['order'])) < len(case['order']):
        ctx.count('lists_with_repeated_material')
    ctx.count('lists')
    ctx.count('materials.n%d' % len(mats))
    sig = [tuple(keysets[i] for i in case['order']), tuple(case['order'])]
    for w in case['wavelengths']:
        extra = {'wl_kind': w['kind'], 'wl_len': len(w['values'])}
        if w['kind'] == 'zero_dim':
            # sibling for the classifier: the same block with the wavelength as a Python float
            sink = _Sink()
            try:
                _run_block(sink, case, mats, dict(w, kind='float'), [], {})
            except ContractBreach as exc:
                sink.msgs.append(str(exc))
            extra['sibling_scalar_ok'] = not sink.msgs
        try:
            _run_block(ctx, case, mats, w, sig, extra)
        except ContractBreach as exc:
            ctx.violation('in-process postcondition failed: %s' % _breach_text(exc), symptom='contract', **extra)
    ctx.distinct_case(tuple(sig))


def _run_block(ctx, case, mats, w, sig, extra):
    """One wavelength argument: build the calculator, apply it to every (weights, density) and compare
    each application with the direct route."""
    import numpy as np
    import periodictable as pt
    from periodictable import nsf

    def violation(msg, **detail):
        detail.update(extra)
        ctx.violation(msg, **detail)

    if True:
        wl = _wl_arg(w)
        shape = np.shape(wl) if wl is not None else ()
        label = 'wavelength(%s, n=%d)' % (w['kind'], len(w['values']))
        snapshot = None if wl is None else np.array(wl, copy=True)
        try:
            calc = nsf.neutron_composite_sld(mats) if wl is None else nsf.neutron_composite_sld(mats, wavelength=wl)
        except ContractBreach as exc:
            violation('%s: postcondition failed while building the calculator: %s' % (label, _breach_text(exc)),
                      symptom='contract', route='composite')
            return
        ctx.count('calculators')
        ctx.count('wl_kind.%s.n%d' % (w['kind'], len(w['values'])))
        apps = list(w['apps']) + [w['apps'][0]]               # the first application is repeated at the end
        first = None
        for j, app in enumerate(apps):
            wts = np.array(app['weights'], dtype=float)
            if app['dtype'] == 'int':
                wts = wts.astype(int)
            rho = app['density']
            wts_before = wts.copy()
            what = '%s weights=%r density=%r' % (label, app['weights'], rho)
            # a request the calculator may refuse first (weights as a plain list, a weight vector of the wrong length,
            # a keyword it does not know), caught by the caller: the judged call that follows is a new request
            if j == 1:
                for bad in (lambda: calc(wts[:-1] if len(wts) > 1 else np.array([1.0, 2.0]), density=rho),
                            lambda: calc(wts, density=rho, volume_fraction=0.5),
                            # (last: the very weights of the judged call, in a container the calculator may refuse)
                            lambda: calc([float(x) for x in app['weights']], density=rho)):
                    try:
                        bad()
                        ctx.count('refused_call.answered')
                    except Exception:
                        ctx.count('refused_call.refused')
            # composite route
            try:
                got = calc(wts, rho) if app['density_positional'] else calc(wts, density=rho)
            except ContractBreach as exc:
                violation('%s: postcondition failed in the calculator: %s' % (what, _breach_text(exc)),
                          symptom='contract', route='composite')
                continue
            if not np.array_equal(wts, wts_before):
                violation('%s: the calculator modified the weight vector' % what, symptom='mutated-argument')
            # direct route: sum_i w_i * material_i by Formula arithmetic, as the property writes it
            tot = pt.formula()
            for wi, m in zip(app['weights'], mats):
                tot = tot + (int(wi) if app['dtype'] == 'int' else float(wi)) * m
            kw = {} if wl is None else {'wavelength': wl}
            try:
                want = nsf.neutron_sld(tot, density=rho, **kw)
            except ContractBreach as exc:
                violation('%s: postcondition failed in the direct route: %s' % (what, _breach_text(exc)),
                          symptom='contract', route='direct')
                continue
            ctx.count('applications')
            got = _as3(violation, what + ' [composite]', got)
            want = _as3(violation, what + ' [direct]', want)
            if got is None or want is None:
                continue
            if wl is not None and j == 0:
                # the direct SLD is the same number through the package-level periodictable.neutron_sld and when the
                # beam is given as energy= (the calculator itself only takes wavelengths)
                try:
                    alt = pt.neutron_sld(tot, density=rho, energy=nsf.neutron_energy(wl))
                    a = np.array([np.broadcast_to(np.asarray(v, dtype=float), np.shape(wl)).reshape(-1) for v in alt])
                    b = np.array([np.broadcast_to(np.asarray(v, dtype=float), np.shape(wl)).reshape(-1) for v in want])
                except Exception as exc:
                    a = b = None
                    violation('%s: periodictable.neutron_sld(<sum formula>, density=%r, energy=neutron_energy(wavelength)) '
                              'raised %s: %s' % (what, rho, type(exc).__name__, exc), symptom='direct-route-alias',
                              route='direct')
                if a is not None:
                    ctx.evaluated(3, 'direct_route_alias')
                    ctx.count('direct_route_alias')
                    scale = np.sqrt((b ** 2).sum(axis=0))
                    floor = np.array([1e-12 * scale, 1e-12 * scale, 1e-7 * (np.abs(b[0]) + np.abs(b[1]))])
                    # (the incoherent SLD is the root of a clipped difference of cross sections: where it cancels,
                    # the ulp that wavelength -> energy -> wavelength moves the beam shows at 1e-7 of the SLD scale)
                    if a.shape != b.shape or not np.all(np.abs(a - b) <= 1e-9 * np.abs(b) + floor):
                        violation('%s: the direct SLD differs between nsf.neutron_sld(wavelength=) %r and '
                                  'periodictable.neutron_sld(energy=) %r' % (what, b.tolist(), a.tolist()),
                                  symptom='direct-route-alias', route='direct')
            vacuum = (sum(app['weights']) == 0) or (rho == 0)
            sig.append((w['kind'], len(w['values']), tuple(x == 0 for x in app['weights']), rho == 0, app['dtype']))
            _count_extremes(ctx, app['weights'], rho)
            if vacuum:
                ctx.count('vacuum.zero_weight' if sum(app['weights']) == 0 else 'vacuum.zero_density')
                ctx.evaluated(2, 'vacuum')
                for route, val in (('composite', got), ('direct', want)):
                    if not all(np.all(np.asarray(x, dtype=float) == 0) for x in val):
                        violation('%s: %s route does not return zeros for the vacuum case: %r' % (what, route, val),
                                  symptom='vacuum', route=route)
                continue
            # shapes: every output of the calculator is shaped like the wavelength argument
            ctx.evaluated(what='shape')
            shapes = [np.shape(x) for x in got]
            if any(s != shape for s in shapes):
                violation('%s: calculator output shapes %r, wavelength argument has shape %r' % (what, shapes, shape),
                          symptom='shape', route='composite', shapes=[list(s) for s in shapes],
                          calculator_values=[np.asarray(v, dtype=float).reshape(-1).tolist()[:8] for v in got],
                          direct_values=[np.asarray(v, dtype=float).reshape(-1).tolist()[:8] for v in want])
                continue
            g = np.array([np.asarray(x, dtype=float).reshape(-1) for x in got])
            try:
                # the direct route only has to be comparable entry by entry (its own shape is C04's subject)
                x = np.array([np.broadcast_to(np.asarray(v, dtype=float).reshape(-1), g.shape[1:]) for v in want])
            except ValueError:
                violation('%s: direct route output shapes %r cannot be compared with wavelength shape %r'
                          % (what, [np.shape(v) for v in want], shape), symptom='shape', route='direct')
                continue
            ok = _compare(ctx, violation, what, g, x, case, app, wl, rho)
            if j == 0:
                first = g
            elif j == len(apps) - 1 and first is not None and ok:
                ctx.evaluated(what='reapplication')
                if not np.array_equal(first, g, equal_nan=True):
                    violation('%s: the same calculator gives a different result when applied again: %r then %r'
                              % (what, first.tolist(), g.tolist()), symptom='stateful', route='composite')
            if np.any(x[2] == 0) or np.any(g[2] == 0):
                ctx.count('reach.incoherent_exactly_zero')
        if snapshot is not None and not np.array_equal(snapshot, np.asarray(wl)):
            violation('%s: the wavelength argument was modified' % label, symptom='mutated-argument')


def _count_extremes(ctx, weights, rho):
    top = max(weights)
    if top >= 3e9 and all(float(x).is_integer() for x in weights):
        ctx.count('extreme.integer_weights_above_3e9')
    if 0 < top < 1e-8:
        ctx.count('extreme.all_weights_below_1e-8')
    if top > 1e9:
        ctx.count('extreme.weights_above_1e9')
    if 0 < rho < 1e-8:
        ctx.count('extreme.density_below_1e-8')


def _attribute(case, app, wl, rho, x, j):
    import numpy as np
    from periodictable import nsf
    diag = {}
    try:
        kw = {} if wl is None else {'wavelength': wl}
        alt = nsf.neutron_sld(_model_dict(case, app['weights']), density=rho, **kw)
        a = np.array([np.asarray(v, dtype=float).reshape(-1) for v in alt])
        diag['direct_via_multiset_dict'] = a[:, j].tolist()
        diag['formula_arithmetic_agrees_with_multiset'] = bool(np.allclose(a, x, rtol=1e-9, atol=0))
    except Exception as exc:
        diag['direct_via_multiset_dict'] = 'raised %s: %s' % (type(exc).__name__, exc)
    return diag


def _compare(ctx, violation, what, g, x, case, app, wl, rho):
    import numpy as np
    ctx.evaluated(3, 'value')
    with np.errstate(all='ignore'):
        scale = np.abs(x[0]) + np.abs(x[1])
        floor = np.zeros_like(x)
        floor[0] = 1e-13 * np.sqrt(x[0] ** 2 + x[1] ** 2 + x[2] ** 2)
        floor[2] = 1e-7 * scale
        diff = np.abs(g - x)
        mag = np.maximum(np.abs(g), np.abs(x))
        ok = (diff <= REL * mag) | (diff <= floor) | (g == x)
        relerr = np.where((diff <= floor) | (mag == 0), 0.0, diff / np.where(mag == 0, 1, mag))
        incabs = np.max(diff[2] / np.where(scale == 0, 1, scale)) if scale.size else 0.0
    relerr = np.where(np.isnan(relerr), np.inf, relerr)
    ctx.observe('relerr.composite_vs_direct', float(np.max(relerr)))
    ctx.observe('sld_inc.abs_diff_over_scale', float(incabs))
    if np.any(np.isnan(g)) or np.any(np.isnan(x)):
        ctx.count('nan_results')
    if np.all(ok):
        return True
    i, j = [int(v[0]) for v in np.nonzero(~ok)]
    # attribution: the same sum from the generator's multisets, without Formula arithmetic
    if case is None:
        diag = dict(app)                      # history stages bring their own attribution
    else:
        diag = _attribute(case, app, wl, rho, x, j)
    violation('%s: %s differs: calculator %r, direct %r (rel. error %.3g; wavelength entry %d)'
              % (what, NAMES[i], float(g[i, j]), float(x[i, j]), float(relerr[i, j]), j),
              symptom='value', route='composite', output=NAMES[i], got=g[:, j].tolist(), want=x[:, j].tolist(), **diag)
    return False


# --------------------------------------------------------------------------
# material objects reused across calculators, with Formula arithmetic in between
# --------------------------------------------------------------------------
def _entry_text(e):
    op = e[0]
    if op == 'mul':
        return '%s*m%d' % (e[1], e[2])
    if op == 'add':
        return 'm%d+m%d' % (e[1], e[2])
    if op == 'iadd':
        return '(m%d+=m%d)' % (e[1], e[2])
    if op == 'iadd_copy':
        return '(copy(m%d)+=m%d)' % (e[1], e[2])
    if op == 'formula':
        return 'formula(m%d)' % e[1]
    if op == 'ref':
        return 'm%d' % e[1]
    if op == 'rename':
        return '(m%d.name=%r)' % (e[1], e[2])
    if op == 'redensity':
        return '(m%d.density=%r)' % (e[1], e[2])
    return 'm%d.change_table(elements)' % e[1]


def _apply_entry(e, objs, models, inplace):
    """Evaluate one derivation on the pool of live objects (and on the pool of model multisets); returns the
    pool index of the material it denotes.  *inplace* collects the indices whose composition changed in place."""
    import copy as copymod
    from fractions import Fraction
    import periodictable as pt
    op = e[0]
    if op == 'mul':
        f = Fraction(e[1])
        n = int(f) if f.denominator == 1 else float(e[1])
        objs.append(n * objs[e[2]])
        models.append({k: c * f for k, c in models[e[2]].items()})
        return len(objs) - 1
    if op in ('add', 'iadd', 'iadd_copy'):
        i, j = e[1], e[2]
        merged = dict(models[i])
        for k, c in models[j].items():
            merged[k] = merged.get(k, 0) + c
        if op == 'add':
            objs.append(objs[i] + objs[j])
        elif op == 'iadd_copy':
            c = copymod.copy(objs[i])
            c += objs[j]
            objs.append(c)
        else:
            objs[i] += objs[j]
            models[i] = merged
            inplace.add(i)
            return i
        models.append(merged)
        return len(objs) - 1
    if op == 'formula':
        objs.append(pt.formula(objs[e[1]]))
        models.append(dict(models[e[1]]))
        return len(objs) - 1
    if op == 'rename':
        objs[e[1]].name = e[2] or None
    elif op == 'redensity':
        objs[e[1]].density = e[2]
    elif op == 'change_table':
        objs[e[1]].change_table(pt.elements)
    return e[1]


def _model_sum(models, idx, weights):
    uni = _state['uni']
    d = {}
    for i, w in zip(idx, weights):
        for k, c in models[i].items():
            a = uni.atom(k)
            d[a] = d.get(a, 0.0) + float(w) * float(c)
    return d


def check_history(ctx, case):
    import numpy as np
    import periodictable as pt
    from periodictable import nsf
    from ..gen import compounds as G
    objs = [_build_material(m) for m in case['materials']]
    models = [G.total(G.items_from_text(m['atoms'])) for m in case['materials']]
    wls = [_wl_arg(w) for w in case['wavelengths']]          # the same argument objects go to every calculator
    wl_want = [None if w is None else np.array(w, copy=True) for w in wls]
    ctx.count('history.cases')
    calcs = []
    sig = [tuple(tuple(sorted(m)) for m in models), tuple((w['kind'], len(w['values'])) for w in case['wavelengths'])]

    for s, st in enumerate(case['stages']):
        inplace = set()
        expr = ', '.join(_entry_text(e) for e in st['entries'])
        extra = {'stage': s, 'ops': sorted({e[0] for e in st['entries']}), 'expr': expr}

        def violation(msg, **detail):
            detail.update(extra)
            ctx.violation(msg, **detail)

        idx = [_apply_entry(e, objs, models, inplace) for e in st['entries']]
        for e in st['entries']:
            ctx.count('history.op.' + e[0])
            if s and e[0] in ('mul', 'add', 'iadd', 'iadd_copy', 'formula'):
                ctx.count('history.derived_from_used_object')
        for c in calcs:                      # what an older calculator owes for a material changed in place is not stated
            if inplace & c['used']:
                c['ambiguous'] = True
        k = st['wl']
        wl = wls[k]
        if 'wl_set' in st:
            wl[...] = st['wl_set']
            wl_want[k] = np.array(st['wl_set'], dtype=float)
            ctx.count('history.wavelength_array_overwritten')
        shape = np.shape(wl) if wl is not None else ()
        kw = {} if wl is None else {'wavelength': wl}
        wts = np.array(st['weights'], dtype=float)
        rho = st['density']
        what = ('history stage %d [%s] wavelength=%r weights=%r density=%r'
                % (s, expr, None if wl is None else np.asarray(wl).tolist(), st['weights'], rho))
        sig.append((tuple(e[0] for e in st['entries']), k, tuple(x == 0 for x in st['weights'])))
        mats = [objs[i] for i in idx]
        try:
            calc = nsf.neutron_composite_sld(mats, **kw)
            got = calc(wts, density=rho)
        except ContractBreach as exc:
            violation('%s: postcondition failed in the calculator: %s' % (what, _breach_text(exc)),
                      symptom='contract', route='composite')
            continue
        ctx.count('history.stages')
        ctx.count('calculators')
        ctx.count('applications')
        _count_extremes(ctx, st['weights'], rho)
        # oracle: the direct route on the weighted sum of the MODEL multisets (never on the live objects)
        try:
            want = nsf.neutron_sld(_model_sum(models, idx, st['weights']), density=rho, **kw)
        except ContractBreach as exc:
            violation('%s: postcondition failed in the direct route: %s' % (what, _breach_text(exc)),
                      symptom='contract', route='direct')
            continue
        got = _as3(violation, what + ' [composite]', got)
        want = _as3(violation, what + ' [direct]', want)
        if got is None or want is None:
            continue
        ctx.evaluated(what='shape')
        shapes = [np.shape(x) for x in got]
        if any(sh != shape for sh in shapes):
            violation('%s: calculator output shapes %r, wavelength argument has shape %r' % (what, shapes, shape),
                      symptom='shape', route='composite')
            continue
        g = np.array([np.asarray(x, dtype=float).reshape(-1) for x in got])
        try:
            x = np.array([np.broadcast_to(np.asarray(v, dtype=float).reshape(-1), g.shape[1:]) for v in want])
        except ValueError:
            violation('%s: direct route output shapes %r cannot be compared with wavelength shape %r'
                      % (what, [np.shape(v) for v in want], shape), symptom='shape', route='direct')
            continue
        ok = _compare(ctx, violation, what, g, x, None, {'oracle': 'model multisets'}, wl, rho)
        if ok:
            # the property's own wording: sum_i w_i*material_i by Formula arithmetic on the live objects
            tot = pt.formula()
            for wi, m in zip(st['weights'], mats):
                tot = tot + float(wi) * m
            try:
                lit = nsf.neutron_sld(tot, density=rho, **kw)
                y = np.array([np.broadcast_to(np.asarray(v, dtype=float).reshape(-1), g.shape[1:]) for v in lit])
            except ContractBreach as exc:
                violation('%s: postcondition failed in the direct route: %s' % (what, _breach_text(exc)),
                          symptom='contract', route='direct')
                continue
            except (ValueError, TypeError):
                violation('%s: direct route on the Formula sum returns %r' % (what, lit), symptom='shape', route='direct')
                continue
            ok = _compare(ctx, violation, what + ' [Formula sum of the live objects]', g, y, None,
                          {'oracle': 'formula arithmetic', 'model_values': x[:, 0].tolist()}, wl, rho)
        calcs.append({'calc': calc, 'wts': wts, 'rho': rho, 'first': g if ok else None, 'used': set(idx),
                      'ambiguous': False, 'what': what, 'k': k, 'wl_at_build': None if wl is None else np.array(wl, copy=True)})

    # interleaving: every calculator built earlier still answers as it did (calculators do not share state)
    for c in calcs:
        if c['first'] is None or c['ambiguous']:
            continue
        if c['wl_at_build'] is not None and not np.array_equal(c['wl_at_build'], np.asarray(wls[c['k']])):
            continue                          # the caller overwrote the wavelength array since: not stated either
        ctx.evaluated(what='reapplication')
        ctx.count('history.reapplied_after_later_calculators')
        try:
            again = c['calc'](c['wts'], density=c['rho'])
            g = np.array([np.asarray(x, dtype=float).reshape(-1) for x in again])
        except ContractBreach as exc:
            ctx.violation('%s: postcondition failed when the calculator is applied again: %s' % (c['what'], _breach_text(exc)),
                          symptom='contract', route='composite')
            continue
        if g.shape != c['first'].shape or not np.array_equal(c['first'], g, equal_nan=True):
            ctx.violation('%s: the calculator gives a different result after other calculators were built: %r then %r'
                          % (c['what'], c['first'].tolist(), g.tolist()), symptom='stateful', route='composite')
    for k, wl in enumerate(wls):
        if wl is not None and not np.array_equal(wl_want[k], np.asarray(wl)):
            ctx.violation('history: the wavelength argument %r was modified (now %r)'
                          % (wl_want[k].tolist(), np.asarray(wl).tolist()), symptom='mutated-argument')
    ctx.distinct_case(tuple(sig))


CHECKS = {'composite': check_composite, 'history': check_history}


def finish(ctx):
    reach = _state.get('reach')
    if reach is not None:
        reach.stop()
        reach.export(ctx)
    fpe = _state.get('fpe')
    if fpe is not None:
        fpe.stop()
        fpe.export(ctx)
    for k, v in _state['n'].items():
        ctx.count(k, v)
    uni = _state['uni']
    ctx.info['universe'] = {k: len(v) for k, v in uni.classes.items()}
    # optional instrumentation of private helpers: evidence only when a tree does not have / use / show them
    from ..ref.neutron import anchor_missing, waive_if_bypassed
    n = _state['n']
    for name, extra in (('contract._sum_piece', []), ('contract._calculate_scattering', ['reach.direct_clip_engaged'])):
        unread = n.get(name + '.unrecognised_call', 0) + n.get(name + '.unrecognised_result', 0)
        if unread and not n.get(name, 0):
            anchor_missing(ctx, 'postcondition %s' % name, [name] + extra,
                           why='met %d calls whose arguments or result it does not recognise and none it does' % unread)
        elif waive_if_bypassed(ctx, name, 'applications', 'postcondition %s' % name) and extra:
            anchor_missing(ctx, 'clip counter of that postcondition', extra, why='goes with it')
    for label in ('_compute', 'branch.compute_vacuum', 'branch.compute_body', 'branch.energy_table', 'branch.constant_b_c'):
        # the anchor exists but the calculators of this tree do not run through it: evidence only
        waive_if_bypassed(ctx, 'reach.' + label, 'applications', 'entry / line counter %s' % label)
    ctx.require('contract._sum_piece', 1, 'the postcondition on _sum_piece must have been evaluated')
    ctx.require('contract._calculate_scattering', 1, 'the direct route must have gone through _calculate_scattering')
    ctx.require('reach._compute', 1, 'the calculator closure was never entered')
    ctx.require('applications', 1, 'no calculator was applied and compared with the direct route (public-level counterpart of reach._compute)')
    for label, why in (('branch.compute_vacuum', 'vacuum branch of the calculator never taken'),
                       ('branch.compute_body', 'non-vacuum branch of the calculator never taken'),
                       ('branch.energy_table', 'energy-table branch of scattering_by_wavelength never entered'),
                       ('branch.constant_b_c', 'constant-b_c branch of scattering_by_wavelength never entered')):
        ctx.require('reach.' + label, 1, why)      # waived by anchor_missing.* when the line anchor is not in this tree
    ctx.require('eval.value', 1, 'no non-vacuum comparison of the calculator with the direct route')
    ctx.require('reach.direct_clip_engaged', 1, 'no case with sigma_s < sigma_c: the incoherent clip never engaged')
    ctx.require('reach.incoherent_exactly_zero', 1, 'no case where the clipped incoherent SLD is exactly zero')
    ctx.require('vacuum.zero_weight', 1, 'no zero-total-weight case')
    ctx.require('vacuum.zero_density', 1, 'no zero-density case')
    ctx.require('lists_with_repeated_material', 1, 'no list with a repeated material')
    for Z, A, _ in uni.edep:
        ctx.require('seen.edep.%d-%d' % (Z, A), 1, 'energy-dependent entry never used')
    ctx.require('lists', 3000 if not ctx.thorough() else 40000, 'fewer material lists than the floor of the tier')
    ctx.require('extreme.all_weights_below_1e-8', 20, 'no weight vector of tiny absolute amounts')
    ctx.require('extreme.weights_above_1e9', 20, 'no weight vector of huge absolute amounts')
    ctx.require('extreme.integer_weights_above_3e9', 1, 'no integer weight vector of billions of formula units')
    ctx.require('extreme.density_below_1e-8', 20, 'no tiny non-zero density')
    ctx.require('history.stages', 1000, 'too few calculators built from reused material objects')
    ctx.require('history.derived_from_used_object', 500, 'too few materials derived from objects already used in a calculator')
    for op in HISTORY_OPS:
        ctx.require('history.op.' + op, 20, 'derivation %s never exercised on a reused material object' % op)
    ctx.require('history.reapplied_after_later_calculators', 100, 'no calculator applied again after later ones were built')


def classify(rec):
    d = rec.get('detail') or {}
    # the calculator takes a 0-d numpy array for a vector (np.isscalar is False) and applies weights[:, None]
    # to per-material scalars; same mechanism only: wavelength passed as 0-d array, shape symptom in the
    # calculator route, and the sibling case with the same wavelength as a Python float passes.
    if (d.get('wl_kind') == 'zero_dim' and d.get('route') == 'composite' and d.get('symptom') == 'shape'
            and d.get('sibling_scalar_ok') is True):
        return 'c17.zero-dim-wavelength'
    return None
