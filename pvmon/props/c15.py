"""C15 - Sample.decay_time returns the time at which the total activity reaches the target.

Oracle: the activities at removal A_i(0) are taken from an independent
calculation of the same sample with rest_times=[0]; the half-lives T_i from the
independent reader of activation.dat; the returned time t is judged against
sum_i A_i(0) * 2**(-t/T_i) with the 0.1 % band the property states.  The same
request is repeated with other rest-time lists, which must not change the
answer.  A postcondition wrapper on Sample.decay_time, a counting wrapper on
find_root and sys.monitoring line counters observe the mechanism in process."""
import math
import traceback

from ..statemon import Reach

RULE = ('one case per (sample composition, mass, environment, exposure, rest-time list, target); the sample is '
        'activated twice (rest_times=[0] for the oracle, the case\'s list for the call under test); in a fifth of '
        'the cases the judged Sample object carried an earlier, different calculation (other fluence / exposure / '
        'rest times / mass, other or edited-in-place environment) and answered decay_time for the judged level '
        'before; distinct = '
        'distinct (sorted atoms, rest-time list, decade of target/A(0), outcome class) with at least one activated '
        'product; non-trivial = the sample has activity and the target is a positive finite number')
EXHAUSTIVE = False
SUITE_UNDER_CONTRACTS = True   # thorough tier: the repository's tests run with the decay_time postcondition attached
TECHNIQUE = ('runtime monitoring: reference-model monitor (independently recomputed sum of decaying activities with '
             'half-lives from an independent reader), metamorphic relation over rest-time lists, in-process '
             'postcondition on Sample.decay_time, counting wrapper on find_root, sys.monitoring line counters')
LEVEL_TEXT = ('Random activated samples (1-3 atoms, masses, environments and exposures over the quantified ranges) are '
              'solved for targets from 1e-9 to 10 times the activity at removal, including the band just below it and '
              'the exact boundary, with fixed and random rest-time lists; every returned time is judged against an '
              'independent sum of exponentials and every exception against the single allowed type.'
              ' Added in rounds 4-7: the documented command line (activation.demo), refused requests on the reused Sample and as the first request on a new one.')
LEVEL_NOTE = ('Trusted: activation.activity for the activities at removal (judged separately by C14), the csv reader in '
              'pvmon/ref/activation_ref.py for half-lives, IEEE double arithmetic for the sum of exponentials '
              '(0.1 % band).  Targets within 1e-9 relative of A(0) are judged only for single-product samples.')
SHARDS = {'quick': 4, 'thorough': 16}
TIMEOUT = {'quick': 600, 'thorough': 3600}
ASSUMPTIONS = [
    'activities at removal come from the library itself (Sample.calculate_activation with rest_times=[0]); their '
    'correctness is property C14',
    'half-lives from the independent reader of activation.dat (column "t1/2 in hr")',
    '"within 0.1% of the target" is |sum_i A_i(0) 2^(-t/T_i) - target| <= 1e-3 * target',
    'a RuntimeError is an allowed outcome for any request; it violates the rest-time clause only when the list [0] '
    'yields an accepted answer for the same request',
]

BAND = 1e-3
LN2 = math.log(2)
FIXED_LISTS = [([0], 25), ([0, 1, 24, 360], 20), ([24, 0], 10), ([0.5], 9), ([1, 24], 9), ([5, 2], 5), ([24], 3)]
_state = {}


# ----------------------------------------------------------------------------
def setup(ctx):
    import periodictable as pt
    from periodictable import activation as A
    from ..ref import activation_ref as R
    T = R.ActivationTable()
    _state.update(R=R, T=T, A=A, pt=pt, anomalies=[], cache=(None, None),
                  post=dict(calls=0, returned=0, raised=0, band_checked=0), suite=_suite_mode(), inject=None,
                  fr=dict(calls=0, iterations=0, exhausted=0, maxit=0))
    pt.elements[1][2].neutron_activation
    rowmap = {}
    for (Z, Aa), lst in T.by_iso.items():
        for r, q in zip(lst, getattr(pt.elements[Z][Aa], 'neutron_activation', [])):
            rowmap[id(q)] = r
    _state['rowmap'] = rowmap
    _state['single'] = sorted(k for k, lst in T.by_iso.items()
                              if len(lst) == 1 and not lst[0].fast and lst[0].reaction not in ('b', '2n'))

    orig_dt = A.Sample.decay_time
    orig_fr = getattr(A, 'find_root', None)
    reach = Reach()
    reach.watch(orig_dt, 'decay_time.calls')
    if getattr(orig_fr, '__code__', None) is not None:
        reach.watch(orig_fr, 'find_root.calls')
        try:
            reach.watch_line_matching(orig_fr, 'x -= fx / df(x)', 'find_root.iteration_lines')
        except Exception:  # noqa - no source text for the function
            ctx.count('anchor_missing.reach.find_root.iteration_lines')
    else:
        orig_fr = None
        ctx.note('activation.find_root not found as a Python function: no counting wrapper / acceptance probe')
    reach.watch_line_matching(orig_dt, 'return 0', 'decay_time.return_no_activity', occurrence=0)
    reach.watch_line_matching(orig_dt, 'return 0', 'decay_time.early_exit', occurrence=1)
    reach.watch_line_matching(orig_dt, 'raise RuntimeError', 'decay_time.raise_RuntimeError')
    reach.watch_line_matching(orig_dt, 'percent_error = ', 'decay_time.acceptance_test')
    _state['reach'] = reach

    def decay_time_with_postcondition(self, *args, **kw):
        post = _state['post']
        post['calls'] += 1
        try:
            t = orig_dt(self, *args, **kw)
        except BaseException:
            post['raised'] += 1
            raise
        post['returned'] += 1
        if len(args) + len(kw) != 1 or (kw and 'target' not in kw):
            post['unrecognised'] = post.get('unrecognised', 0) + 1     # another call form: passed through un-judged
            return t
        if _state.get('record') is not None:
            _state['record'].append((self, args[0] if args else kw['target'], t))
        _post_decay_time(self, args[0] if args else kw['target'], t)
        return t
    decay_time_with_postcondition.__wrapped__ = orig_dt
    decay_time_with_postcondition.__doc__ = orig_dt.__doc__
    A.Sample.decay_time = decay_time_with_postcondition

    def find_root_counted(*args, **kw):
        """find_root(x, f, df, ...): counts the derivative evaluations (one per Newton step) and lets the
        acceptance probe degrade the returned root.  A call of another form passes through untouched."""
        fr = _state['fr']
        fr['calls'] += 1
        if len(args) >= 3 and callable(args[1]) and callable(args[2]):
            f, df = args[1], args[2]
            place = 'args'
        elif callable(kw.get('f')) and callable(kw.get('df')):
            f, df = kw['f'], kw['df']
            place = 'kw'
        else:
            fr['unrecognised'] = fr.get('unrecognised', 0) + 1
            return orig_fr(*args, **kw)
        n = [0]

        def counted_df(t):
            n[0] += 1
            return df(t)
        if place == 'args':
            args = args[:2] + (counted_df,) + args[3:]
        else:
            kw = dict(kw, df=counted_df)
        try:
            out = orig_fr(*args, **kw)
            if _state['inject'] is not None:
                try:
                    root = out[0]
                except Exception:  # noqa - another return form: not degradable
                    fr['unrecognised'] = fr.get('unrecognised', 0) + 1
                    return out
                out = _state['inject'](root, f)   # acceptance probe: hand decay_time a degraded root
            return out
        finally:
            fr['iterations'] += n[0]
            fr['maxit'] = max(fr['maxit'], n[0])
            if n[0] >= 20:
                fr['exhausted'] += 1
    if orig_fr is not None:
        find_root_counted.__wrapped__ = orig_fr
        find_root_counted.__doc__ = getattr(orig_fr, '__doc__', None)
        A.find_root = find_root_counted
    reach.start()


def _suite_mode():
    """True under `python -m pvmon.suite` (no check function drains the anomalies: the postcondition raises)."""
    import sys
    spec = getattr(sys.modules.get('__main__'), '__spec__', None)
    return bool(spec and spec.name == 'pvmon.suite')


def _post_decay_time(sample, target, t):
    n = len(_state['anomalies'])
    _post_decay_time_conditions(sample, target, t)
    if _state['suite'] and len(_state['anomalies']) > n:
        an = _state['anomalies'][n:]
        del _state['anomalies'][n:]
        raise AssertionError('pvmon C15 postcondition of Sample.decay_time(%r): %r' % (target, an))


def _post_decay_time_conditions(sample, target, t):
    """Postcondition of Sample.decay_time on the object's own state: a real t >= 0; when t > 0 the
    activities of the table, decayed from the smallest requested rest time to t, sum to the target
    within 0.1 %."""
    an = _state['anomalies']
    try:
        tv = float(t)
    except Exception:
        an.append(dict(kind='post-not-a-number', value=repr(t)))
        return
    if not tv >= 0:
        an.append(dict(kind='negative-time', value=tv))
        return
    if tv == 0 or not sample.activity or not sample.rest_times:
        return
    try:
        i0 = min(range(len(sample.rest_times)), key=lambda i: sample.rest_times[i])
        To = sample.rest_times[i0]
        tot = math.fsum(v[i0] * 2.0 ** (-(tv - To) / a.Thalf_hrs) for a, v in sample.activity.items())
    except (OverflowError, ZeroDivisionError):
        return
    _state['post']['band_checked'] += 1
    if abs(tot - target) > BAND * target:
        an.append(dict(kind='inaccurate', value=tv, total=tot, target=target, own_state=True))


# ----------------------------------------------------------------------------
# generators
# ----------------------------------------------------------------------------
def _pick_list(rng):
    u = rng.random() * 100
    acc = 0
    for lst, w in FIXED_LISTS:
        acc += w
        if u < acc:
            return list(lst)
    # random list: mostly small non-zero minima, any order, any length >= 1
    n = rng.randint(1, 4)
    out = []
    for _ in range(n):
        v = rng.random()
        out.append(0 if v < 0.25 else round(10 ** rng.uniform(-2, 0.5), 6) if v < 0.85
                   else round(10 ** rng.uniform(0.5, 2.5), 4))
    return out


def _random_sample(rng):
    T = _state['T']
    targets = sorted(T.by_iso)
    atoms = {}
    for _ in range(rng.randint(1, 3)):
        if rng.random() < 0.8:
            k = (rng.randint(1, 92), 0)
        else:
            k = rng.choice(targets)
        atoms[k] = rng.randint(1, 5)
    u = rng.random()
    cd = 0 if u < 0.4 else (70 if u < 0.7 else 10 ** rng.uniform(0, 2.5))
    fr = 0 if rng.random() < 0.5 else rng.choice([50, 10 ** rng.uniform(0, 3)])
    return {'atoms': [[z, a, n] for (z, a), n in atoms.items()], 'mass': 10 ** rng.uniform(-6, 3),
            'fluence': 10 ** rng.uniform(2, 16), 'Cd_ratio': cd, 'fast_ratio': fr,
            'exposure': 10 ** rng.uniform(-3, 4)}


def _pick_target(rng):
    u = rng.random()
    if u < 0.70:
        return {'mode': 'rel', 'x': 10 ** rng.uniform(-9, 1)}
    if u < 0.88:
        return {'mode': 'rel', 'x': rng.uniform(0.5, 1.0)}    # between "already below" and "almost below"
    if u < 0.92:
        return {'mode': 'rel', 'x': 1 - 10 ** rng.uniform(-8, -3)}   # a hair below the activity at removal
    return {'mode': 'rel', 'x': rng.uniform(1.0, 1.5)}


def generate(ctx):
    rng = ctx.rng
    nsamples = ctx.scale(400, 1500)
    for _ in range(nsamples):
        s = _random_sample(rng)
        for _l in range(4):
            lst = _pick_list(rng) if _l else [0]
            for _t in range(6):
                c = dict(s)
                c['rest'] = lst
                c['target'] = _pick_target(rng)
                if rng.random() < 0.2:
                    c['reuse'] = [10 ** rng.uniform(2, 16), 10 ** rng.uniform(-3, 4),
                                  rng.choice([[0], [0, 1, 24], [2, 0.5]]), 10 ** rng.uniform(-3, -0.1)]
                    # how the earlier calculation on the same object differs: another environment object or the
                    # same one edited in place, optionally another mass (assigned to the public attribute)
                    c['reuse_opts'] = {'same_env': rng.random() < 0.3,
                                       'mass0': c['mass'] * 10 ** rng.uniform(-2, 2) if rng.random() < 0.3 else None,
                                       # both calculations are handed the very same rest-time object
                                       'same_rest': rng.random() < 0.3}
                if lst == [0, 1, 24, 360] and rng.random() < 0.3:
                    c['default_rest'] = True     # rest_times left to the documented default (0, 1, 24, 360)
                u = rng.random()
                if u < 0.12:
                    c['rest_container'] = 'tuple'
                if rng.random() < 0.08:
                    # the judged sample is asked for other levels first (a table of levels, any order)
                    c['pre_targets'] = [10 ** rng.uniform(-3, 1) for _ in range(rng.randint(1, 2))]
                    c['repeat'] = True     # ... and for the judged level a second time afterwards
                yield 'decay', c
        # acceptance probes: the root finder's answer is degraded by 0.5 % (must be refused with RuntimeError,
        # never returned) and by 0.02 % (inside the band); targets well below A(0), rest_times=[0]
        for off in (0.005, 0.0002):
            c = dict(s)
            c['rest'] = [0]
            c['target'] = {'mode': 'rel', 'x': 10 ** rng.uniform(-6, -0.35)}
            c['inject_offset'] = off
            yield 'decay', c
    # the documented command line, a few formulas per shard
    for text in rng.sample(['Co30Fe70', 'H2O', 'NaCl', 'Au', 'Mn', 'Al2O3', 'D2O', 'CaCO3', 'Cu', 'In', 'SiO2', 'Fe2O3'], 3):
        yield 'cli', {'formula': text}
    # (acceptance probes ride along: see below)
    # exact boundary: single-product samples, target exactly A(0), one ulp above, one ulp below
    for _ in range(ctx.scale(20, 100)):
        z, a = rng.choice(_state['single'])
        s = _random_sample(rng)
        s['atoms'] = [[z, a, 1]]
        s['fast_ratio'] = 0
        lst = rng.choice([[0], [0, 1, 24, 360], [24, 0]])
        for mode in ('exact', 'ulp_above', 'ulp_below'):
            c = dict(s)
            c['rest'] = lst
            c['target'] = {'mode': mode}
            yield 'decay', c


# ----------------------------------------------------------------------------
def _formula_text(case):
    pt = _state['pt']
    return ''.join('%s%s%s' % (pt.elements[int(z)].symbol, '[%d]' % a if a else '', n if n != 1 else '')
                   for z, a, n in case['atoms'])


def _activate(case, rest, reference=False, target=None):
    """The activated Sample of the case.  *target* is the level that will be judged afterwards: in
    're-use' cases the earlier calculation on the same object is asked for exactly that level too
    (and for another one), so an answer remembered from the earlier calculation would show."""
    A = _state['A']
    opts = case.get('reuse_opts') or {}
    env = None
    if case.get('reuse') and not reference:
        # the same Sample object was used for an earlier, different calculation (and asked for decay
        # times) before the calculation under test: an irradiation plan that is revised
        f0, x0, r0, tfrac = case['reuse'][:4]
        mass0 = opts.get('mass0')
        s = A.Sample(_formula_text(case), mass0 if mass0 else case['mass'])
        env0 = A.ActivationEnvironment(fluence=f0, Cd_ratio=case['Cd_ratio'], fast_ratio=case['fast_ratio'])
        if case.get('rest_container') == 'tuple':
            rest = tuple(rest)
        try:
            if opts.get('same_rest') and case.get('default_rest') and list(rest) == [0, 1, 24, 360]:
                s.calculate_activation(env0, exposure=x0)
            else:
                s.calculate_activation(env0, exposure=x0, rest_times=rest if opts.get('same_rest') else r0)
            a0 = sum(v[0] for v in s.activity.values())
            asked = []
            if target is not None:
                asked.append(target)
            if a0 > 0:
                asked.append(a0 * tfrac)
            if target is not None and len(asked) > 1 and int(tfrac * 1e6) % 2:
                asked.append(target)      # the judged level before and after another one
            for x in asked:
                try:
                    s.decay_time(x)
                    _state['reuse_first_step_answers'] = _state.get('reuse_first_step_answers', 0) + 1
                except Exception:
                    _state['reuse_first_step_raised'] = _state.get('reuse_first_step_raised', 0) + 1
        except Exception:
            _state['reuse_first_step_raised'] = _state.get('reuse_first_step_raised', 0) + 1
        if int(case['mass'] * 1e6) % 2 == 0:
            # calculations and requests the library refuses on this very object, caught by the caller
            for kw in ({'exposure': -3.0, 'rest_times': (0,)}, {'exposure': 1, 'rest_times': (0, -1e6)}):
                try:
                    s.calculate_activation(env0, **kw)
                    _state['refused_answered'] = _state.get('refused_answered', 0) + 1
                except Exception:
                    _state['refused_refused'] = _state.get('refused_refused', 0) + 1
            for bad_target in ('low', None):
                try:
                    s.decay_time(bad_target)
                except Exception:
                    _state['refused_refused'] = _state.get('refused_refused', 0) + 1
        if mass0:
            s.mass = case['mass']
        if opts.get('same_env'):
            env = env0
            env.fluence = case['fluence']
    else:
        s = A.Sample(_formula_text(case), case['mass'])
        if int(case['mass'] * 1e6) % 3 == 0 and not reference:
            # the very first request on a new object is one the library refuses (caught by the caller)
            for kw in ({'exposure': -3.0, 'rest_times': (0,)}, {'exposure': 1, 'rest_times': (0, -1e6)}):
                try:
                    s.calculate_activation(A.ActivationEnvironment(fluence=1e8, Cd_ratio=0, fast_ratio=0), **kw)
                    _state['refused_answered'] = _state.get('refused_answered', 0) + 1
                except Exception:
                    _state['refused_first'] = _state.get('refused_first', 0) + 1
    if env is None:
        env = A.ActivationEnvironment(fluence=case['fluence'], Cd_ratio=case['Cd_ratio'], fast_ratio=case['fast_ratio'])
    if case.get('rest_container') == 'tuple' and not reference:
        rest = tuple(rest)
    if case.get('default_rest') and not reference and list(rest) == [0, 1, 24, 360]:
        s.calculate_activation(env, exposure=case['exposure'])
    else:
        s.calculate_activation(env, exposure=case['exposure'], rest_times=rest)
    return s


def _call(sample, target):
    """('value', t) | ('RuntimeError', msg) |
    ('exception', type name, msg, innermost function, its source line, raised inside find_root?)."""
    _state['anomalies'] = []
    try:
        t = sample.decay_time(target)
    except RuntimeError as exc:
        return ('RuntimeError', str(exc)[:200])
    except Exception as exc:
        tb = traceback.extract_tb(exc.__traceback__)
        last = tb[-1] if tb else None
        return ('exception', type(exc).__name__, str(exc)[:200], last.name if last else '',
                (last.line or '') if last else '', any(fr.name == 'find_root' for fr in tb))
    return ('value', t)


def _judge(outcome, target, A0, total, exact_single):
    """Classify an outcome against the oracle: returns (verdict, info) with verdict one of
    'accepted' (a correct answer), 'runtime-error' (allowed refusal), or a violation kind."""
    if outcome[0] == 'RuntimeError':
        return 'runtime-error', {}
    if outcome[0] == 'exception':
        return 'exception', {'exc_type': outcome[1], 'exc_msg': outcome[2], 'where': outcome[3], 'line': outcome[4],
                             'via_find_root': outcome[5]}
    t = outcome[1]
    try:
        tv = float(t)
    except Exception:
        return 'not-a-number', {'value': repr(t)}
    if tv != tv:
        return 'not-a-number', {'value': repr(t)}
    if tv < 0:
        return 'negative-time', {'value': tv}
    near = abs(target - A0) <= 1e-9 * abs(A0)
    if near and not exact_single:
        return 'accepted', {'unjudged_near_boundary': True}
    if A0 <= target:
        if tv != 0:
            return 'nonzero-when-below', {'value': tv}
        return 'accepted', {}
    if tv == 0:
        return 'zero-when-above', {'value': tv}
    tot = total(tv)
    if abs(tot - target) > BAND * target:
        return 'inaccurate', {'value': tv, 'total': tot, 'relerr': abs(tot - target) / target}
    return 'accepted', {'relerr': abs(tot - target) / target}


def check_decay(ctx, case):
    rowmap = _state['rowmap']
    key = repr([case[k] for k in ('atoms', 'mass', 'fluence', 'Cd_ratio', 'fast_ratio', 'exposure')])
    if _state['cache'][0] == key:
        s0 = _state['cache'][1]
    else:
        try:
            s0 = _activate(case, [0], reference=True)
        except Exception as exc:
            # the activation itself failed: that is property C14's subject, decay_time was never reached
            ctx.count('skipped.activation_raised_' + type(exc).__name__)
            _state['cache'] = (None, None)
            return
        _state['cache'] = (key, s0)
    prods = []
    for q, vals in s0.activity.items():
        r = rowmap.get(id(q))
        prods.append((vals[0], r.Thalf_hrs if r is not None else q.Thalf_hrs))
    A0 = math.fsum(a for a, _ in prods)
    has_negative0 = any(a < 0 for a, _ in prods)
    nonzero = [a for a, _ in prods if a != 0]

    def total(t):
        return math.fsum(a * 2.0 ** (-t / th) for a, th in prods)

    tm = case['target']
    exact_single = False
    if tm['mode'] == 'rel':
        target = A0 * tm['x']
    else:
        if len(nonzero) != 1 or len(prods) != 1:
            ctx.count('boundary.skipped_not_single_product')
            return
        exact_single = True
        a = nonzero[0]
        target = a if tm['mode'] == 'exact' else (math.nextafter(a, math.inf) if tm['mode'] == 'ulp_above'
                                                  else math.nextafter(a, 0.0))
        ctx.count('boundary.' + tm['mode'])
    if not prods:
        # no activation at all: decay_time must return 0 for any target
        ctx.evaluated(what='no-activity')
        out = _call(_activate(case, case['rest']), 1.0)
        if out != ('value', 0):
            ctx.violation('sample %s has no activity but decay_time(1.0) gave %r' % (_formula_text(case), out),
                          kind='no-activity')
        ctx.count('samples.without_activity')
        return
    if not (target > 0 and math.isfinite(target)):
        ctx.count('skipped.nonpositive_target')   # A(0) <= 0: nothing the property speaks about
        return

    rest = case['rest']
    try:
        s = _activate(case, rest, target=target)
    except Exception as exc:
        ctx.count('skipped.activation_raised_' + type(exc).__name__)
        return
    if case.get('reuse'):
        ctx.count('reuse.cases')
    for x in case.get('pre_targets') or []:
        _call(s, A0 * x)          # other levels asked first; their answers are not judged here
        ctx.count('pre_targets.asked')
    i0 = min(range(len(rest)), key=rest.__getitem__)
    To = rest[i0]
    entries = [v[i0] for v in s.activity.values()]
    feats = {
        'min_rest': To, 'rest': rest, 'target_over_A0': target / A0 if A0 else None,
        'has_negative': bool(has_negative0 or any(v < 0 for v in entries)),
        'has_zero_product': any(v == 0 for v in entries),
        'overflow_ratio': max([To * LN2 / th for _, th in prods] or [0]),
        # largest exponent the reconstruction exp(La*(To - t)) can meet for t >= the initial guess:
        # La*To + log(target/A_j(0)) when product j alone is below the target (its own guess is negative)
        'overflow_exponent_bound': max([To * LN2 / th + max(0.0, math.log(target / a)) for a, th in prods if a > 0]
                                       or [0]),
        'mode': tm['mode'], 'nproducts': len(prods), 'A0_minus_target': A0 - target,
        # a product whose activity at the smallest requested rest time is below the smallest normal double (stored
        # as a denormal or as 0) although it is part of the activity at removal: the table has lost it
        'underflow_product': any(a > 0 and To > 0 and a * 2.0 ** (-To / th) < 2.2250738585072014e-308 for a, th in prods),
    }
    off = case.get('inject_offset')
    if off:
        feats['injected_offset'] = off

        def degrade(xr, f):
            slope = -math.fsum(a * LN2 / th * 2.0 ** (-xr / th) for a, th in prods)
            if not slope < 0:
                return xr, f(xr)
            x2 = xr + off * target / slope      # left of the root: total activity above the target by ~off
            if not x2 >= 0:
                ctx.count('acceptance.not_injectable')   # flat tail: the shifted time would precede the removal
                return xr, f(xr)
            ctx.count('acceptance.injected')
            return x2, f(x2)
        _state['inject'] = degrade
    try:
        out = _call(s, target)
    finally:
        _state['inject'] = None
    anomalies = _state['anomalies']
    verdict, info = _judge(out, target, A0, total, exact_single)
    ctx.evaluated(what='decay_time-vs-oracle')
    ctx.count('outcome.' + verdict)
    if off:
        ctx.count('acceptance.offset_%g.%s' % (off, verdict))
    if info.get('relerr') is not None and verdict == 'accepted':
        ctx.observe('accepted.relerr_to_target', info['relerr'])
        ctx.count('observed.positive_time_accepted')
    if verdict == 'accepted' and A0 <= target and not info.get('unjudged_near_boundary'):
        ctx.count('observed.returned_zero_at_or_below_target')
    if verdict == 'runtime-error':
        ctx.count('observed.RuntimeError')
    if info.get('unjudged_near_boundary'):
        ctx.count('unjudged.near_boundary')
    # the sibling: same request with rest_times=[0]
    sib = None
    if rest != [0]:
        out0 = _call(s0, target)
        _state['anomalies'] = []
        sib, info0 = _judge(out0, target, A0, total, exact_single)
        ctx.evaluated(what='rest-list-independence')
        ctx.count('sibling.' + sib)
        if sib == 'exception':
            feats['sibling_exc_type'] = info0.get('exc_type')
    feats['sibling'] = sib
    text = 'Sample(%r, %.6g g) fluence %.4g Cd %.4g fast %.4g exposure %.4g h rest_times %r target %.6g (A(0)=%.6g)' % (
        _formula_text(case), case['mass'], case['fluence'], case['Cd_ratio'], case['fast_ratio'], case['exposure'],
        rest, target, A0)
    if case.get('reuse'):
        text += ' [Sample object re-used: earlier calculation at fluence %.4g, exposure %.4g h, rest_times %r%s had ' \
                'answered decay_time for this level]' % (
                    case['reuse'][0], case['reuse'][1],
                    'the same object' if (case.get('reuse_opts') or {}).get('same_rest') else case['reuse'][2],
                    ', other mass' if (case.get('reuse_opts') or {}).get('mass0') else '')
    if verdict == 'runtime-error':
        if sib == 'accepted':
            ctx.violation('%s: raises RuntimeError (%s) although the same request with rest_times=[0] returns an '
                          'accepted time' % (text, out[1]), kind='rest-list-dependence', outcome='RuntimeError', **feats)
    elif verdict == 'exception':
        ctx.violation('%s: decay_time raised %s: %s (only RuntimeError is allowed)' % (text, info['exc_type'],
                                                                                    info['exc_msg']),
                      kind='exception', **dict(feats, **info))
    elif verdict != 'accepted':
        kind = verdict
        if sib == 'accepted' and verdict in ('inaccurate', 'zero-when-above', 'nonzero-when-below'):
            # wrong with this list, right with [0]: also a dependence on the list
            feats['list_dependent'] = True
        ctx.violation('%s: decay_time returned %r: %s %r' % (text, out[1], verdict, info), kind=kind,
                      **dict(feats, **{k: v for k, v in info.items() if k != 'value'}))
    if case.get('repeat') and not off and verdict in ('accepted', 'runtime-error'):
        # the same level asked again (after the other levels once more): the second answer is held to the same oracle
        for x in reversed(case.get('pre_targets') or []):
            _call(s, A0 * x)
        out2 = _call(s, target)
        _state['anomalies'] = []
        v2, info2 = _judge(out2, target, A0, total, exact_single)
        ctx.evaluated(what='repeated-request')
        ctx.count('repeat.' + v2)
        if v2 not in ('accepted', 'runtime-error') or (v2 == 'runtime-error' and verdict == 'accepted'):
            ctx.violation('%s: asked a second time on the same object, decay_time gave %r (%s %r); the first answer '
                          'was %r' % (text, out2[1:], v2, info2, out[1:]), kind='repeat-' + v2, **feats)
    for a in anomalies:
        if a['kind'] == verdict:
            continue   # already reported by the oracle
        ctx.violation('%s: postcondition of decay_time: %r' % (text, a), kind=a['kind'], postcondition=True, **feats)
    if A0 > 0:
        ctx.distinct_case((tuple(sorted((int(z), int(a)) for z, a, _ in case['atoms'])), tuple(rest),
                           math.floor(math.log10(target / A0)) if target > 0 else None, verdict))
    if To != 0:
        ctx.count('lists.nonzero_minimum')
    if feats['overflow_ratio'] > 700:
        ctx.count('trigger.rest_time_overflow_feature')
    if feats['has_negative']:
        ctx.count('trigger.negative_activity_feature')
    if feats['has_zero_product']:
        ctx.count('trigger.zero_activity_feature')


CLI_UNITS_IN_UCI = {'uCi': 1.0, 'nCi': 1e-3, 'pCi': 1e-6, 'mCi': 1e3, 'Ci': 1e6,
                    'Bq': 1 / 3.7e4, 'kBq': 1e3 / 3.7e4, 'MBq': 1e6 / 3.7e4}


def check_cli(ctx, case):
    """The documented command line `python -m periodictable.activation FORMULA` (activation.demo): the level and
    the time it prints are the level Sample.decay_time was asked for (in its unit, uCi) and the time it returned;
    that call itself is judged by the postcondition on decay_time (the 0.1 % band on the sample's own table)."""
    import contextlib
    import io
    import re
    import sys
    A = _state['A']
    demo = getattr(A, 'demo', None)
    if not callable(demo):
        ctx.count('anchor_missing.cli.demo')
        ctx.note('activation.demo not found: the command-line route is not exercised')
        return
    del _state['anomalies'][:]
    _state['record'] = []
    out = io.StringIO()
    argv = sys.argv
    try:
        sys.argv = ['periodictable.activation', case['formula']]
        with contextlib.redirect_stdout(out):
            demo()
    except Exception as exc:
        ctx.violation('python -m periodictable.activation %r raised %s: %s' % (case['formula'], type(exc).__name__, exc),
                      kind='cli-exception', exc_type=type(exc).__name__)
        return
    finally:
        sys.argv = argv
        calls, _state['record'] = _state['record'], None
    ctx.count('cli.runs')
    m = re.search(r'decay to\s+([-+0-9.eE]+)\s*([A-Za-z]+)\s+is\s+([-+0-9.eE]+|inf|nan)\s*hours', out.getvalue())
    if not m or m.group(2) not in CLI_UNITS_IN_UCI or len(calls) != 1:
        ctx.count('cli.not_judged')      # another wording / no single decay_time call: nothing to compare
        return
    level = float(m.group(1)) * CLI_UNITS_IN_UCI[m.group(2)]
    shown_t = float(m.group(3))
    _sample, target, t = calls[0]
    ctx.evaluated(2, 'cli')
    ctx.count('cli.judged')
    if not abs(level - target) <= 1e-5 * abs(target):
        ctx.violation('python -m periodictable.activation %r says "decay to %s %s" (= %r uCi) but asked decay_time for '
                      '%r uCi (answer %r h, printed %r h)' % (case['formula'], m.group(1), m.group(2), level, target, t, shown_t),
                      kind='cli-level')
    elif not abs(shown_t - float(t)) <= 1e-5 * abs(float(t)):
        ctx.violation('python -m periodictable.activation %r prints %r hours, decay_time(%r) returned %r'
                      % (case['formula'], shown_t, target, t), kind='cli-time')
    for an in _state['anomalies']:
        ctx.violation('python -m periodictable.activation %r: decay_time(%r) -> %r fails its postcondition: %r'
                      % (case['formula'], target, t, an), kind='cli-' + an.get('kind', 'post'))
    del _state['anomalies'][:]
    ctx.distinct_case(('cli', case['formula']))


CHECKS = {'decay': check_decay, 'cli': check_cli}


def finish(ctx):
    reach = _state['reach']
    reach.stop()
    reach.export(ctx)
    for k, v in _state['post'].items():
        ctx.count('postcondition.decay_time.' + k, v)
    ctx.count('contract.decay_time.postcondition_evaluations', _state['post']['returned'])
    fr = _state['fr']
    ctx.count('find_root.calls', fr['calls'])
    ctx.count('find_root.iterations', fr['iterations'])
    ctx.count('find_root.iteration_limit_reached', fr['exhausted'])
    ctx.observe('find_root.max_iterations_in_one_call', fr['maxit'])
    ctx.count('contract.decay_time.unrecognised_call', _state['post'].get('unrecognised', 0))
    ctx.count('contract.find_root.unrecognised_call', fr.get('unrecognised', 0))
    # Source-line anchors inside decay_time / find_root are private.  Each has a counterpart in the public
    # behaviour the oracle has seen; when the line counter stayed at zero (line reworded, moved into a helper)
    # but the behaviour was observed, the line requirement is waived.
    c = ctx.counters
    seen = {'decay_time.early_exit': c.get('observed.returned_zero_at_or_below_target', 0),
            'decay_time.acceptance_test': c.get('observed.positive_time_accepted', 0),
            'decay_time.raise_RuntimeError': c.get('observed.RuntimeError', 0)}
    for label, n in seen.items():
        if n and not c.get('reach.' + label):
            ctx.count('anchor_missing.reach.' + label)
            ctx.note('line anchor %r did not fire; the corresponding public behaviour was observed %d times: '
                     'requirement waived' % (label, n))
    if fr['calls'] == 0 and _state['post']['returned']:
        # decay_time answers without going through the module-level find_root (inlined / private solver):
        # the iteration counter and the acceptance probe, which ride on that call, have nothing to observe
        # (the RuntimeError refusal is normally reached through that probe only)
        for name in ('find_root.iterations', 'acceptance.injected', 'reach.decay_time.raise_RuntimeError'):
            ctx.count('anchor_missing.' + name)
        ctx.note('Sample.decay_time returned %d answers without calling activation.find_root: the Newton-step '
                 'counter and the degraded-root acceptance probe are not applicable and are waived; every returned '
                 'time is still judged against the independent sum of exponentials' % _state['post']['returned'])
    ctx.require('postcondition.decay_time.returned', 1, 'the postcondition on Sample.decay_time must have been evaluated')
    ctx.require('find_root.iterations', 1, 'the Newton iteration must have been observed')
    ctx.require('reach.decay_time.early_exit', 1, 'the early exit (already at/below target) must be reached')
    ctx.require('reach.decay_time.acceptance_test', 1, 'the 0.1% acceptance test must be reached')
    ctx.require('observed.returned_zero_at_or_below_target', 1, 'a request at or above the activity at removal must have returned 0')
    ctx.require('observed.positive_time_accepted', 1, 'a positive decay time must have been judged inside the 0.1% band')
    ctx.require('lists.nonzero_minimum', 1, 'rest-time lists without 0 must be exercised')
    if not ctx.counters.get('anchor_missing.cli.demo'):
        ctx.require('cli.runs', 1, 'the documented command line must have been run')
    ctx.require('outcome.accepted', 1, 'at least one returned time must have been judged correct')
    ctx.require('acceptance.injected', 1, 'the acceptance probe must have degraded at least one root')
    ctx.require('reach.decay_time.raise_RuntimeError', 1, 'the RuntimeError refusal must be reached')
    ctx.count('reuse.first_step_decay_time_answers', _state.get('reuse_first_step_answers', 0))
    ctx.count('reuse.first_step_raised', _state.get('reuse_first_step_raised', 0))
    ctx.count('reuse.refused_requests.refused', _state.get('refused_refused', 0))
    ctx.count('new_object.first_request_refused', _state.get('refused_first', 0))
    ctx.count('reuse.refused_requests.answered', _state.get('refused_answered', 0))
    ctx.require('reuse.first_step_decay_time_answers', 1, 'a re-used Sample must have answered decay_time for the '
                'judged level before the judged calculation')


# ----------------------------------------------------------------------------
def classify(rec):
    d = rec.get('detail') or {}
    kind = d.get('kind')
    x = d.get('target_over_A0')
    To = d.get('min_rest')
    sib = d.get('sibling')
    # the sibling request (rest_times=[0]) does not show the symptom; on a tree that still has the early-exit
    # defect the sibling may itself return the wrong zero for targets in (A0/2, A0)
    sib_ok = sib in ('accepted', 'runtime-error') or (sib == 'zero-when-above' and x is not None and 0.5 < x < 1)
    gap = d.get('A0_minus_target')
    if kind == 'exception':
        et = d.get('exc_type')
        if et == 'OverflowError' and To and (sib_ok or (sib == 'exception' and d.get('sibling_exc_type')
                                                        not in (None, 'OverflowError'))):
            if (d.get('overflow_ratio') or 0) > 700 and not d.get('via_find_root'):
                # exp(La*To) while reconstructing the activity at removal from the smallest rest time
                return 'c15.rest-time-overflow'
            if (d.get('overflow_exponent_bound') or 0) > 700 and d.get('where') != 'find_root':
                # the same reconstruction evaluated at the (negative) initial guess of a negligible product
                return 'c15.rest-time-overflow'
            if d.get('via_find_root') and sib in ('accepted', 'runtime-error'):
                # Newton driven the wrong way by the (To-1) factor until exp() overflows
                return 'c15.derivative-rest-time-factor'
            return None
        if et == 'ValueError' and d.get('has_negative'):
            return 'c15.negative-activity-input'
        if et == 'ZeroDivisionError':
            if d.get('where') == 'find_root' and To == 1 and sib_ok:
                return 'c15.derivative-rest-time-factor'
            if 'log(target/Ia)' in (d.get('line') or '') and d.get('has_zero_product'):
                return 'c15.zero-activity-product'
        return None
    if kind in ('zero-when-above', 'inaccurate') and not d.get('postcondition') and d.get('underflow_product') \
            and To and sib == 'accepted' and 650 < (d.get('overflow_ratio') or 0) <= 709.7:
        # (beyond ln2*To/T_half = 709.78 the reconstruction exp() overflows on the unchanged tree - that is the other
        # finding, an OverflowError; a silent answer there is not this finding)
        # the sibling request (rest_times=[0]) is answered correctly; with this list the activity table holds a
        # short-lived product only as a denormal / zero at its smallest rest time, so the activity at removal that
        # decay_time reconstructs from the table misses it (the same loss that, a few half-lives later, makes the
        # reconstruction overflow: c15.rest-time-overflow)
        return 'c15.rest-time-underflow'
    if kind == 'zero-when-above' and not d.get('postcondition'):
        # f(0) < target with f already holding "- target": zero for every target in (A0/2, A0)
        if x is not None and 0.5 < x < 1:
            return 'c15.early-exit-half-target'
        return None
    if kind == 'negative-time':
        # find_root stops as soon as |f| < 1e-10 uCi (absolute): when the activity at removal exceeds the target
        # by less than that and every product alone is below the target, the (negative) initial guess is returned
        if gap is not None and 0 < gap < 1e-10:
            return 'c15.absolute-root-tolerance'
        return None
    if kind == 'rest-list-dependence':
        # derivative multiplied by (To - 1): Newton is misdirected whenever the smallest rest time is not 0,
        # the acceptance test then refuses; the same request with rest_times=[0] is answered correctly
        if To and sib == 'accepted':
            return 'c15.derivative-rest-time-factor'
        return None
    return None
