"""C08 - atoms are unique per table and every lookup route returns the same object.

Exhaustive identity sweep: the universe of atoms (elements, isotopes, ions, isotope
ions) is taken from an independent model (element_base literal re-read from the
source of core.py with ast; isotope lists re-read from the mass table by
pvmon.ref.masses) and every lookup route of the live table must return the
identical object (`is`) with fields matching the key; every invalid neighbour of
a valid key must raise.  In-process postconditions (icontract) sit on
IonSet.__getitem__, PeriodicTable.symbol/name/isotope and the four _make_*
restorers, so they also judge the calls made internally by pickle/copy and by
change_table."""
import copy
import random
import pickle

RULE = ('one "element" case per (table variant, Z): the element, each of its isotopes, each of its ions and each of its '
        'isotope ions is fetched through every lookup route (T[Z], getattr(T,sym), T.symbol, T.name, T.isotope(sym), '
        "T.isotope('A-Sym'), module attributes for the public table, D/T aliases, element[A], add_isotope(A), iteration, "
        '.ion[q] twice, pickle round trip, copy.copy, copy.deepcopy, one pickle/deepcopy of the whole list with '
        'duplicates) and every result must be the identical object with number/symbol/name/isotope/charge/table equal '
        'to the key; one "invalid" case per (variant, Z) sends every invalid neighbour of the valid keys of that '
        'element through the same routes and requires an exception; one "move" case per (source, destination, Z) checks '
        'core.change_table and Formula.change_table; one "table" case per variant checks iteration order, odd keys, '
        'non-element attribute names and define_elements. EXHAUSTIVE in BOTH tiers, nothing is strided (ISO_STRIDE_QUICK = 1, '
        'the stride is recorded in every case): all 119 elements, 2940 isotopes, 499 element ions and 14207 isotope ions of the '
        'public table and of one mass-initialised private table, all routes, all pickle protocols 0..5, all invalid '
        'neighbours (symbol/name case flips, truncations and extensions; A+-1 and other isotope numbers not in the element; '
        'q+-1, 0, +-10, 100 not in the ions, on the element and on every isotope; 9 malformed and 10 other-notation A-Sym spellings of every '
        "isotope; 'A-D'/'A-T'; odd keys), and change_table public->private, private->public, private->private for every "
        'atom. The seed only permutes the order in which charges and isotopes are visited (seed 0: increasing; cache-order effects). The thorough tier adds table variants, i.e. process histories: the public table after every lazy loader '
        'ran, a second private table created late (mass+density+nsf initialised) and a bare private table (no mass.init: '
        'only D/T plus isotopes added on demand in decreasing order), and six more change_table pairs. distinct = distinct '
        '(variant, Z, A, q) atoms swept + distinct (variant, route, key) invalid keys that raised + distinct (src, dst, Z, A, q) '
        'moves; all are non-trivial (each is an identity or must-raise judgement on a different key)')
EXHAUSTIVE = True
TECHNIQUE = ('runtime monitoring: exhaustive sweep of the finite atom universe through every lookup route with object-identity '
             'oracle and an independent key model, must-raise sweep of invalid neighbour keys, icontract postconditions on '
             'IonSet.__getitem__/PeriodicTable.symbol/name/isotope/_make_* (evaluated on internal calls from pickle, copy and '
             'change_table too), sys.monitoring reach counters on __reduce__/__iter__/change_table')
LEVEL_TEXT = ('Every element, isotope, element ion and isotope ion of the public table and of private tables '
              'is looked up through every '
              'public route, pickled with every protocol, copied and deep-copied, moved between tables, and each result '
              'is compared by identity with the object reached by plain indexing and by field with a key model read '
              'independently from the source; every invalid neighbour of those keys must raise. The domain is finite and '
              'swept completely in both tiers; the sampling that remains is over process histories (two table variants '
              'in the quick tier, five in the thorough tier) and over the finite list of invalid-neighbour operators.'
              ' Added in rounds 5-7: identity of kept atoms across a sweep of all 29 412 ions of two tables, refused lookups and refused table creations in between, in-place edits of the list returned by el.isotopes; an unregistered table is reported as a violation.')
LEVEL_NOTE = ('Trusted: the element_base literal in core.py and the isotope rows of the mass table as the specification of which '
              'atoms exist (re-read by ast / pvmon/ref/masses.py), CPython pickle and copy, icontract.')
SHARDS = {'quick': 4, 'thorough': 8}
TIMEOUT = {'quick': 600, 'thorough': 3600}
ASSUMPTIONS = ['the element_base literal in core.py and the rows of mass.isotope_mass define which atoms exist (data, not mechanism)',
               "lenient spellings that int() accepts ('056-Fe', ' 56-Fe', '+56-Fe', '56 -Fe', '5_6-Fe') and '0-Sym' denote the "
               'same atom numerically; they are observations, not invalid keys, but must not return a different atom',
               'keys outside the design list of invalid neighbours (white-space padded symbols/names, a name given to symbol()/isotope(), '
               "a symbol given to name(), other notations of the same isotope such as 'Fe[56]', '56 Fe', '56.0-Fe') are expected to raise, "
               'and do on the pinned tree; a library that accepted them would be flagged only if it returned another atom than the one named',
               'numerically equal keys (26.0, True) are outside the property and not exercised',
               'the alias symbols/names D, T, deuterium, tritium are the documented names of H[2] and H[3]']

ISO_STRIDE_QUICK = 1
ALIASES = {2: ('D', 'deuterium'), 3: ('T', 'tritium')}
STATED = {'elements': 119, 'isotopes': 2940, 'element_ions': 499, 'isotope_ions': 14207}
CONTRACTS = ('IonSet.__getitem__', 'PeriodicTable.symbol', 'PeriodicTable.name', 'PeriodicTable.isotope',
             '_make_element', '_make_isotope', '_make_ion', '_make_isotope_ion')
NON_ELEMENT_ATTRS = ['properties', 'list', 'symbol', 'name', 'isotope', '_element', '__class__', '__init__',
                     '__dict__', '__getitem__', '__iter__', '', 'D2', 'n1', 'H2', 'elements']

_s = {}


class ContractBroken(AssertionError):
    """An in-process postcondition of C08 failed."""


# ------------------------------------------------------------------ model
def _read_element_base(core):
    """(table, route, note).  First choice: the element_base literal re-read from the source text of core.py
    (never the live dict).  Source text is private to the library: when the literal is not found there
    (moved, generated, split) the public module attribute core.element_base is the data - a copy taken now,
    before any workload ran.  The table is a literal, not a mechanism: the lookup routes, caches, restorers
    and change_table that the property is about do not produce it."""
    import ast
    why = ''
    try:
        tree = ast.parse(open(core.__file__.replace('.pyc', '.py')).read())
        for node in tree.body:
            if isinstance(node, ast.Assign) and any(getattr(t, 'id', None) == 'element_base' for t in node.targets):
                base = ast.literal_eval(node.value)
                _validate_element_base(base)
                return base, 'source', 'element_base literal read with ast from the source text of core.py'
        why = 'no top-level literal assignment to element_base in %s' % core.__file__
    except Exception as exc:  # noqa - refactored source: fall back to the public data
        why = '%s: %s' % (type(exc).__name__, str(exc)[:120])
    live = getattr(core, 'element_base', None)
    if not isinstance(live, dict) or not live:
        raise LookupError('element_base: source route failed (%s) and core.element_base is not a table' % why)
    base = {Z: (v[0], v[1], list(v[2]), list(v[3])) for Z, v in live.items()}
    _validate_element_base(base)
    return base, 'data', ('source-text route not available (%s); the public module attribute core.element_base '
                          '(copied at setup) is the key model' % why)


def _validate_element_base(base):
    if not isinstance(base, dict) or not base:
        raise ValueError('element_base is not a non-empty dict')
    for Z, v in base.items():
        if not (isinstance(Z, int) and len(v) == 4 and isinstance(v[0], str) and isinstance(v[1], str)
                and all(isinstance(q, int) for q in list(v[2]) + list(v[3]))):
            raise ValueError('unexpected element_base row %r: %r' % (Z, v))


class Model(object):
    def __init__(self, core):
        from ..ref.masses import MassModel
        base, self.route, self.route_note = _read_element_base(core)
        self.name = {Z: v[0].lower() for Z, v in base.items()}
        self.sym = {Z: v[1] for Z, v in base.items()}
        self.ions = {Z: tuple(sorted(v[2] + v[3])) for Z, v in base.items()}
        self.Z_of_sym = {s: Z for Z, s in self.sym.items()}
        self.Z_of_name = {n: Z for Z, n in self.name.items()}
        mm = MassModel()
        self.mass_symbol = dict(mm.symbol)
        self.isotopes = {Z: sorted(mm.isotopes.get(Z, [])) for Z in base}
        self.valid_symbols = set(self.sym.values()) | {a[0] for a in ALIASES.values()}
        self.valid_names = set(self.name.values()) | {a[1] for a in ALIASES.values()}
        self.zs = sorted(base)

    def names_of(self, Z, A):
        """(symbol, name) the object of key (Z, A, .) must report."""
        if Z == 1 and A in ALIASES:
            return ALIASES[A]
        return self.sym[Z], self.name[Z]


# ------------------------------------------------------------------ in-process contracts
def _broken(contract, text):
    lst = _s['broken']
    if len(lst) < 50:
        lst.append((contract, text))
    return False


def _owner_ok(table, atom):
    """atom (Element or Isotope) is the object that *table* itself holds.  Looked at in the table's own
    caches where they have the known (private) layout - independent of the lookup methods - and through plain
    public indexing (table[Z], element[A]; neither carries a contract) where they do not."""
    core = _s['core']
    base = atom.element if isinstance(atom, core.Isotope) else atom
    routes = _s['owner_routes']
    try:
        held = getattr(table, '_element', None)
        if isinstance(held, dict):
            routes['table._element'] += 1
            if held.get(base.number) is not base:
                return False
        else:
            routes['table[Z]'] += 1
            if table[base.number] is not base:
                return False
        if isinstance(atom, core.Isotope):
            isos = getattr(base, '_isotopes', None)
            if isinstance(isos, dict):
                routes['element._isotopes'] += 1
                if isos.get(atom.isotope) is not atom:
                    return False
            else:
                routes['element[A]'] += 1
                if base[atom.isotope] is not atom:
                    return False
    except Exception:
        return False
    return True


def ionset_returns_the_cached_ion_of_that_charge(self, charge, result):
    c = _s['evals']
    c['IonSet.__getitem__'] += 1
    core = _s['core']
    owner = getattr(self, 'element_or_isotope', None)
    if owner is None:
        # the IonSet keeps its owner elsewhere (private layout): judge with the owner the ion itself reports
        _s['evals']['IonSet.__getitem__.owner_from_result'] += 1
        owner = getattr(result, 'element', None)
    if type(result) is not core.Ion:
        return _broken('IonSet.__getitem__', '%r.ion[%r] returned %r' % (owner, charge, result))
    if result.charge != charge or result.element is not owner:
        return _broken('IonSet.__getitem__', '%r.ion[%r] returned %r (charge %r, element %r)'
                       % (owner, charge, result, result.charge, result.element))
    if charge not in owner.ions:
        return _broken('IonSet.__getitem__', '%r.ion[%r] returned an ion for a charge not in %r' % (owner, charge, owner.ions))
    seen = _s['ions_seen']
    k = (id(self), charge)
    prev = seen.get(k)
    if prev is None:
        seen[k] = (self, result)
    elif prev[1] is not result:
        return _broken('IonSet.__getitem__', '%r.ion[%r] returned a new object on a later call' % (owner, charge))
    return True


def _key_text(x):
    """The key as the caller wrote it, without white-space padding (padding is not in the
    design's invalid list; see _Ev.soft_invalid)."""
    return x.strip() if isinstance(x, str) else x


def symbol_returns_the_atom_with_that_symbol(self, input, result):
    _s['evals']['PeriodicTable.symbol'] += 1
    core = _s['core']
    if not isinstance(result, (core.Element, core.Isotope)):
        return _broken('PeriodicTable.symbol', 'symbol(%r) returned %r' % (input, result))
    if _key_text(input) not in (result.symbol, result.name) or not _owner_ok(self, result):
        return _broken('PeriodicTable.symbol', 'symbol(%r) returned %r (symbol %r) %s'
                       % (input, result, result.symbol, '' if _owner_ok(self, result) else 'of another table'))
    return True


def name_returns_the_atom_with_that_name(self, input, result):
    _s['evals']['PeriodicTable.name'] += 1
    core = _s['core']
    if not isinstance(result, (core.Element, core.Isotope)):
        return _broken('PeriodicTable.name', 'name(%r) returned %r' % (input, result))
    if _key_text(input) not in (result.name, result.symbol) or not _owner_ok(self, result):
        return _broken('PeriodicTable.name', 'name(%r) returned %r (name %r)' % (input, result, result.name))
    return True


def _number_in(text):
    """Integer a piece of text denotes under any notation (int(), integral float, 0x..);
    0 for no text; None when it denotes no integer."""
    text = text.strip(' \t\n-[]')
    if text == '':
        return 0
    for parse in (int, float, _int0):
        try:
            v = parse(text)
            if v == int(v):
                return int(v)
        except Exception:
            continue
    return None


def _int0(text):
    return int(text, 0)


def _names_and_number(text, names, number):
    """One of *names* stands in *text* as a whole word and what remains denotes *number*."""
    import re
    for n in names:
        m = re.search(r'(?<![A-Za-z])%s(?![A-Za-z])' % re.escape(n), text)
        if m and _number_in(text[:m.start()] + ' ' + text[m.end():]) == number:
            return True
    return False


def isotope_returns_the_atom_the_string_denotes(self, input, result):
    """The returned atom is the table's own, its symbol (or name) is literally in the key, and
    the number the key carries is its isotope number (none/0 for an element or for D/T).  The
    notation is deliberately left open - which *spellings* must be rejected is judged by the
    must-raise sweep - so that this condition can only fail when another atom than the one the
    key names comes back."""
    _s['evals']['PeriodicTable.isotope'] += 1
    core = _s['core']
    if not isinstance(result, (core.Element, core.Isotope)) or not _owner_ok(self, result) or not isinstance(input, str):
        return _broken('PeriodicTable.isotope', 'isotope(%r) returned %r' % (input, result))
    if isinstance(result, core.Isotope):
        el = result.element
        # D/T: an isotope that reports another symbol / name than its element
        alias = [v for v, w in ((result.symbol, el.symbol), (result.name, el.name)) if v != w]
        ok = _names_and_number(input, alias, 0) or _names_and_number(input, (el.symbol, el.name), result.isotope)
    else:
        ok = _names_and_number(input, (result.symbol, result.name), 0)
    if not ok:
        return _broken('PeriodicTable.isotope', 'isotope(%r) returned %r' % (input, result))
    return True


def _restored(contract, table, Z, A, q, result):
    _s['evals'][contract] += 1
    core = _s['core']
    want = core.Ion if q is not None else (core.Isotope if A is not None else core.Element)
    if type(result) is not want:
        return _broken(contract, '%s%r returned %r' % (contract, (table, Z, A, q), result))
    base = result.element if q is not None else result
    if q is not None and result.charge != q:
        return _broken(contract, '%s%r returned %r with charge %r' % (contract, (table, Z, A, q), result, result.charge))
    if A is not None:
        if type(base) is not core.Isotope or base.isotope != A:
            return _broken(contract, '%s%r returned %r' % (contract, (table, Z, A, q), result))
    elif type(base) is not core.Element:
        return _broken(contract, '%s%r returned %r' % (contract, (table, Z, A, q), result))
    if base.number != Z or base.table != table or not _owner_ok(core.PRIVATE_TABLES.get(table), base):
        return _broken(contract, '%s%r returned %r (Z=%r, table %r)' % (contract, (table, Z, A, q), result, base.number, base.table))
    return True


def make_element_restores_that_element(table, Z, result):
    return _restored('_make_element', table, Z, None, None, result)


def make_isotope_restores_that_isotope(table, Z, n, result):
    return _restored('_make_isotope', table, Z, n, None, result)


def make_ion_restores_that_ion(table, Z, c, result):
    return _restored('_make_ion', table, Z, None, c, result)


def make_isotope_ion_restores_that_isotope_ion(table, Z, n, c, result):
    return _restored('_make_isotope_ion', table, Z, n, c, result)


def setup(ctx):
    import icontract
    import periodictable as pt
    from periodictable import core
    from collections import Counter
    from ..statemon import Reach

    _s['pt'] = pt
    _s['core'] = core
    _s['model'] = Model(core)
    _s['broken'] = []
    _s['evals'] = Counter()
    _s['ions_seen'] = {}
    _s['tables'] = {'public': pt.elements}
    _s['isotopes'] = {}      # variant -> {Z: [A]} when it differs from the model
    _s['ctx'] = ctx

    _s['owner_routes'] = Counter()
    _s['missing_contracts'] = set()
    M = _s['model']
    ctx.info['key_model_route'] = M.route
    ctx.count('reference.route.element_base.' + M.route)
    ctx.note('key model: %s' % M.route_note)

    def attach(owner, attr, cond, params, name, private=False):
        """Postcondition on owner.attr.  icontract.ensure when the function still has the parameter names the
        condition is written for; a positional *args/**kw wrapper when the signature changed (a call whose
        arguments do not have the expected form passes through un-judged and is counted); nothing when the
        function is gone (private restorers may be renamed / merged): `anchor_missing.contract.<name>` then
        waives the requirement on that contract."""
        import functools
        import inspect
        orig = owner.__dict__.get(attr) if isinstance(owner, type) else getattr(owner, attr, None)
        if not callable(orig) or getattr(orig, '__code__', None) is None:
            _s['missing_contracts'].add(name)
            ctx.count('anchor_missing.contract.' + name)
            ctx.note('%s%s not found as a Python function (refactored source?): no postcondition attached, '
                     'requirement waived; the identity sweep judges the same round trips from outside'
                     % ('private ' if private else '', name))
            return
        try:
            sig = list(inspect.signature(orig).parameters)
        except (TypeError, ValueError):
            sig = None
        if sig == list(params):
            setattr(owner, attr, icontract.ensure(cond, error=ContractBroken)(orig))
            return
        ctx.note('%s has parameters %r (expected %r): postcondition attached through a positional wrapper'
                 % (name, sig, list(params)))

        @functools.wraps(orig)
        def judged(*args, **kw):
            result = orig(*args, **kw)
            vals = list(args) + list(kw.values())
            if len(vals) != len(params):
                _s['evals'][name + '.unrecognised_call'] += 1
                return result
            if not cond(*vals, result=result):
                raise ContractBroken('postcondition on %s failed' % name)
            return result
        setattr(owner, attr, judged)

    attach(core.IonSet, '__getitem__', ionset_returns_the_cached_ion_of_that_charge, ('self', 'charge'),
           'IonSet.__getitem__')
    attach(core.PeriodicTable, 'symbol', symbol_returns_the_atom_with_that_symbol, ('self', 'input'),
           'PeriodicTable.symbol')
    attach(core.PeriodicTable, 'name', name_returns_the_atom_with_that_name, ('self', 'input'), 'PeriodicTable.name')
    attach(core.PeriodicTable, 'isotope', isotope_returns_the_atom_the_string_denotes, ('self', 'input'),
           'PeriodicTable.isotope')
    attach(core, '_make_element', make_element_restores_that_element, ('table', 'Z'), '_make_element', private=True)
    attach(core, '_make_isotope', make_isotope_restores_that_isotope, ('table', 'Z', 'n'), '_make_isotope', private=True)
    attach(core, '_make_ion', make_ion_restores_that_ion, ('table', 'Z', 'c'), '_make_ion', private=True)
    attach(core, '_make_isotope_ion', make_isotope_ion_restores_that_isotope_ion, ('table', 'Z', 'n', 'c'),
           '_make_isotope_ion', private=True)

    reach = Reach()
    for owner, attr, label in ((core.Element, '__reduce__', 'Element.__reduce__'),
                               (core.Isotope, '__reduce__', 'Isotope.__reduce__'),
                               (core.Ion, '__reduce__', 'Ion.__reduce__'),
                               (core, 'change_table', 'change_table'),
                               (core.PeriodicTable, '__iter__', 'PeriodicTable.__iter__'),
                               (core.Element, '__iter__', 'Element.__iter__'),
                               (core.Element, 'add_isotope', 'Element.add_isotope'),
                               (core, 'define_elements', 'define_elements')):
        fn = getattr(owner, attr, None)
        if getattr(fn, '__code__', None) is None:
            # e.g. pickling moved to another protocol method: the counter is evidence only
            ctx.count('anchor_missing.reach.' + label)
            ctx.note('%s is not a Python function of the library (refactored source?): reach counter is evidence '
                     'only, requirement waived' % label)
            continue
        reach.watch(fn, label)
    reach.start()
    _s['reach'] = reach
    if not ctx.replay:
        for name in CONTRACTS:
            ctx.require('contract.' + name, 1, 'the postcondition on %s must have been evaluated' % name)
        for name in ('Element.__reduce__', 'Isotope.__reduce__', 'Ion.__reduce__', 'change_table',
                     'PeriodicTable.__iter__', 'Element.__iter__', 'define_elements'):
            ctx.require('reach.' + name, 1, 'the workload must enter this anchored mechanism')
        for what, n in STATED.items():
            ctx.require('census.public.' + what, n, 'the public table must have been seen to hold the %d %s the property names'
                        % (n, what))
        ctx.require('held.atoms', 1, 'atoms kept across a sweep of all other ions must have been re-identified')
        ctx.require('swept.public.element', 119, 'every element of the public table')
        ctx.require('swept.public.isotope', 2940, 'every isotope of the public table')
        ctx.require('swept.public.element_ion', 499, 'every element ion of the public table')
        ctx.require('swept.private.element', 119, 'every element of a private table')
        ctx.require('swept.private.isotope', 2940, 'every isotope of a private table')
        ctx.require('swept.private.element_ion', 499, 'every element ion of a private table')
        n_ii = 14207 if (ctx.thorough() or ISO_STRIDE_QUICK == 1) else 14207 // (2 * ISO_STRIDE_QUICK)
        ctx.require('swept.public.isotope_ion', n_ii, 'isotope ions of the public table')
        ctx.require('swept.private.isotope_ion', n_ii, 'isotope ions of a private table')
        if ctx.thorough():
            ctx.require('swept.private_late.isotope_ion', 14207, 'every isotope ion of the second private table (thorough)')
            ctx.require('swept.public_loaded.isotope_ion', 14207, 'every isotope ion of the public table after all loaders ran')
            ctx.require('swept.bare.element_ion', 499, 'every element ion of the bare private table')
        ctx.require('invalid.raised', 1000, 'invalid neighbour keys must have been tried')


def finish(ctx):
    _s['reach'].stop()
    _s['reach'].export(ctx)
    for name in CONTRACTS:
        ctx.count('contract.' + name, _s['evals'].get(name, 0))
    for name, n in _s['evals'].items():
        if name not in CONTRACTS:
            ctx.count('contract.' + name, n)
    for route, n in _s['owner_routes'].items():
        ctx.count('contract.owner_checked_through.' + route, n)
    ctx.info['iso_stride_quick'] = ISO_STRIDE_QUICK
    ctx.info['pickle_protocols'] = '0..%d' % pickle.HIGHEST_PROTOCOL


# ------------------------------------------------------------------ table variants
def _variants(ctx):
    v = ['public', 'private', 'private_touched_early']
    if ctx.thorough():
        v += ['public_loaded', 'private_late', 'bare']
    return v


def _force_lazy_loaders():
    pt = _s['pt']
    for el in (pt.Fe, pt.Cu):
        el.covalent_radius, el.crystal_structure, el.neutron, el.xray, el.K_alpha, el.magnetic_ff
    pt.Fe[56].neutron_activation
    pt.neutron_sld('H2O', density=1, wavelength=4)
    pt.formula('D2O{2-}Fe[56]{3+}')


def _table(variant):
    """The table of a variant, created on first use (so that a replay file of any
    tier can be re-executed)."""
    tables = _s['tables']
    if variant in tables:
        return tables[variant]
    core = _s['core']
    ctx = _s['ctx']
    from periodictable import mass, density
    if variant == 'private':
        T = core.PeriodicTable('c08_private_%d' % ctx.shard)
        mass.init(T)
    elif variant == 'private_touched_early':
        # a private table used (lookups, iteration, isotope lists, pickles) BEFORE its isotopes are
        # loaded: D and T exist from construction, so this is legal use; then mass.init and the sweep
        import pickle
        T = core.PeriodicTable('c08_early_%d' % ctx.shard)
        for el in T:
            list(el)
            el.isotopes
        T.isotope('2-H'), T.isotope('D'), T.H[3], T.D.ion[1], T.Fe.ion[2], list(T)
        pickle.loads(pickle.dumps([T.D, T.T, T.H, T.Fe.ion[3]]))
        for sym in ('H', 'Fe', 'U'):
            try:
                T.isotope('1-' + sym)
            except ValueError:
                pass
        mass.init(T)
    elif variant == 'public_loaded':
        _force_lazy_loaders()
        T = _s['pt'].elements
    elif variant == 'private_late':
        from periodictable import nsf
        _force_lazy_loaders()
        T = core.PeriodicTable('c08_late_%d' % ctx.shard)
        mass.init(T)
        density.init(T)
        nsf.init(T)       # add_isotope route of a second loader
    elif variant == 'bare':
        T = core.PeriodicTable('c08_bare_%d' % ctx.shard)
        _s['isotopes']['bare'] = {1: [2, 3]}
    else:
        raise KeyError(variant)
    tables[variant] = T
    return T


def _tname(variant):
    T = _table(variant)
    core = _s['core']
    for name, tab in core.PRIVATE_TABLES.items():
        if tab is T:
            return name
    raise TableUnregistered(variant)


class TableUnregistered(Exception):
    """The table object of a variant is alive but no longer found under any name in the registry that pickling uses."""


def _isotopes(variant, Z):
    over = _s['isotopes'].get(variant)
    if over is not None:
        return sorted(over.get(Z, []))
    return _s['model'].isotopes[Z]


def _is_public(variant):
    return variant in ('public', 'public_loaded')


def _label(variant):
    return variant


def _picked_isotopes(isos, Z, stride, offset):
    """Isotopes whose ions are swept: all when stride == 1; otherwise every stride-th
    (rotating offset), always the first and the last, always D and T."""
    if stride <= 1:
        return list(isos)
    out = []
    for i, A in enumerate(isos):
        if i == 0 or i == len(isos) - 1 or (i + offset) % stride == 0 or (Z == 1 and A in ALIASES):
            out.append(A)
    return out


# ------------------------------------------------------------------ small oracles
class _Ev(object):
    """Judgement helpers bound to one case."""

    def __init__(self, ctx, variant):
        self.ctx = ctx
        self.variant = variant

    def fetch(self, route, key, fn):
        """First lookup of a valid key: must not raise (None when it does)."""
        ctx = self.ctx
        ctx.evaluated(what='valid.' + route)
        try:
            return fn()
        except ContractBroken:
            ctx.count('contract.raised')
            return None
        except Exception as exc:
            ctx.violation('%s: route %s for the valid key %r raised %s: %s'
                          % (self.variant, route, key, type(exc).__name__, exc),
                          route=route, key=list(key), kind='route-raised', exc_type=type(exc).__name__)
            return None

    def same(self, route, key, fn, want):
        ctx = self.ctx
        ctx.evaluated(what='identity.' + route)
        try:
            got = fn()
        except ContractBroken:
            ctx.count('contract.raised')
            return None
        except Exception as exc:
            ctx.violation('%s: route %s for key %r raised %s: %s' % (self.variant, route, key, type(exc).__name__, exc),
                          route=route, key=list(key), kind='route-raised', exc_type=type(exc).__name__)
            return None
        if got is not want:
            ctx.violation('%s: route %s for key %r returned %r (id %#x), not the object %r (id %#x) reached by indexing'
                          % (self.variant, route, key, got, id(got), want, id(want)),
                          route=route, key=list(key), kind='not-identical')
        return got

    def field(self, what, key, got, want):
        self.ctx.evaluated(what='field.' + what)
        if got != want or type(got) is not type(want):
            self.ctx.violation('%s: %s of the object for key %r is %r, the key says %r'
                               % (self.variant, what, key, got, want), route='field.' + what, key=list(key),
                               kind='field-mismatch')

    def must_raise(self, route, key, fn, is_ok_value=None):
        """An invalid key must raise (any exception); returning anything else is a violation,
        unless *is_ok_value* accepts it (plain getattr returning a non-atom)."""
        ctx = self.ctx
        ctx.evaluated(what='invalid.' + route)
        try:
            got = fn()
        except ContractBroken:
            ctx.count('contract.raised')
            return
        except Exception:
            ctx.count('invalid.raised')
            ctx.count('invalid.raised.' + route)
            ctx.distinct_case(('invalid', self.variant, route, key))
            return
        if is_ok_value is not None and is_ok_value(got):
            ctx.count('invalid.non_atom_value.' + route)
            return
        ctx.violation('%s: invalid key %r through %s returned %r instead of raising' % (self.variant, key, route, got),
                      route=route, key=key if isinstance(key, (str, int, float, type(None))) else list(key),
                      kind='invalid-accepted')

    def soft_invalid(self, route, key, fn, denoted):
        """A spelling outside the design's invalid list (white-space padding, other number
        notations, formula-style tags): raising is the expected outcome; returning exactly the
        atom the spelling would denote under a lenient reading is an observation; returning
        anything else is a violation."""
        ctx = self.ctx
        ctx.evaluated(what='invalid.' + route)
        try:
            got = fn()
        except ContractBroken:
            ctx.count('contract.raised')
            return
        except Exception:
            ctx.count('invalid.raised')
            ctx.count('invalid.raised.' + route)
            ctx.distinct_case(('invalid', self.variant, route, key))
            return
        if got is denoted:
            ctx.count('lenient.accepted.' + route)
            return
        ctx.violation('%s: malformed key %r through %s returned %r, which is not even the atom %r a lenient reading denotes'
                      % (self.variant, key, route, got, denoted), route=route, key=key, kind='invalid-accepted')

    def lenient(self, kind, text, fn, want):
        """Lenient spelling: observation only, but a returned object must be the atom the
        spelling denotes numerically."""
        ctx = self.ctx
        ctx.evaluated(what='lenient.' + kind)
        try:
            got = fn()
        except ContractBroken:
            ctx.count('contract.raised')
            return
        except Exception:
            ctx.count('lenient.rejected.' + kind)
            return
        if got is want:
            ctx.count('lenient.accepted.' + kind)
        else:
            ctx.violation('%s: lenient spelling %r returned %r, not the atom %r it denotes' % (self.variant, text, got, want),
                          route='lenient.' + kind, key=text, kind='lenient-other-object')


def _not_atom(v):
    return not _s['core'].isatom(v)


def _drain(ctx):
    """Report failures recorded by the in-process postconditions during this case."""
    lst = _s['broken']
    for contract, text in lst:
        ctx.violation('postcondition on %s failed: %s' % (contract, text), route='contract.' + contract,
                      kind='contract', contract=contract)
    del lst[:]


def _guarded(fn):
    def run(ctx, case):
        _s['ctx'] = ctx
        try:
            fn(ctx, case)
        except ContractBroken:
            ctx.count('contract.raised')
        except TableUnregistered as exc:
            ctx.violation('the table of variant %r is alive but no longer registered under its name: its atoms cannot be '
                          'pickled and restored any more (a refused request - a second table of the same name, an invalid '
                          'lookup - must not remove it)' % (exc.args[0],), kind='table-unregistered', route='registry')
        finally:
            _drain(ctx)
    run.__name__ = fn.__name__
    return run


def _protocols(case):
    return case.get('protocols') or list(range(0, pickle.HIGHEST_PROTOCOL + 1))


# ------------------------------------------------------------------ element sweep
def _roundtrips(ev, key, obj, protocols, tname):
    for p in protocols:
        ev.same('pickle%d' % p, key, lambda: pickle.loads(pickle.dumps(obj, p)), obj)
    ev.same('copy.copy', key, lambda: copy.copy(obj), obj)
    ev.same('copy.deepcopy', key, lambda: copy.deepcopy(obj), obj)


def _fields(ev, key, obj, base, M, tname):
    """number / symbol / name / isotope / charge / table of the object match the key."""
    core = _s['core']
    Z, A, q = key
    sym, name = M.names_of(Z, A)
    ev.field('number', key, obj.number, Z)
    ev.field('symbol', key, obj.symbol, sym)
    ev.field('name', key, obj.name, name)
    ev.field('charge', key, obj.charge, q)
    ev.field('table', key, obj.table, tname)
    ev.field('ions', key, tuple(obj.ions), M.ions[Z])
    if A:
        ev.field('isotope', key, obj.isotope, A)
    else:
        ev.field('isotope', key, getattr(obj, 'isotope', 0) or 0, 0)
    want_type = core.Ion if q else (core.Isotope if A else core.Element)
    ev.field('type', key, type(obj).__name__, want_type.__name__)
    ev.field('predicates', key, (core.isatom(obj), core.ision(obj), core.isisotope(obj), core.iselement(obj)),
             (True, bool(q), bool(A), not A))
    if q:
        ev.ctx.evaluated(what='field.ion.element')
        if obj.element is not base:
            ev.ctx.violation('%s: .element of the ion for key %r is %r, not the object for %r'
                             % (ev.variant, key, obj.element, (Z, A, 0)), route='field.element', key=list(key),
                             kind='field-mismatch')


def check_element(ctx, case):
    pt, core, M = _s['pt'], _s['core'], _s['model']
    variant, Z = case['table'], case['Z']
    T = _table(variant)
    tname = _tname(variant)
    public = _is_public(variant)
    lab = _label(variant)
    ev = _Ev(ctx, variant)
    protocols = _protocols(case)
    sym, name = M.sym[Z], M.name[Z]
    ions = M.ions[Z]
    swept = []

    # --- on-demand isotopes (bare table): created once, then found again
    for A in case.get('add', []):
        e0 = T[Z]
        had = A in e0.isotopes
        ev.ctx.evaluated(2, 'add_isotope')
        new = e0.add_isotope(A)
        again = e0.add_isotope(A)
        if new is not again or type(new) is not core.Isotope or new.isotope != A or new.element is not e0:
            ctx.violation('%s: add_isotope(%d) on %s gave %r then %r' % (variant, A, sym, new, again),
                          route='add_isotope', key=[Z, A, 0], kind='not-identical')
        if not had:
            _s['isotopes'].setdefault(variant, {}).setdefault(Z, [])
            if A not in _s['isotopes'][variant][Z]:
                _s['isotopes'][variant][Z].append(A)
    isos = _isotopes(variant, Z)

    # --- the element
    key = (Z, 0, 0)
    try:
        e = T[Z]
    except Exception as exc:
        ctx.violation('%s: T[%d] raised %s: %s' % (variant, Z, type(exc).__name__, exc), route='T[Z]', key=list(key),
                      kind='route-raised')
        return
    ev.same('T[Z].again', key, lambda: T[Z], e)
    ev.same('getattr(T,sym)', key, lambda: getattr(T, sym), e)
    ev.same('T.symbol', key, lambda: T.symbol(sym), e)
    ev.same('T.name', key, lambda: T.name(name), e)
    ev.same('T.isotope(sym)', key, lambda: T.isotope(sym), e)
    if public:
        ev.same('module.symbol', key, lambda: getattr(pt, sym), e)
        ev.same('module.name', key, lambda: getattr(pt, name), e)
        ev.same('default_table', key, lambda: core.default_table()[Z], e)
    else:
        ctx.evaluated(what='identity.not-public')
        if e is pt.elements[Z]:
            ctx.violation('%s: T[%d] is the public table\'s object' % (variant, Z), route='T[Z]', key=list(key),
                          kind='shared-between-tables')
    ev.lenient('0-Sym', '0-' + sym, lambda: T.isotope('0-' + sym), e)
    _fields(ev, key, e, e, M, tname)
    _roundtrips(ev, key, e, protocols, tname)
    ctx.distinct_case((variant, Z, 0, 0))
    ctx.count('swept.%s.element' % lab)
    swept.append(e)

    # --- the list of mass numbers handed to a caller is the caller's: reversing it, cutting it down or appending to
    #     it changes neither the next list nor the iteration nor the string lookups
    try:
        mine = e.isotopes
        if isinstance(mine, list) and mine:
            mine.reverse()
            del mine[:max(1, len(mine) // 2)]
            mine.append(1000)
            ctx.count('scribbled.isotope_lists')
        ions_seen = e.ions
        if isinstance(ions_seen, list):
            ions_seen.append(99)
            ions_seen.reverse()
    except Exception:
        pass
    ctx.evaluated(1, 'isotope-list-after-edit')
    if list(e.isotopes) != isos:
        ctx.violation('%s: %s.isotopes is %r after the list returned by an earlier read was edited by its owner, expected %r'
                      % (variant, sym, list(e.isotopes)[:12], isos[:12]), route='isotopes', key=list(key), kind='live-list')

    # --- iteration over the isotopes: increasing A, exactly once, the same objects
    ctx.evaluated(3, 'iteration.isotopes')
    listed = list(e)
    As = [getattr(i, 'isotope', None) for i in listed]
    if As != isos:
        ctx.violation('%s: iterating %s visits isotopes %r, expected %r (increasing, once each)'
                      % (variant, sym, As[:12], isos[:12]), route='Element.__iter__', key=list(key), kind='iteration')
        return
    if list(e.isotopes) != isos:
        ctx.violation('%s: %s.isotopes is %r, expected %r' % (variant, sym, e.isotopes[:12], isos[:12]),
                      route='Element.isotopes', key=list(key), kind='iteration')
    second = list(e)
    if len(second) != len(listed) or any(a is not b for a, b in zip(listed, second)):
        ctx.violation('%s: two iterations over %s give different objects' % (variant, sym), route='Element.__iter__',
                      key=list(key), kind='iteration')

    # visiting order of charges and isotopes: natural for order 0, else shuffled (cache-order effects)
    ions_order, isos_order = list(ions), list(isos)
    if case.get('order'):
        import random
        r = random.Random(case['order'])
        r.shuffle(ions_order)
        r.shuffle(isos_order)
    pos = {A: n for n, A in enumerate(isos)}

    # --- element ions
    for q in ions_order:
        key = (Z, 0, q)
        x = ev.fetch('.ion[q]', key, lambda: e.ion[q])
        if x is None:
            continue
        ev.same('.ion[q].again', key, lambda: e.ion[q], x)
        ev.same('T.symbol.ion[q]', key, lambda: T.symbol(sym).ion[q], x)
        _fields(ev, key, x, e, M, tname)
        _roundtrips(ev, key, x, protocols, tname)
        ctx.distinct_case((variant, Z, 0, q))
        ctx.count('swept.%s.element_ion' % lab)
        swept.append(x)

    # --- isotopes and their ions
    picked = set(_picked_isotopes(isos, Z, case.get('stride', 1), case.get('offset', 0)))
    for A in isos_order:
        idx = pos[A]
        key = (Z, A, 0)
        try:
            i = e[A]
        except Exception as exc:
            ctx.violation('%s: %s[%d] raised %s: %s' % (variant, sym, A, type(exc).__name__, exc), route='element[A]',
                          key=list(key), kind='route-raised')
            continue
        ev.same('element[A].again', key, lambda: e[A], i)
        ev.same('iteration', key, lambda: listed[idx], i)
        ev.same("T.isotope('A-Sym')", key, lambda: T.isotope('%d-%s' % (A, sym)), i)
        ev.same('add_isotope(existing)', key, lambda: e.add_isotope(A), i)
        ev.same('getattr(T,sym)[A]', key, lambda: getattr(T, sym)[A], i)
        for kind, text in (('0A-Sym', '0%d-%s' % (A, sym)), (' A-Sym', ' %d-%s' % (A, sym)),
                           ('+A-Sym', '+%d-%s' % (A, sym)), ('A -Sym', '%d -%s' % (A, sym))):
            ev.lenient(kind, text, lambda: T.isotope(text), i)
        if A >= 10:
            text = '%s_%s-%s' % (str(A)[:-1], str(A)[-1], sym)
            ev.lenient('A_A-Sym', text, lambda: T.isotope(text), i)
        if Z == 1 and A in ALIASES:
            asym, aname = ALIASES[A]
            ev.same('getattr(T,alias)', key, lambda: getattr(T, asym), i)
            ev.same('T.symbol(alias)', key, lambda: T.symbol(asym), i)
            ev.same('T.name(alias)', key, lambda: T.name(aname), i)
            ev.same('T.isotope(alias)', key, lambda: T.isotope(asym), i)
            ev.lenient('0-alias', '0-' + asym, lambda: T.isotope('0-' + asym), i)
            if public:
                ev.same('module.alias-symbol', key, lambda: getattr(pt, asym), i)
                ev.same('module.alias-name', key, lambda: getattr(pt, aname), i)
        ctx.evaluated(what='field.isotope.element')
        if i.element is not e:
            ctx.violation('%s: .element of %s[%d] is not T[%d]' % (variant, sym, A, Z), route='field.element',
                          key=list(key), kind='field-mismatch')
        _fields(ev, key, i, e, M, tname)
        _roundtrips(ev, key, i, protocols, tname)
        ctx.distinct_case((variant, Z, A, 0))
        ctx.count('swept.%s.isotope' % lab)
        swept.append(i)
        if A not in picked:
            continue
        for q in (ions_order if A % 2 else ions_order[::-1]):
            key = (Z, A, q)
            y = ev.fetch('isotope.ion[q]', key, lambda: i.ion[q])
            if y is None:
                continue
            ev.same('isotope.ion[q].again', key, lambda: i.ion[q], y)
            ev.same("T.isotope('A-Sym').ion[q]", key, lambda: T.isotope('%d-%s' % (A, sym)).ion[q], y)
            _fields(ev, key, y, i, M, tname)
            _roundtrips(ev, key, y, protocols, tname)
            ctx.distinct_case((variant, Z, A, q))
            ctx.count('swept.%s.isotope_ion' % lab)
            swept.append(y)

    # --- all objects of this element are pairwise different objects
    ctx.evaluated(what='distinct-objects')
    if len({id(o) for o in swept}) != len(swept):
        ctx.violation('%s: %d keys of %s map to only %d objects' % (variant, len(swept), sym, len({id(o) for o in swept})),
                      route='distinct', key=[Z, 0, 0], kind='keys-share-object')
    # --- one pickle / one deepcopy of the whole list with repeats (memo paths)
    bulk = swept + swept[::3] + [swept, {'k': swept[-1]}]
    for p in (protocols[0], protocols[-1]):
        ctx.evaluated(what='identity.bulk-pickle')
        back = pickle.loads(pickle.dumps(bulk, p))
        _bulk_same(ctx, variant, Z, 'bulk-pickle%d' % p, bulk, back, len(swept))
    ctx.evaluated(what='identity.bulk-deepcopy')
    _bulk_same(ctx, variant, Z, 'bulk-deepcopy', bulk, copy.deepcopy(bulk), len(swept))
    # atoms as dictionary keys survive a round trip
    ctx.evaluated(what='identity.dict-keys')
    d = {a: n for n, a in enumerate(swept)}
    back = pickle.loads(pickle.dumps(d))
    if len(back) != len(d) or any(back.get(a) != n for a, n in d.items()):
        ctx.violation('%s: a dict keyed by the atoms of %s does not survive pickling' % (variant, sym), route='dict-keys',
                      key=[Z, 0, 0], kind='not-identical')
    # cache holds only valid charges
    cached = _ionset_cache(ctx, e)
    if cached is not None:
        ctx.evaluated(what='ionset-state')
        if not set(cached) <= set(ions):
            ctx.violation('%s: IonSet cache of %s holds charges %r outside %r' % (variant, sym, sorted(cached), ions),
                          route='ionset-state', key=[Z, 0, 0], kind='cache-state')


def _ionset_cache(ctx, e):
    """The charges an element's IonSet has cached (attribute `ionset`, a dict keyed by charge), or None when
    the cache is kept in another form: its layout is the library's business, the state check is then skipped
    (a rejected charge that was cached would still show in the must-raise sweep, which asks twice)."""
    cache = getattr(getattr(e, 'ion', None), 'ionset', None)
    if not isinstance(cache, dict):
        ctx.count('skipped.ionset_state.cache_layout_unknown')
        return None
    return list(cache)


def _bulk_same(ctx, variant, Z, route, bulk, back, n):
    flat_a = bulk[:-2] + list(bulk[-2]) + [bulk[-1]['k']]
    try:
        flat_b = back[:-2] + list(back[-2]) + [back[-1]['k']]
    except Exception as exc:
        ctx.violation('%s: %s of the atoms of Z=%d has another shape (%s)' % (variant, route, Z, exc), route=route,
                      key=[Z, 0, 0], kind='not-identical')
        return
    bad = [k for k, (a, b) in enumerate(zip(flat_a, flat_b)) if a is not b]
    if bad or len(flat_a) != len(flat_b):
        ctx.violation('%s: %s of the %d atoms of Z=%d returns %d other objects (first: %r -> %r)'
                      % (variant, route, n, Z, len(bad), flat_a[bad[0]] if bad else None, flat_b[bad[0]] if bad else None),
                      route=route, key=[Z, 0, 0], kind='not-identical')


# ------------------------------------------------------------------ invalid neighbours
def _symbol_variants(sym):
    """Case flips, truncations and extensions: each denotes a symbol the table does not define."""
    return {sym.lower(), sym.upper(), sym.swapcase(), sym + 'x', sym[0], sym[:-1], sym + '1',
            sym + sym, sym[::-1], sym.lower() + sym.lower()}


def _padded(text):
    """White-space padding only (not in the design's invalid list: soft)."""
    return [' ' + text, text + ' ', text + '\n', '\t' + text]


def _name_variants(name):
    return {name.upper(), name.capitalize(), name.swapcase(), name + 's', name[:-1], name[1:],
            name[:3], name[:1], name + name, name.title() + ' '}


def check_invalid(ctx, case):
    pt, core, M = _s['pt'], _s['core'], _s['model']
    variant, Z = case['table'], case['Z']
    T = _table(variant)
    public = _is_public(variant)
    ev = _Ev(ctx, variant)
    sym, name = M.sym[Z], M.name[Z]
    ions = M.ions[Z]
    isos = _isotopes(variant, Z)
    e = T[Z]
    someA = isos[0] if isos else 1

    symbols = [(sym, _symbol_variants(sym))]
    names = [(name, _name_variants(name))]
    if Z == 1:
        for asym, aname in ALIASES.values():
            symbols.append((asym, _symbol_variants(asym)))
            names.append((aname, _name_variants(aname)))
    # --- symbols: case flips, truncations, extensions
    for _, variants in symbols:
        for v in sorted(variants - M.valid_symbols):
            ev.must_raise('T.symbol', v, lambda: T.symbol(v))
            ev.must_raise('T.isotope(sym)', v, lambda: T.isotope(v))
            ev.must_raise("T.isotope('A-sym')", '%d-%s' % (someA, v), lambda: T.isotope('%d-%s' % (someA, v)))
            ev.must_raise('getattr(T,sym)', v, lambda: getattr(T, v), _not_atom)
            if v not in M.valid_names:
                ev.must_raise('T.name(sym)', v, lambda: T.name(v))
                if public:
                    ev.must_raise('module.attr', v, lambda: getattr(pt, v), _not_atom)
    # white-space padding of symbols and names (soft: see _Ev.soft_invalid)
    targets = [(sym, name, e)]
    if Z == 1:
        targets += [(a[0], a[1], e[A]) for A, a in ALIASES.items() if A in isos]
    for s_, n_, obj in targets:
        for v in _padded(s_):
            ev.soft_invalid('T.symbol(padded)', v, lambda: T.symbol(v), obj)
            ev.soft_invalid('T.isotope(padded)', v, lambda: T.isotope(v), obj)
            ev.must_raise('getattr(T,padded)', v, lambda: getattr(T, v), _not_atom)
        for v in _padded(n_):
            ev.soft_invalid('T.name(padded)', v, lambda: T.name(v), obj)
    # a symbol is not a name, a name is not a symbol
    # (soft: a route that also understood the other kind of key would have to return this very element)
    ev.soft_invalid('T.name(symbol)', sym, lambda: T.name(sym), e)
    ev.soft_invalid('T.symbol(name)', name, lambda: T.symbol(name), e)
    ev.soft_invalid('T.isotope(name)', name, lambda: T.isotope(name), e)
    if isos:
        ev.soft_invalid("T.isotope('A-name')", '%d-%s' % (someA, name), lambda: T.isotope('%d-%s' % (someA, name)), e[someA])
    ev.soft_invalid('getattr(T,name)', name, lambda: getattr(T, name), e)
    # --- names
    for _, variants in names:
        for v in sorted(variants - M.valid_names):
            ev.must_raise('T.name', v, lambda: T.name(v))
            if v not in M.valid_symbols:
                ev.must_raise('T.symbol(name)', v, lambda: T.symbol(v))
                ev.must_raise('T.isotope(name)', v, lambda: T.isotope(v))
                if public:
                    ev.must_raise('module.attr', v, lambda: getattr(pt, v), _not_atom)
    # --- isotope numbers that the element does not have
    have = set(isos)
    cand = ({a + d for a in have for d in (-1, 1)} | {0, -1, 1, 1000, -someA, (max(have) if have else 1) + 10}) - have
    for A in sorted(cand):
        ev.must_raise('element[A]', (Z, A), lambda: e[A])
        if A != 0:     # '0-Sym' is a lenient spelling of the element
            ev.must_raise("T.isotope('A-Sym')", '%d-%s' % (A, sym), lambda: T.isotope('%d-%s' % (A, sym)))
            if A > 0:
                ev.must_raise("T.isotope('0A-Sym')", '0%d-%s' % (A, sym), lambda: T.isotope('0%d-%s' % (A, sym)))
    for A in (isos[:1] + isos[-1:]):
        for odd in (str(A), A + 0.5, None, (A,), '%d-%s' % (A, sym)):
            ev.must_raise('element[odd]', repr((sym, odd)), lambda: e[odd])
    # --- D and T take no isotope number
    if Z == 1:
        for asym, _ in ALIASES.values():
            for A in (1, 2, 3, 4, -2):
                ev.must_raise("T.isotope('A-D')", '%d-%s' % (A, asym), lambda: T.isotope('%d-%s' % (A, asym)))
            ev.must_raise('alias[A]', asym, lambda: getattr(T, asym)[2])
    # --- malformed 'A-Sym' strings around every valid isotope
    for A in isos:
        i = e[A]
        # the design's list: 'A-Sym-x', 'Sym-A', 'A-', '-Sym', negative A, unknown (doubled) symbol
        for bad in ('%d-%s-1' % (A, sym), '%s-%d' % (sym, A), '%d-' % A, '-%s' % sym, '%d-%s-' % (A, sym),
                    '-%d-%s' % (A, sym), '%d-%s%s' % (A, sym, sym), '%d-%s-%d' % (A, sym, A), '%d-%s-x' % (A, sym)):
            ev.must_raise("T.isotope(malformed)", bad, lambda: T.isotope(bad))
        # other notations of the same numbers and letters (soft)
        for bad in ('%d-%s ' % (A, sym), '%d- %s' % (A, sym), '%d.0-%s' % (A, sym), '%d_-%s' % (A, sym),
                    '%d--%s' % (A, sym), '%s[%d]' % (sym, A), '%d %s' % (A, sym), '%d%s' % (A, sym),
                    '%de0-%s' % (A, sym), '0x%x-%s' % (A, sym)):
            ev.soft_invalid("T.isotope(other notation)", bad, lambda: T.isotope(bad), i)
        for v in sorted({sym.lower(), sym.upper(), sym.swapcase()}):
            vz = M.Z_of_sym.get(v)
            if v == sym or v in ('D', 'T') or (vz is not None and A in _isotopes(variant, vz)):
                continue
            ev.must_raise("T.isotope('A-sym')", '%d-%s' % (A, v), lambda: T.isotope('%d-%s' % (A, v)))
    # --- charges that the element does not have
    badq = sorted(({c + d for c in ions for d in (-1, 1)} | {0, 10, -10, 100}) - set(ions))
    picked = _picked_isotopes(isos, Z, case.get('stride', 1), case.get('offset', 0))
    for q in badq:
        for rep in (1, 2):    # twice: a rejected charge must not have been cached
            ev.must_raise('.ion[q]', (Z, 0, q), lambda: e.ion[q])
        for A in picked:
            i = e[A]
            ev.must_raise('isotope.ion[q]', (Z, A, q), lambda: i.ion[q])
    for odd in ('1', None, 1.5, (1,), '+'):
        ev.must_raise('.ion[odd]', repr((sym, odd)), lambda: e.ion[odd])
    cached = _ionset_cache(ctx, e)
    if cached is not None:
        ctx.evaluated(what='ionset-state')
        if not set(cached) <= set(ions):
            ctx.violation('%s: IonSet cache of %s holds rejected charges %r' % (variant, sym, sorted(cached)),
                          route='ionset-state', key=[Z, 0, 0], kind='cache-state')


# ------------------------------------------------------------------ whole-table checks
def check_table(ctx, case):
    pt, core, M = _s['pt'], _s['core'], _s['model']
    variant = case['table']
    T = _table(variant)
    tname = _tname(variant)
    public = _is_public(variant)
    ev = _Ev(ctx, variant)
    # iteration: increasing Z, exactly once, the table's own objects
    ctx.evaluated(3, 'iteration.elements')
    listed = list(T)
    zs = [getattr(el, 'number', None) for el in listed]
    if zs != M.zs:
        ctx.violation('%s: iterating the table visits Z = %r..., expected 0..118 increasing, once each' % (variant, zs[:8]),
                      route='PeriodicTable.__iter__', kind='iteration')
        return
    if any(el is not T[z] for el, z in zip(listed, zs)):
        ctx.violation('%s: iteration yields objects that are not T[Z]' % variant, route='PeriodicTable.__iter__',
                      kind='iteration')
    if any(a is not b for a, b in zip(listed, list(T))):
        ctx.violation('%s: two iterations yield different objects' % variant, route='PeriodicTable.__iter__',
                      kind='iteration')
    # census against the model
    n_iso = sum(len(el.isotopes) for el in listed)
    n_ion = sum(len(el.ions) for el in listed)
    n_isoion = sum(len(el.ions) * len(el.isotopes) for el in listed)
    ctx.evaluated(2, 'census')
    for el in listed:
        if list(el.isotopes) != _isotopes(variant, el.number) or tuple(el.ions) != M.ions[el.number]:
            ctx.violation('%s: %s has isotopes %r / ions %r; the model says %r / %r'
                          % (variant, el.symbol, el.isotopes[:8], el.ions, _isotopes(variant, el.number)[:8],
                             M.ions[el.number]), route='census', kind='census')
            break
    for Z, s in M.mass_symbol.items():
        if M.sym.get(Z) != s:
            ctx.violation('element_base names Z=%d %r, the mass table %r' % (Z, M.sym.get(Z), s), route='census',
                          kind='census')
    if variant == 'public':
        ctx.count('census.public.elements', len(listed))
        ctx.count('census.public.isotopes', n_iso)
        ctx.count('census.public.element_ions', n_ion)
        ctx.count('census.public.isotope_ions', n_isoion)
    ctx.info['census.' + variant] = [len(listed), n_iso, n_ion, n_isoion]
    # registry: the table is restorable by its name, and is not another table
    ctx.evaluated(2, 'registry')
    get_table = getattr(core, '_get_table', None)       # private helper: used when present
    if core.PRIVATE_TABLES.get(tname) is not T or (callable(get_table) and get_table(tname) is not T):
        ctx.violation('%s: PRIVATE_TABLES[%r] is not the table' % (variant, tname), route='registry', kind='registry')
    if public and (T is not core.PUBLIC_TABLE or core.default_table() is not T or tname != core.PUBLIC_TABLE_NAME):
        ctx.violation('public table is not core.PUBLIC_TABLE / default_table()', route='registry', kind='registry')
    if not public and core.default_table(T) is not T:
        ctx.violation('default_table(T) is not T', route='registry', kind='registry')
    ev.must_raise('PeriodicTable(existing name)', tname, lambda: core.PeriodicTable(tname))
    if callable(get_table):
        ev.must_raise('_get_table(unknown)', tname + '?', lambda: get_table(tname + '?'))
    else:
        ctx.count('skipped.registry._get_table_absent')
    blob = pickle.dumps(T.Fe)
    forged = blob.replace(tname.encode(), (tname[:-1] + '?').encode())
    if forged != blob:
        ev.must_raise('pickle of unknown table', tname + '?', lambda: pickle.loads(forged))
    else:       # the stream does not carry the table name as text: nothing to forge
        ctx.count('skipped.registry.pickle_stream_without_table_name')
    # odd keys of the table
    for odd in (-1, 119, 120, 200, 1.5, 0.5, '1', '26', None, 'Fe', 'iron', (26,), 1e3, -0.5):
        ev.must_raise('T[odd]', repr(odd), lambda: T[odd])
    # attribute names of the table that are not elements
    attrs = set(NON_ELEMENT_ATTRS) | {a for a in dir(T) if a not in M.valid_symbols}
    ctx.count('table.non_element_attrs', len(attrs))
    for a in sorted(attrs):
        ev.must_raise('T.symbol(attr)', a, lambda: T.symbol(a))
        ev.must_raise('T.isotope(attr)', a, lambda: T.isotope(a))
        ev.must_raise("T.isotope('A-attr')", '1-' + a, lambda: T.isotope('1-' + a))
        ev.must_raise('T.name(attr)', a, lambda: T.name(a))
    for odd in (None, 26, 1.5, b'Fe', ('Fe',), ['Fe']):
        ev.must_raise('T.symbol(non-string)', repr(odd), lambda: T.symbol(odd))
        ev.must_raise('T.isotope(non-string)', repr(odd), lambda: T.isotope(odd))
        ev.must_raise('T.name(non-string)', repr(odd), lambda: T.name(odd))
    # every attribute of the table that is an atom is the atom of that symbol
    ctx.evaluated(what='table-attributes')
    for a in dir(T):
        v = getattr(T, a)
        if core.isatom(v):
            if a in M.Z_of_sym:
                ok = v is T[M.Z_of_sym[a]]
            elif a in ('D', 'T'):
                ok = v is T[1][2 if a == 'D' else 3]
            else:
                ok = False
            if not ok:
                ctx.violation('%s: table attribute %r is the atom %r' % (variant, a, v), route='table-attributes', key=a,
                              kind='not-identical')
    # define_elements into a fresh namespace
    ns = {}
    names = core.define_elements(T, ns)
    ctx.evaluated(3, 'define_elements')
    want = set(M.valid_symbols) | set(M.valid_names)
    if set(names) != want or set(ns) != want or len(names) != len(set(names)):
        ctx.violation('%s: define_elements exports %d names, expected %d (difference %r)'
                      % (variant, len(names), len(want), sorted(set(names) ^ want)[:8]), route='define_elements',
                      kind='define_elements')
    for Z in M.zs:
        for k in (M.sym[Z], M.name[Z]):
            ev.same('define_elements', (Z, 0, 0), lambda: ns[k], T[Z])
    for A, (asym, aname) in ALIASES.items():
        for k in (asym, aname):
            ev.same('define_elements', (1, A, 0), lambda: ns[k], T[1][A])
    if public:
        ctx.evaluated(2, 'module-exports')
        missing = sorted(want - set(pt.__all__))
        if missing:
            ctx.violation('periodictable.__all__ lacks %r' % missing[:8], route='module-exports', kind='define_elements')
        extra = sorted(k for k, v in vars(pt).items() if core.isatom(v) and k not in want)
        if extra:
            ctx.violation('periodictable exports atoms under unexpected names %r' % extra[:8], route='module-exports',
                          kind='define_elements')
    ctx.distinct_case(('table', variant))


# ------------------------------------------------------------------ moving atoms between tables
def check_move(ctx, case):
    pt, core, M = _s['pt'], _s['core'], _s['model']
    from ..atoms import key as akey
    src_v, dst_v, Z = case['src'], case['dst'], case['Z']
    S, D = _table(src_v), _table(dst_v)
    dname = _tname(dst_v)
    variant = '%s->%s' % (src_v, dst_v)
    ev = _Ev(ctx, variant)
    sym = M.sym[Z]
    ions = M.ions[Z]
    isos_s = _isotopes(src_v, Z)
    isos_d = set(_isotopes(dst_v, Z))
    picked = set(_picked_isotopes(isos_s, Z, case.get('stride', 1), case.get('offset', 0)))
    keys = [(Z, 0, 0)] + [(Z, 0, q) for q in ions]
    for A in isos_s:
        keys.append((Z, A, 0))
        if A in picked:
            keys.extend((Z, A, q) for q in ions)
    moved = []
    for key in keys:
        z, A, q = key
        a = S[z]
        if A:
            a = a[A]
        if q:
            a = a.ion[q]
        if A and A not in isos_d:
            ev.must_raise('change_table(isotope absent in destination)', key, lambda: core.change_table(a, D))
            continue
        ctx.evaluated(what='identity.change_table')
        try:
            b = core.change_table(a, D)
        except ContractBroken:
            continue
        except Exception as exc:
            ctx.violation('%s: change_table(%r) raised %s: %s' % (variant, a, type(exc).__name__, exc),
                          route='change_table', key=list(key), kind='route-raised')
            continue
        # the destination's own object, reached by another route than plain indexing
        if A:
            want = D.isotope('%d-%s' % (A, sym))
        else:
            want = D.symbol(sym)
        if q:
            want = want.ion[q]
        try:
            kb = akey(b)
            tb = b.table
        except Exception:
            kb, tb = None, None
        if b is not want or kb != key or tb != dname or type(b) is not type(a) or ((S is not D) and b is a):
            ctx.violation('%s: change_table(%r) returned %r (key %r, table %r); expected the destination\'s own %r'
                          % (variant, a, b, kb, tb, key), route='change_table', key=list(key), kind='change_table')
        if S is D:
            ctx.evaluated(what='identity.change_table.same-table')
            if b is not a:
                ctx.violation('%s: change_table to the atom\'s own table returned another object for %r' % (variant, key),
                              route='change_table', key=list(key), kind='change_table')
        ctx.distinct_case(('move', src_v, dst_v) + key)
        ctx.count('moved.atoms')
        moved.append((key, a, want))
    if len(moved) < 1:
        return
    # Formula.change_table: nested structure holding every moved atom, plus hydrogen
    from periodictable import formulas
    inner = tuple((n % 5 + 1, a) for n, (_, a, _) in enumerate(moved[1:]))
    structure = ((2, S[1]), (1, moved[0][1]))
    if inner:
        structure = structure + ((3, inner),)
    ctx.evaluated(what='identity.Formula.change_table')
    try:
        f = formulas.Formula(structure=structure, density=1.0)
        before = {akey(a): c for a, c in f.atoms.items()}
        g = f.change_table(D)
        after = g.atoms
    except ContractBroken:
        return
    except Exception as exc:
        ctx.violation('%s: Formula.change_table for the atoms of %s raised %s: %s' % (variant, sym, type(exc).__name__, exc),
                      route='Formula.change_table', key=[Z, 0, 0], kind='route-raised')
        return
    wanted = {id(w): k for k, _, w in moved}
    wanted[id(D[1])] = (1, 0, 0)
    got = {}
    for atom, count in after.items():
        k = wanted.get(id(atom))
        if k is None:
            ctx.violation('%s: Formula.change_table produced %r which is not an object of the destination table'
                          % (variant, atom), route='Formula.change_table', key=[Z, 0, 0], kind='change_table')
            return
        got[k] = got.get(k, 0) + count
    if got != before:
        diff = sorted(set(got.items()) ^ set(before.items()))[:4]
        ctx.violation('%s: Formula.change_table changed the composition of the atoms of %s: %r' % (variant, sym, diff),
                      route='Formula.change_table', key=[Z, 0, 0], kind='change_table')
    ctx.count('moved.formulas')


def check_held(ctx, case):
    """Identity over a long run: a handful of atoms (ions, isotope ions, isotopes) are taken and kept; then EVERY ion
    and isotope ion of the table and of a second table is looked up once (some 30 000 objects); afterwards each kept
    atom is still the one object its table serves - by lookup, by pickle round trip and by deepcopy."""
    import copy
    rng = random.Random(case['seed'])
    M = _s['model']
    tabs = [(v, _table(v)) for v in case['tables']]
    held = []
    for v, T in tabs:
        for _ in range(case['n']):
            Z = rng.choice([z for z in M.zs if z > 0])
            el = T[Z]
            isos = _isotopes(v, Z)
            kind = rng.choice(['ion', 'isoion', 'isoion', 'iso'])
            if kind == 'ion' and el.ions:
                q = rng.choice(el.ions)
                held.append((v, T, (Z, 0, q), el.ion[q]))
            elif kind == 'isoion' and el.ions and isos:
                A, q = rng.choice(isos), rng.choice(el.ions)
                held.append((v, T, (Z, A, q), el[A].ion[q]))
            elif isos:
                A = rng.choice(isos)
                held.append((v, T, (Z, A, 0), el[A]))
    swept = 0
    for v, T in tabs:
        for Z in M.zs:
            el = T[Z]
            for q in el.ions:
                el.ion[q]
                swept += 1
            for A in _isotopes(v, Z):
                iso = el[A]
                for q in el.ions:
                    iso.ion[q]
                    swept += 1
    ctx.count('held.swept_ions', swept)
    # requests the library refuses (caught by the caller) change nothing either: an undefined charge of the kept atoms'
    # elements, an isotope that does not exist, a second table under a name that is taken
    core = _s['core']
    for v, T, (Z, A, q), obj in held:
        for bad in (lambda: T[Z].ion[99], lambda: T[Z].ion[-77], lambda: T[Z][999], lambda: T.isotope('999-' + T[Z].symbol),
                    lambda: (T[Z][A] if A else T[Z]).ion[98]):
            try:
                bad()
                ctx.count('held.refused_request.answered')
            except Exception:
                ctx.count('held.refused_request.refused')
    for name in sorted(set([_tname(v) for v, _T in tabs] + ['public'])):
        try:
            core.PeriodicTable(name)
            ctx.count('held.second_table_same_name.accepted')
        except Exception:
            ctx.count('held.second_table_same_name.refused')
    for v, T, (Z, A, q), obj in held:
        again = T[Z]
        if A:
            again = again[A]
        if q:
            again = again.ion[q]
        ctx.evaluated(3, 'held-identity')
        ctx.count('held.atoms')
        what = '%s table: %r kept while %d other ions were looked up' % (v, obj, swept)
        if again is not obj:
            ctx.violation('%s: the table now serves another object for (Z, A, charge) = %r' % (what, (Z, A, q)),
                          route='lookup', key=[Z, A, q])
            continue
        back = pickle.loads(pickle.dumps(obj))
        if back is not obj:
            ctx.violation('%s: its pickle round trip gives another object' % what, route='pickle', key=[Z, A, q])
        dc = copy.deepcopy(obj)
        if dc is not obj:
            ctx.violation('%s: its deepcopy is another object (%r)' % (what, dc), route='deepcopy', key=[Z, A, q])
    ctx.distinct_case(('held', tuple(case['tables'])))


CHECKS = {'element': _guarded(check_element), 'invalid': _guarded(check_invalid),
          'table': _guarded(check_table), 'move': _guarded(check_move), 'held': _guarded(check_held)}


# ------------------------------------------------------------------ workload
def _on_demand(Z, M):
    """Isotopes added on demand to the bare table: first and last tabulated one
    (for hydrogen 1 and 4, so that D and T sit between on-demand neighbours)."""
    isos = M.isotopes[Z]
    if Z == 1:
        return [4, 1]
    if Z % 3 == 0 or not isos:
        return []
    return sorted({isos[0], isos[-1]}, reverse=True)   # added in decreasing order: iteration must still sort


def generate(ctx):
    M = _s['model']
    stride = 1 if ctx.thorough() else ISO_STRIDE_QUICK
    protocols = list(range(0, pickle.HIGHEST_PROTOCOL + 1))
    variants = _variants(ctx)
    i = 0
    for variant in variants:
        if ctx.mine(i):
            yield 'table', {'table': variant}
        i += 1
        for Z in M.zs:
            if ctx.mine(i):
                case = {'table': variant, 'Z': Z, 'stride': stride, 'offset': (Z + ctx.seed) % max(stride, 1),
                        'protocols': protocols, 'order': ctx.rng.randrange(1, 1 << 30) if ctx.seed else 0}
                if variant == 'bare':
                    case['add'] = _on_demand(Z, M)
                yield 'element', case
                yield 'invalid', {'table': variant, 'Z': Z, 'stride': stride,
                                  'offset': (Z + ctx.seed) % max(stride, 1)}
            i += 1
    if ctx.mine(i):
        yield 'held', {'tables': ['public', 'private'], 'n': 40, 'seed': ctx.rng.randrange(1 << 30)}
    i += 1
    pairs = [('public', 'private'), ('private', 'public'), ('private', 'private')]
    if ctx.thorough():
        pairs += [('private', 'private_late'), ('private_late', 'private'), ('public_loaded', 'private_late'),
                  ('public', 'public'), ('private', 'bare'), ('bare', 'public')]
    for src, dst in pairs:
        for Z in M.zs:
            # the bare table's on-demand isotopes exist only in the shard that swept (bare, Z):
            # keep the move in the same shard by using the same ownership index
            own = variants.index('bare') * (len(M.zs) + 1) + 1 + Z if 'bare' in (src, dst) else i
            if ctx.mine(own):
                yield 'move', {'src': src, 'dst': dst, 'Z': Z, 'stride': stride,
                               'offset': (Z + ctx.seed + 1) % max(stride, 1)}
            i += 1


def classify(rec):
    return None
