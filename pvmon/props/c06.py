"""C06 - mass, abundance and density of every nuclide equal the embedded tables.

Exhaustive sweep over all elements/isotopes of the public table and of private
tables created at several points of the process history; the oracle is the
independent table reader pvmon.ref.masses."""
import math

from ..statemon import Reach

RULE = ('one case per (table variant, element Z): every isotope row, the atomic-weight row, the '
        'composition block and the density entry of that element are compared with an independent '
        're-read of the embedded tables; distinct = distinct (variant, Z, field-class) triples that '
        'carried data; all are non-trivial (each compares tabulated numbers)')
EXHAUSTIVE = True
TECHNIQUE = 'runtime monitoring: exhaustive sweep of the live tables against an independent re-read of the embedded data (reference-model monitor), sys.monitoring reach counter on the row parser'
LEVEL_TEXT = ('Every element and isotope of the public table and of private tables created at several points of a process '
              'history is read through the public attributes and compared with an independent reader of the embedded '
              'tables; the sweep is exhaustive over rows, so the only sampling is over process histories.')
LEVEL_NOTE = 'Trusted: the regex/decimal reader in pvmon/ref/masses.py, CPython float parsing, the embedded strings as specification.'
SHARDS = {'quick': 4, 'thorough': 8}
ASSUMPTIONS = ['the embedded table strings are the specification (their literature values are not checked)',
               'independent reader pvmon/ref/masses.py (regular expressions + decimal)',
               'periodictable.constants (avogadro_number, neutron mass, electron mass) are data',
               'a charged atom has the tabulated neutral mass less q electrons and the density of the neutral atom '
               '(round 8: element ions and ions of the lightest / heaviest isotope, the charge asked as numpy uint8 / int8 '
               '/ int16 / int64 and int)']

_state = {}


def _variants(ctx):
    v = ['public', 'private_fresh', 'private_density_first']
    if ctx.thorough():
        v += ['private_late', 'private_reload', 'private_after_mutation']
    return v


_MISSING = object()


def _unc(atom):
    """The mass uncertainty lives in the private attribute `_mass_unc` (the property's own observation point;
    there is no public accessor): optional - _MISSING when a refactored tree keeps it elsewhere."""
    return getattr(atom, '_mass_unc', _MISSING)


def _scribble(ctx, what, fn):
    """Overwrite private storage slots of a private table (history for the reload / after-mutation variants);
    a tree that stores the values elsewhere merely makes that history weaker."""
    try:
        fn()
    except Exception as exc:  # noqa - optional instrumentation
        ctx.count('anchor_missing.history.' + what)
        ctx.note('history step %r could not overwrite the private storage slots (%s: %s); the variant is swept '
                 'without that mutation' % (what, type(exc).__name__, exc))


def setup(ctx):
    import periodictable as pt
    from periodictable import core, mass, density, util
    from ..ref.masses import MassModel
    _state['model'] = MassModel()
    _state['NA'] = pt.constants.avogadro_number
    reach = Reach()
    parser = getattr(util, 'parse_uncertainty', None)
    if getattr(parser, '__code__', None) is not None:
        reach.watch(parser, 'parse_uncertainty')
    reach.watch(mass.init, 'mass.init').watch(density.init, 'density.init').start()
    tables = {'public': pt.elements}
    T = core.PeriodicTable('c06_fresh_%d' % ctx.shard)
    mass.init(T)
    density.init(T)
    tables['private_fresh'] = T
    reach.stop()
    # the two loaders in the other order (density.init does not need the isotopes), with reads in between
    Td = core.PeriodicTable('c06_density_first_%d' % ctx.shard)
    density.init(Td)
    Td.Fe.density, Td.H.density, Td.D.ion[1]
    mass.init(Td)
    tables['private_density_first'] = Td
    m = _state['model']
    expected = 2 * m.rows + m.weight_rows + m.abundance_lines
    ctx.info['parse_uncertainty_calls_in_private_mass_init'] = reach.counts['parse_uncertainty']
    ctx.info['rows_expected_by_reader'] = {'isotope_mass': m.rows, 'element_mass_with_value': m.weight_rows,
                                           'abundance_lines': m.abundance_lines,
                                           'composition_blocks': len(m.abundance),
                                           'density_entries': len(m.density)}
    ctx.count('reach.mass.init', reach.counts['mass.init'])
    ctx.count('reach.density.init', reach.counts['density.init'])
    ctx.require('reach.mass.init', 1, 'the private table must have been filled by mass.init while observed')
    if reach.counts['parse_uncertainty'] >= expected:
        ctx.count('reach.rows_parsed_by_loader', reach.counts['parse_uncertainty'])
    else:
        # how often a correct loader calls its row parser is not fixed by the property: a loader that parses the
        # embedded tables once and memoises the records (or uses another parser) is legitimate.  The counter is
        # evidence only; every value of the private table is compared with the reference reader anyway.
        ctx.count('anchor_missing.reach.rows_parsed_by_loader')
        ctx.note('mass.init(T) called util.parse_uncertainty %d times while observed (%d rows in the tables): the '
                 'loader does not parse row by row per table (memoised / other parser); reach requirement waived, '
                 'the exhaustive value comparison stands' % (reach.counts['parse_uncertainty'], expected))
    ctx.require('reach.rows_parsed_by_loader', expected,
                'mass.init(T) must be observed reading every row (2*isotope rows + weights + abundances)')
    if ctx.thorough():
        # a history: force every public lazy group, use calculators, then create tables
        for el in (pt.Fe, pt.Cu):
            el.covalent_radius, el.crystal_structure, el.neutron, el.xray, el.K_alpha, el.magnetic_ff
        pt.Fe[56].neutron_activation
        pt.neutron_sld('H2O', density=1, wavelength=4)
        T2 = core.PeriodicTable('c06_late_%d' % ctx.shard)
        mass.init(T2)
        density.init(T2)
        tables['private_late'] = T2
        T3 = core.PeriodicTable('c06_reload_%d' % ctx.shard)
        mass.init(T3)
        density.init(T3)
        def overwrite_three():
            T3.Fe._mass = 1.0
            T3.Fe[56]._abundance = 3.0
            T3.Fe._density = 99.
        _scribble(ctx, 'private_reload', overwrite_three)
        mass.init(T3, reload=True)
        density.init(T3, reload=True)
        tables['private_reload'] = T3   # reload must restore the tabulated values
        # mutate the first private table, then create another one
        T4a = core.PeriodicTable('c06_mut_%d' % ctx.shard)
        mass.init(T4a)
        density.init(T4a)
        def overwrite_all():
            for el in T4a:
                el._mass = (el._mass or 0) + 1
                el._density = 1.2345
                for iso in el:
                    iso._mass += 1
                    iso._abundance = 50.
        _scribble(ctx, 'private_after_mutation', overwrite_all)
        T4 = core.PeriodicTable('c06_aftermut_%d' % ctx.shard)
        mass.init(T4)
        density.init(T4)
        tables['private_after_mutation'] = T4
    _state['tables'] = tables


def generate(ctx):
    i = 0
    for variant in _variants(ctx):
        for Z in range(0, 119):
            if ctx.mine(i):
                yield 'element', {'table': variant, 'Z': Z}
            i += 1
    if ctx.shard == 0:
        yield 'coverage', {}


def _check_ions(ctx, el, sym, Z, m, rho, em):
    """Round 8: atoms that carry a charge, and atoms that carry BOTH an isotope and a charge.  The mass is the
    tabulated neutral mass less q electrons; the density is that of the neutral atom (element density, scaled by
    the mass ratio for an isotope; unknown stays unknown).  The charge is asked with other kinds of whole numbers
    (numpy unsigned / signed scalars) - on half of the elements as the very first request for that ion."""
    import numpy as np
    from periodictable import constants
    me = constants.electron_mass
    charges = list(getattr(el, 'ions', ()) or ())
    if not charges:
        return
    isos = m.isotopes.get(Z, [])
    parents = [(el, em, rho, sym)]
    for A in ([isos[0], isos[-1]] if len(isos) > 1 else isos):
        im = m.iso[(Z, A)][0]
        parents.append((el[A], im, None if rho is None else rho * im / em, '%s[%d]' % (sym, A)))
    for pi, (parent, pm, pr, label) in enumerate(parents):
        for q in charges:
            kinds = [np.uint8 if q > 0 else np.int8, np.int64, int, np.int16]
            if (Z + pi) % 2:
                kinds = [int] + kinds[:2] + kinds[3:]
            first = None
            for kind in kinds:
                ctx.evaluated(3, 'ion-mass-density')
                try:
                    ion = parent.ion[kind(q)]
                    got_m, got_r, got_q = ion.mass, ion.density, ion.charge
                except Exception as exc:  # noqa
                    ctx.violation('%s.ion[%s(%d)]: mass/density/charge raise %s: %s'
                                  % (label, kind.__name__, q, type(exc).__name__, exc), field='ion', charge=q)
                    continue
                if first is None:
                    first = ion
                elif ion is not first:
                    ctx.violation('%s.ion[%s(%d)] is another object than .ion[%s(%d)]'
                                  % (label, kind.__name__, q, kinds[0].__name__, q), field='ion.identity', charge=q)
                want_m = pm - q * me
                if got_q != q or not ctx.close(got_m, want_m, rel=4e-16, name='ion_mass.relerr'):
                    ctx.violation('%s.ion[%s(%d)]: charge %r, mass %r; table mass less %d electrons is %r'
                                  % (label, kind.__name__, q, got_q, got_m, q, want_m), field='ion.mass', charge=q)
                if pr is None:
                    if got_r is not None:
                        ctx.violation('density of %s.ion[%d] is %r though the element density is unknown'
                                      % (label, q, got_r), field='ion.density', charge=q)
                elif got_r is None or not ctx.close(got_r, pr, rel=1e-14, name='ion_density.relerr'):
                    ctx.violation('density of %s.ion[%s(%d)] is %r, the neutral atom has %r'
                                  % (label, kind.__name__, q, got_r, pr), field='ion.density', charge=q)
    ctx.distinct_case(('ions', Z))


def check_element(ctx, case):
    from periodictable import density as D, mass as M
    m = _state['model']
    NA = _state['NA']
    tname, Z = case['table'], case['Z']
    if tname not in _state['tables']:
        setup_variant_for_replay(ctx, tname)
    T = _state['tables'][tname]
    el = T[Z]
    # assignments the library refuses (caught by the caller) leave the values as they were; where an assignment is
    # accepted the value is the caller's from then on and the atom is not judged further
    if case.get('refused_assignments', Z % 3 == 0):
        kept = True
        for name, value in (('density', -1.0), ('density', 'heavy'), ('mass', -5.0), ('number_density', 0.0)):
            try:
                setattr(el, name, value)
                kept = False
                ctx.count('refused_assignment.accepted')
            except Exception:
                ctx.count('refused_assignment.refused')
        if not kept:
            return
    if list(el.isotopes) != m.isotopes.get(Z, []):
        ctx.violation('isotopes of Z=%d are %r, table rows give %r' % (Z, el.isotopes, m.isotopes.get(Z)))
        return
    if Z in m.symbol and m.symbol[Z] != el.symbol:
        ctx.violation('symbol of Z=%d is %s, mass table says %s' % (Z, el.symbol, m.symbol[Z]))
    # element mass
    em, eu = m.el[Z]
    ctx.evaluated(2, 'element-mass')
    ctx.distinct_case((tname, Z, 'weight'))
    if el.mass != em:
        ctx.violation('mass of %s is %r, table %r' % (el, el.mass, em), field='element.mass')
    el_unc = _unc(el)
    if el_unc is _MISSING:
        ctx.count('skipped.mass_uncertainty.private_attribute_absent')
    elif not ctx.close(el_unc, eu, rel=1e-15):
        ctx.violation('mass uncertainty of %s is %r, table %r' % (el, el_unc, eu), field='element._mass_unc')
    # density of the element
    sym = el.symbol
    rho = m.density.get(sym, 'absent')
    ctx.evaluated(what='element-density')
    ctx.distinct_case((tname, Z, 'density'))
    if rho == 'absent':
        ctx.violation('no density entry for %s in the table' % sym)
        rho = None
    if el.density != rho:
        ctx.violation('density of %s is %r, table %r' % (el, el.density, rho), field='element.density')
    # number density / interatomic distance
    n, d = el.number_density, el.interatomic_distance
    ctx.evaluated(2, 'number-density')
    if rho is None:
        if n is not None or d is not None:
            ctx.violation('unknown density but number_density=%r interatomic_distance=%r' % (n, d))
    else:
        if n is None or d is None:
            ctx.violation('number_density/interatomic_distance None for %s with density %r' % (el, rho))
        else:
            if not ctx.close(n, rho * NA / em, rel=1e-12, name='number_density.relerr'):
                ctx.violation('number_density of %s is %r, rho*N_A/m = %r' % (el, n, rho * NA / em))
            if not ctx.close(n * d ** 3, 1e24, rel=1e-12, name='n_d3.relerr'):
                ctx.violation('n*d^3 of %s is %r, not 1e24' % (el, n * d ** 3))
    ctx.evaluated(3, 'module-functions')
    if D.density(el) != rho or D.number_density(el) != n or D.interatomic_distance(el) != d or M.mass(el) != em:
        ctx.violation('module functions density/number_density/interatomic_distance/mass(%s) differ from the attributes' % el)
    # isotopes
    ab = m.abundance.get(Z)
    total = 0.0
    weight = 0.0
    for A in m.isotopes.get(Z, []):
        iso = el[A]
        im, iu = m.iso[(Z, A)]
        ctx.evaluated(2, 'isotope-mass')
        if iso.mass != im:
            ctx.violation('mass of %s[%d] is %r, table %r' % (sym, A, iso.mass, im), field='isotope.mass', A=A)
        iso_unc = _unc(iso)
        if iso_unc is _MISSING:
            ctx.count('skipped.mass_uncertainty.private_attribute_absent')
        elif not ctx.close(iso_unc, iu, rel=1e-15):
            ctx.violation('mass uncertainty of %s[%d] is %r, table %r' % (sym, A, iso_unc, iu),
                          field='isotope._mass_unc', A=A)
        ctx.evaluated(what='abundance')
        if Z == 0:
            want = 100.
        else:
            want = ab[A][0] if (ab and A in ab) else 0
        got = iso.abundance
        if (want == 0 and got != 0) or not ctx.close(got, want, rel=1e-12, name='abundance.relerr'):
            ctx.violation('abundance of %s[%d] is %r, table gives %r' % (sym, A, got, want),
                          field='isotope.abundance', A=A, listed=bool(ab and A in ab))
        total += got
        weight += got / 100. * iso.mass
        # isotope density = element density * mass ratio; unknown stays unknown
        ctx.evaluated(what='isotope-density')
        try:
            idens = iso.density
        except Exception as exc:
            ctx.violation('density of %s[%d] raises %s: %s (element density %r)'
                          % (sym, A, type(exc).__name__, exc, rho), field='isotope.density', A=A,
                          exc_type=type(exc).__name__, element_density=rho)
        else:
            if rho is None:
                if idens is not None:
                    ctx.violation('density of %s[%d] is %r though the element density is unknown'
                                  % (sym, A, idens), field='isotope.density', A=A)
            elif not ctx.close(idens, rho * im / em, rel=1e-14, name='isotope_density.relerr'):
                ctx.violation('density of %s[%d] is %r, expected %r' % (sym, A, idens, rho * im / em),
                              field='isotope.density', A=A)
            # number density / distance are those of the element
            ctx.evaluated(what='isotope-number-density')
            if rho is not None:
                ni, di = iso.number_density, iso.interatomic_distance
                if ni is None or di is None or not ctx.close(ni * di ** 3, 1e24, rel=1e-12):
                    ctx.violation('n*d^3 of %s[%d] is not 1e24 (n=%r d=%r)' % (sym, A, ni, di), A=A)
                # the documented module functions called directly with the isotope
                ctx.evaluated(3, 'module-functions')
                nf, df, rf = D.number_density(iso), D.interatomic_distance(iso), D.density(iso)
                if nf is None or df is None or not ctx.close(nf * df ** 3, 1e24, rel=1e-12):
                    ctx.violation('density.number_density/interatomic_distance(%s[%d]): n*d^3 is not 1e24 (n=%r d=%r)'
                                  % (sym, A, nf, df), A=A, field='module.number_density')
                elif not ctx.close(nf, (rho * im / em) * NA / im, rel=1e-12):
                    ctx.violation('density.number_density(%s[%d]) is %r, rho*N_A/m = %r'
                                  % (sym, A, nf, (rho * im / em) * NA / im), A=A, field='module.number_density')
                if not ctx.close(rf, rho * im / em, rel=1e-14):
                    ctx.violation('density.density(%s[%d]) is %r, expected %r' % (sym, A, rf, rho * im / em), A=A)
            else:
                ctx.evaluated(2, 'module-functions')
                if D.number_density(iso) is not None or D.interatomic_distance(iso) is not None:
                    ctx.violation('density.number_density/interatomic_distance(%s[%d]) not None although the '
                                  'element density is unknown' % (sym, A), A=A)
            ctx.evaluated(2, 'module-functions')
            if M.mass(iso) != im or not ctx.close(M.abundance(iso), want, rel=1e-12):
                ctx.violation('mass.mass/abundance(%s[%d]) = %r, %r; table %r, %r'
                              % (sym, A, M.mass(iso), M.abundance(iso), im, want), A=A)
    _check_ions(ctx, el, sym, Z, m, rho, em)
    if Z == 1:
        _check_dt_aliases(ctx, T, tname, m, rho, em, ab)
    if m.isotopes.get(Z):
        ctx.distinct_case((tname, Z, 'isotopes'))
    if ab:
        ctx.distinct_case((tname, Z, 'composition'))
        ctx.evaluated(2, 'composition')
        if abs(total - 100) > 1e-9:
            ctx.violation('abundances of %s sum to %r' % (sym, total), field='abundance-sum')
        # "within the stated uncertainty": the library's own value when it is observable, else the table's
        unc = eu if el_unc is _MISSING else el_unc
        sigma = abs(weight - el.mass) / unc if unc else (0 if weight == el.mass else math.inf)
        ctx.observe('atomic_weight_vs_isotopes.sigma', sigma)
        if sigma > 1.0:
            ctx.violation('atomic weight of %s %r differs from abundance-weighted isotope mass %r by %.3g sigma'
                          % (sym, el.mass, weight, sigma), field='weight-consistency')
    elif Z != 0:
        ctx.evaluated(what='composition')
        if total != 0:
            ctx.violation('%s is not in the composition table but abundances sum to %r' % (sym, total))


def _check_dt_aliases(ctx, T, tname, m, rho, em, ab):
    """D and T are H[2] and H[3] under names of their own: whichever documented way leads to them (attribute of the
    table, lookup by name, by symbol, by isotope string, the package-level names), the object served carries the
    mass, abundance and density of that nuclide."""
    import periodictable as pt
    for A, sym, name in ((2, 'D', 'deuterium'), (3, 'T', 'tritium')):
        im = m.iso[(1, A)][0]
        want_ab = ab[A][0] if (ab and A in ab) else 0
        routes = [('table.%s' % sym, lambda: getattr(T, sym)),
                  ('table.name(%r)' % name, lambda: T.name(name)),
                  ('table.symbol(%r)' % sym, lambda: T.symbol(sym)),
                  ('table.isotope(%r)' % sym, lambda: T.isotope(sym)),
                  ('table.isotope(%r)' % ('%d-H' % A), lambda: T.isotope('%d-H' % A)),
                  ('table[1][%d]' % A, lambda: T[1][A])]
        if T is pt.elements:
            routes += [('periodictable.%s' % sym, lambda: getattr(pt, sym)),
                       ('periodictable.%s' % name, lambda: getattr(pt, name))]
        for label, get in routes:
            ctx.evaluated(3, 'dt-alias-routes')
            ctx.count('dt_alias_routes')
            try:
                a = get()
                got = (a.mass, a.abundance, a.density)
            except Exception as exc:
                ctx.violation('%s (%s table): reading mass/abundance/density raised %s: %s'
                              % (label, tname, type(exc).__name__, exc), field='dt-alias', route=label)
                continue
            want = (im, want_ab, None if rho is None else rho * im / em)
            ok = got[0] == want[0] and ctx.close(got[1], want[1], rel=1e-12) and \
                ((got[2] is None) == (want[2] is None)) and (want[2] is None or ctx.close(got[2], want[2], rel=1e-14))
            if not ok:
                ctx.violation('%s (%s table) serves mass, abundance, density %r; the tables give %r for H[%d]'
                              % (label, tname, got, want, A), field='dt-alias', route=label)


def setup_variant_for_replay(ctx, tname):
    """A replay of a thorough-tier variant in a quick-tier context: build it."""
    ctx.tier = 'thorough'
    setup(ctx)


def check_coverage(ctx, case):
    """Every row of every table belongs to an element that the sweep visits."""
    m = _state['model']
    import periodictable as pt
    ctx.evaluated(3, 'coverage')
    zs = set(range(0, 119))
    bad = [k for k in m.iso if k[0] not in zs] + [z for z in m.abundance if z not in zs]
    syms = {el.symbol for el in pt.elements}
    bad += [s for s in m.density if s not in syms]
    if bad:
        ctx.violation('table rows outside the swept domain: %r' % bad[:10])
    if len(m.density) != 119:
        ctx.violation('density table has %d entries, expected 119' % len(m.density))


CHECKS = {'element': check_element, 'coverage': check_coverage}


def classify(rec):
    d = rec.get('detail') or {}
    case = rec.get('case') or {}
    if d.get('field') == 'isotope.density' and d.get('exc_type') == 'TypeError' and d.get('element_density') is None:
        return 'c06.isotope-density-unknown'
    if case.get('Z') == 92 and d.get('field') in ('isotope.abundance', 'abundance-sum', 'weight-consistency'):
        return 'c06.last-element-abundance'
    return None
