"""C10 - private tables are isolated from the public table and from each other.

Histories over {create T1/T2, module.init(T) for the nine property modules, public first
touches / reads / calculator calls, reads on T, attribute assignment to and in-place mutation
of per-atom data of T, formula(s, table=T), mix_by_*(..., table=T), pickling of atoms of T}
are executed in forks of a pristine interpreter (pvmon/explore10.py); every violating history
is executed again in a fresh `python -c` interpreter.  Oracles (clauses of DESIGN section 5 C10):

 (a) every public read / calculator value, and the per-entry digest of all nine groups of the
     public table after the history, equal the canonical ones (pristine interpreter, groups
     loaded in registration order); a difference counts only if the public-only projection of
     the history (private events deleted) does not show it;
 (b) a group initialised on T and not mutated serves, entry by entry, the public canonical values;
 (b') the values a private table derives from mass and density (number density, interatomic distance,
     isotope density, ion mass, the number density cached in a neutron record at init) follow its OWN
     data, also after these were changed: a table whose calculations read another table is not isolated;
 (c) a mutation of T changes no value of the other private table (digest before/after the
     event) nor of the public table (final digest);
 (d) heap walk: no mutable object is reachable from per-atom data of two tables, no per-atom
     datum of one table refers to an atom of another;
 (e) formula(s, table=T) / mix_by_weight / mix_by_volume(..., table=T) contain only T's own atom objects;
 (f) pickle round trips of atoms of T return T's own objects.
"""
import os
import pickle
import tempfile

IMPORT_LIBRARY = False      # the worker stays pristine; setup() performs the one `import periodictable`

RULE = ('cases are histories (lists of event names, each executable from its name alone) generated from the '
        'legal-use model of DESIGN section 5 C10: systematic "init(T) before / after the first public touch" pairs for '
        'every lazy group and public route, every mutation before/after the public first touch and next to a second '
        'private table, parse/mix/pickle probes (149 histories), plus seeded random legal histories: 16 x 112 of length '
        '<= 16 in quick, 16 x 800 of length <= 24 and 355 closure-style pairs/triples in thorough.  Features that a one-feature probe history shows to violate on its '
        'own on the tree under test (an order-sensitive init, a leaking mutation) are kept out of ~92 % of the random '
        'histories.  distinct = distinct (abstract state before, event) transitions executed, where the abstract state '
        'is the class-dictionary kind of every lazily loaded attribute of Element/Isotope/Ion plus, per private table, '
        'the sets of initialised and of mutated groups; every such transition is non-trivial (it executes a library '
        'event and is followed by the digest/heap oracles at the end of its history)')
SHARDS = {'quick': 16, 'thorough': 16}
TIMEOUT = {'quick': 900, 'thorough': 5400}
TECHNIQUE = ('runtime monitoring: history explorer (forked copies of a pristine interpreter, fresh-interpreter replay), '
             'state monitors (per-entry digests of every value served by the public and the private tables, class-dictionary '
             'loader state, heap walk for objects shared between tables), metamorphic sibling histories for attribution')
LEVEL_TEXT = ('Seeded random and systematic legal histories of table creation, module.init(T), public first touches, reads, '
              'mutations, parses and pickles are executed in separate interpreters; after every history the values served by '
              'the public table and by each private table are compared entry by entry with a canonical digest, the heaps of '
              'the tables are walked for shared mutable objects, and every violating history is re-executed in a fresh '
              'interpreter.  Held means: no difference on the histories explored (counts in the evidence), not all histories.'
              " Added in rounds 4-7: atoms kept after their table's name went out of scope (pickle), premature loader calls (init0 events) followed by the documented order or by public use.")
LEVEL_NOTE = ('Trusted: fork() fidelity (checked: forked and fresh canonical digests must agree; every violating history is '
              'replayed in a fresh interpreter), the legal-use model of DESIGN section 5 C10, pickle for result transport. '
              'Two private tables at most; histories of bounded length.')
ASSUMPTIONS = [
    'legal-use model: density/activation need mass on the same table, nsf needs mass and density; a group of T is compared '
    'with the public canonical digest only while neither it nor a prerequisite has been mutated; mutations only on initialised groups',
    'canonical values = pristine interpreter, each lazy group first read through an element in registration order',
    'quick tier digests the x-ray group for a fixed subset of 17 elements (all elements in thorough)',
    'a public difference that the public-only projection of the history also shows is attributed to C09, not C10 (counted, not reported)',
    'fasta strings ("aa:...", "dna:...") are included in clause (e): formula(s, table=T) dispatches them to fasta.Sequence',
    "clause (b'): derived values of a private table are checked against the documented equations of density.py "
    "evaluated on the table's own mass and density (relative 1e-12); this reads isolation in both directions",
]

KNOWN_TRIGGER_SHARE = 0.08
D6 = 'c10.private-init-before-public-touch-radius-structure-lines'
D7 = 'c10.private-nsf-init-before-public-touch'
D8 = 'c10.shared-crystal-structure-dicts'
D26 = 'c10.shared-missing-neutron-placeholder'

_state = {}
_EVAL_COUNTERS = ('digest_comparisons', 'public_event_comparisons', 'private_read_comparisons',
                  'cross_table_comparisons', 'formula_atom_checks', 'pickle_checks', 'heap_table_pairs',
                  'private_parse_comparisons', 'derived_value_checks')
_STATE_KINDS = ('shared-object', 'foreign-reference')


def _X():
    from .. import explore10
    return explore10


def _repo_root():
    return os.path.realpath(os.environ.get('VERIF_REPO', '/repo'))


def setup(ctx):
    X = _X()
    where = X.pristine_import()
    if not where.startswith(_repo_root() + os.sep):
        ctx.harness_error('periodictable imported from %s, not under %s' % (where, _repo_root()))
        return
    # what "pristine" looks like in this tree (taken before anything ran): compared again in finish()
    _state['pristine'] = X.pristine_snapshot()
    if X.pending_groups(_state['pristine']['loader_state']) != sorted(X.LAZY):
        ctx.harness_error('right after `import periodictable` these lazy groups have no delayed-load placeholder in '
                          'the class dictionaries: %r (state %r)'
                          % (sorted(set(X.LAZY) - set(X.pending_groups(_state['pristine']['loader_state']))),
                             _state['pristine']['loader_state']))
    st, canon = X.run_forked(X.canonical)
    X.CONFIG['xray_elements'] = None if ctx.thorough() else set(X.XRAY_QUICK)
    X.CONFIG['force_all'] = ctx.thorough()
    if st != 'ok':
        ctx.harness_error('canonical run failed: %s' % (canon,))
        return
    if not canon['stable']:
        ctx.harness_error('canonical digest is not stable under repeated reads of the public table')
    _state['canon'] = canon
    fd, path = tempfile.mkstemp(prefix='c10_canon_%d_' % ctx.shard, suffix='.pkl')
    with os.fdopen(fd, 'wb') as f:
        pickle.dump(canon, f, protocol=pickle.HIGHEST_PROTOCOL)
    _state['canon_path'] = path
    _state['confirmed'] = {}
    ctx.info['canonical_entries_per_group'] = canon['n_entries']
    ctx.info['atoms_without_neutron_row'] = len(canon['dataless_neutron'])
    ctx.info['event_alphabet_size'] = len(X.all_event_names())
    # fork fidelity: the same canonical digest from a fresh interpreter (one shard is enough)
    if ctx.shard == 0 or ctx.replay:
        st2, canon2 = X.run_fresh({'mode': 'canonical'})
        if st2 != 'ok':
            ctx.harness_error('fresh canonical run failed: %s' % (canon2,))
        else:
            ctx.evaluated(len(X.GROUPS) + 1, 'fork_fidelity')
            ctx.count('fork_fidelity_checks')
            bad = [g for g in X.GROUPS if X.diff_digests(canon2['digest'][g], canon['digest'][g])]
            if bad or canon2['events'] != canon['events']:
                ctx.harness_error('forked and fresh canonical digests differ (groups %s): fork() is not faithful here' % bad)
    # one-feature probes decide which features are kept to a bounded minority of the random histories
    guard_early, guard_mut = [], []
    if not ctx.replay:
        for feature, h in X.probe_histories():
            st, r = X.run_forked(lambda: X.play(h, canon, heap=False))
            ctx.count('probe_histories')
            if st != 'ok':
                ctx.harness_error('probe %s failed: %s' % (feature, r))
                continue
            if any(v['kind'] not in _STATE_KINDS for v in r['violations']):
                if feature[0] == 'early':
                    guard_early.append(feature[1])
                else:
                    guard_mut.append((feature[1], feature[2]))
    _state['guard_early'] = tuple(guard_early)
    _state['guard_mut'] = tuple(guard_mut)
    ctx.info['features_bounded_to_%d_percent_of_random_histories' % round(100 * KNOWN_TRIGGER_SHARE)] = \
        '; '.join(['init(T) of %s before the first public touch' % g for g in guard_early] +
                  ['mut:%s:%s' % gv for gv in guard_mut]) or 'none'


def generate(ctx):
    X = _X()
    if 'canon' not in _state:
        return
    for i, (origin, h) in enumerate(X.systematic_histories(ctx.thorough())):
        if ctx.mine(i):
            yield 'history', {'history': h, 'origin': 'systematic:' + origin}
    n = ctx.scale(112, 800)
    if os.environ.get('PVMON_C10_RANDOM'):      # debugging aid: shorter runs
        n = int(os.environ['PVMON_C10_RANDOM'])
    maxlen = 24 if ctx.thorough() else 16
    for _ in range(n):
        free = ctx.rng.random() < KNOWN_TRIGGER_SHARE
        h = X.random_history(ctx.rng, maxlen=maxlen,
                             guard_early=() if free else _state['guard_early'],
                             guard_mut=() if free else _state['guard_mut'])
        yield 'history', {'history': h, 'origin': 'random:free' if free else 'random:guarded'}


# ---------------------------------------------------------------------------
def _merge(viols, annot=None):
    """Reports of one history.  Raw symptoms (one public read, one class of differing digest entries, one
    class of shared objects) are the atoms; those of the same kind, table role and group that react in the
    same way to the sibling histories (same `vanishes_without`, same projection result) become one report,
    so that one mechanism seen by five public reads is one report and two mechanisms acting on one group
    stay two."""
    X = _X()
    annot = annot or {}
    out = {}
    for v in viols:
        sig = X.signature(v)
        a = annot.get(sig, {})
        key = (sig[0], sig[1], sig[2], tuple(a.get('vanishes_without', ())), a.get('projection_has'),
               sig[3] if sig[0] in _STATE_KINDS else '')
        m = out.get(key)
        if m is None:
            m = out[key] = {'kind': v['kind'], 'clause': v['clause'], 'table': v['table'], 'group': v['group'],
                            'symptoms': [], 'items': [], 'msgs': [], 'events': [], 'entries': [], 'n_entries': 0,
                            'fields': set(), 'got_kinds': set(), 'entry_names': set(),
                            'heap': v.get('heap'), 'n_objects': v.get('n_objects'), 'signatures': [],
                            'vanishes_without': list(a.get('vanishes_without', ())),
                            'projection_clean': (not a['projection_has']) if a.get('projection_has') is not None else None}
        m['symptoms'].append(v['symptom'])
        m['items'].append(sig[3])
        if sig not in m['signatures']:
            m['signatures'].append(sig)
        if len(m['msgs']) < 3:
            m['msgs'].append(v['msg'])
        m['events'].append([v['index'], v['event']])
        m['entries'] += v['entries'][:4]
        m['n_entries'] += v['n_entries']
        m['fields'].update(v['fields'])
        m['got_kinds'].update(v['got_kinds'])
        m['entry_names'].update(v['entry_names'])
        if v.get('traceback'):
            m['traceback'] = v['traceback']
    for m in out.values():
        m['symptoms'] = sorted(set(m['symptoms']))
        m['items'] = sorted(set(m['items']))
        m['fields'] = sorted(m['fields'])
        m['got_kinds'] = sorted(m['got_kinds'])
        names = sorted(m['entry_names'])
        m['n_entry_names'] = len(names)
        m['entry_names'] = names[:60]
        m['entries'] = m['entries'][:8]
        m['events'] = m['events'][:12]
    return out


def _run(ctx, h, heap=True):
    X = _X()
    st, r = X.run_forked(lambda: X.play(h, _state['canon'], heap=heap))
    ctx.count('forked_histories')
    return st, r


def _account(ctx, r):
    for k, n in r['counts'].items():
        ctx.count(k, n)
    ctx.evaluated(sum(r['counts'].get(k, 0) for k in _EVAL_COUNTERS))
    for t in r['transitions']:
        ctx.distinct_case(t)
    ctx.observe('heap_objects_walked_per_history', r['heap_stats'].get('objects_walked', 0))


def check_history(ctx, case):
    X = _X()
    if 'canon' not in _state:
        ctx.harness_error('no canonical digest (setup failed)')
        return
    h = list(case['history'])
    st, r = _run(ctx, h)
    if st != 'ok':
        text = str(r)
        if st == 'err' and (os.path.join(_repo_root(), 'periodictable') + os.sep) in text:
            ctx.violation('unexpected exception through the library while executing the history: %s' % text[-300:],
                          kind='exception', traceback=text[-1500:])
        else:
            ctx.harness_error('history %r: %s %s' % (h, st, text[-1500:]))
        return
    _account(ctx, r)
    for text in r.get('harness', ()):
        ctx.harness_error(text)
    ctx.count('histories')
    ctx.count('histories.%s' % case.get('origin', 'replay').split(':')[0])
    ctx.count('history_events', len(h))
    if r['skipped']:
        ctx.count('histories_with_skipped_illegal_events')
        if not ctx.replay:
            ctx.harness_error('the generator emitted events that are illegal in their history: %r in %r' % (r['skipped'], h))
    if r['early_inits']:
        ctx.count('histories_with_init_before_public_touch')
    if any(tuple(e.split(':')[2:4]) in _state.get('guard_mut', ()) for e in h if e.startswith('mut:')) or \
            any(g in _state.get('guard_early', ()) for _, _, g in r['early_inits']):
        ctx.count('histories_with_bounded_feature.%s' % case.get('origin', 'replay').split(':')[0])
    sigs = []
    for v in r['violations']:
        sg = X.signature(v)
        if sg not in sigs:
            sigs.append(sg)
    if not sigs and not ctx.replay:
        return

    value_sigs = [s for s in sigs if s[0] not in _STATE_KINDS]
    early = sorted(set(g for _, _, g in r['early_inits']))
    muts = sorted(set(tuple(e.split(':')[2:4]) for e in h if e.startswith('mut:')))
    annot = dict((s, {'vanishes_without': [], 'projection_has': None}) for s in sigs)
    if value_sigs:
        # siblings: the same history without one feature
        # only features that can bear on a violating group: its own early init, mutations of the group
        # or of a group it is derived from (all mutations when the violation has no group)
        vg = set()
        for s in value_sigs:
            vg.update(str(s[2]).split('+'))
        rel = set(vg)
        for g0, deps in X.DEPENDENTS.items():
            if vg & set(deps):
                rel.add(g0)
        anyg = '-' in vg or '' in vg
        feats = [('mut:%s:%s' % gv, X.without_mutations(h, *gv)) for gv in muts if anyg or gv[0] in rel] + \
                [('early-init:%s' % g, X.warm_sibling(h, g)) for g in early if anyg or g in vg]
        for name, sib in feats[:24]:
            st2, r2 = _run(ctx, sib)
            ctx.count('sibling_histories')
            if st2 != 'ok':
                continue
            sigs2 = set(X.signature(v) for v in r2['violations'])
            for s in sigs:
                if s not in sigs2:
                    annot[s]['vanishes_without'].append(name)
        if any(s[0] in ('public-event', 'public-digest') for s in sigs):
            st3, r3 = _run(ctx, X.public_projection(h), heap=False)
            ctx.count('projection_histories')
            if st3 == 'ok':
                sigs3 = set(X.signature(v) for v in r3['violations'])
                for s in sigs:
                    if s[0] in ('public-event', 'public-digest'):
                        annot[s]['projection_has'] = s in sigs3

    # fresh-interpreter replay: always for value violations; for pure heap-sharing observations the first
    # two histories per signature in this shard
    need_fresh = bool(value_sigs) or ctx.replay
    for s in sigs:
        if s[0] in _STATE_KINDS and _state['confirmed'].get(s, 0) < 2:
            need_fresh = True
    fresh_sigs = None
    if need_fresh:
        stf, rf = X.run_fresh({'mode': 'play', 'history': h, 'canon': _state['canon_path'],
                               'xray_elements': sorted(X.CONFIG['xray_elements']) if X.CONFIG['xray_elements'] else None,
                               'force_all': X.CONFIG['force_all']})
        ctx.count('fresh_replays')
        if stf != 'ok':
            ctx.harness_error('fresh-interpreter replay of %r failed: %s' % (h, str(rf)[-800:]))
        else:
            fresh_sigs = set(X.signature(v) for v in rf['violations'])
            ctx.evaluated(len(set(sigs) | fresh_sigs), 'fresh_vs_fork')
            for s in sorted(fresh_sigs - set(sigs), key=repr):
                ctx.harness_error('fresh interpreter shows %r for history %r, the forked run did not' % (s, h))
            for s in fresh_sigs & set(sigs):
                _state['confirmed'][s] = _state['confirmed'].get(s, 0) + 1

    keep = []
    for v in r['violations']:
        s = X.signature(v)
        if annot[s]['projection_has']:
            # the public table shows the same difference without any private activity: a lazy-loading
            # (C09) matter, not an isolation one
            ctx.count('public_difference_also_in_public_only_projection')
            ctx.note('public difference %r also in the public-only projection of %r' % (s, h))
            continue
        if fresh_sigs is not None and s not in fresh_sigs:
            ctx.harness_error('violation %r of history %r not reproduced in a fresh interpreter (fork artefact)' % (s, h))
            continue
        keep.append(v)
    for key, m in sorted(_merge(keep, annot).items(), key=lambda kv: repr(kv[0])):
        detail = dict(m)
        detail.update({
            'early_init_groups': early, 'mutations': ['%s:%s' % gv for gv in muts],
            'fresh_confirmed': (fresh_sigs is not None) or None,
            'origin': case.get('origin'),
        })
        ctx.violation('(%s) %s' % (m['clause'], m['msgs'][0]), **detail)


CHECKS = {'history': check_history}


def finish(ctx):
    X = _X()
    try:
        os.remove(_state.get('canon_path', ''))
    except OSError:
        pass
    if 'canon' in _state:
        # the interpreter every history was forked from must still be pristine
        now = X.pristine_snapshot()
        ctx.evaluated(1, 'parent_still_pristine')
        if now != _state.get('pristine'):
            ctx.harness_error('the parent interpreter is no longer pristine: %r, right after the import it was %r'
                              % (now, _state.get('pristine')))
    if ctx.replay:
        return
    for g in X.LAZY:
        ctx.require('init.%s.before_public_touch' % g, 1, 'init(T) of %s before the first public touch must be explored' % g)
        ctx.require('init.%s.after_public_touch' % g, 1, 'init(T) of %s after the first public touch must be explored' % g)
    ctx.require('heap_walks', 100, 'the heap walk of clause (d) must run')
    ctx.require('effective_mutations', 50, 'mutations must change what T serves, else clause (c) is vacuous')
    ctx.require('cross_table_comparisons', 20, 'second-table digests around a mutation')
    ctx.require('formula_atom_checks', 50, 'clause (e)')
    ctx.require('pickle_checks', 50, 'clause (f)')
    ctx.require('fork_fidelity_checks', 1, 'forked and fresh canonical digests must have been compared')
    ctx.require('histories', 1000 if ctx.nshards > 1 else 1, 'number of histories executed')


# ---------------------------------------------------------------------------
def classify(rec):
    """Mechanism key of a violation report, from the structure of the history (which init ran while the
    public group was pending, which mutations it contains, which sibling history is clean) and from the
    class of the differing entries - never from seeds or concrete values."""
    d = rec.get('detail') or {}
    kind = d.get('kind')
    groups = set(str(d.get('group') or '').split('+'))
    gone = set(d.get('vanishes_without') or ())
    early = set(d.get('early_init_groups') or ())
    got = set(d.get('got_kinds') or ())
    fields = set(d.get('fields') or ())
    names = set(d.get('entry_names') or ())
    items = set(d.get('items') or ())
    complete = d.get('n_entry_names', 0) == len(names)      # the list of entry names was not truncated

    if kind == 'shared-object':
        hp = d.get('heap') or {}
        if hp.get('object_type') == 'Neutron' and hp.get('root_attrs') == ['neutron'] and \
                hp.get('class_level') in ('Element.neutron', 'Isotope.neutron') and d.get('n_objects') == 1:
            if hp.get('served_only_to_dataless') is True:
                return D26
            if hp.get('served_only_to_dataless') is False and 'neutron' in early and 'early-init:neutron' in gone:
                return D7       # the public table has no records of its own: every public atom gets the placeholder
            return None
        if hp.get('object_type') == 'dict' and hp.get('root_attrs') == ['crystal_structure'] and \
                hp.get('depth0') and not hp.get('class_level'):
            paths = hp.get('paths') or {}
            ends = set(p.split('.', 1)[1] for ps in paths.values() for p in ps)
            atoms = set(p.split('.', 1)[0] for ps in paths.values() for p in ps)
            if ends == {'crystal_structure'} and len(atoms) == 1:
                return D8       # the element's dict itself, same element in both tables
        return None

    if kind in ('public-event', 'public-digest'):
        if d.get('projection_clean') is not True:
            return None
        for g in sorted(groups & {'covrad', 'crystal', 'emission'}):
            if g in early and ('early-init:%s' % g) in gone:
                if kind == 'public-event':
                    return D6
                want = {'covrad': {'None'}, 'crystal': {'EXC:AttributeError'}, 'emission': {'EXC:AttributeError'}}[g]
                if got and got <= want:
                    return D6
        if groups == {'neutron'} and 'neutron' in early and 'early-init:neutron' in gone:
            if kind == 'public-event' or items == {'lost-own-record'}:
                return D7
        if groups == {'crystal'} and 'mut:crystal:inplace' in gone:
            if (kind == 'public-digest' and complete and names <= {'Fe', 'Cu'} and fields <= {'crystal_structure'} and got <= {'value'}) or \
                    (kind == 'public-event' and all(n.startswith('pub.read:crystal:') for n in names)):
                return D8
        if groups == {'neutron'} and 'mut:neutron:missing' in gone:
            if (kind == 'public-digest' and items == {'atom-without-neutron-row'} and fields <= {'b_c'}) or \
                    (kind == 'public-event' and names <= {'pub.read:neutron:nodata'}):
                return D26
        return None

    if kind == 'private-fresh':
        # T loses the class-level K_alpha_units/K_beta1_units when its own init_spectral_lines ran first
        if groups == {'emission'} and 'emission' in early and 'early-init:emission' in gone and \
                fields <= {'K_alpha_units', 'K_beta1_units', 'value'} and got <= {'EXC:AttributeError'}:
            return D6
        if groups == {'crystal'} and 'mut:crystal:inplace' in gone and \
                ((complete and names <= {'Fe', 'Cu'} and fields <= {'crystal_structure'}) or
                 all(n.startswith('read:crystal:') for n in names)):
            return D8
        if groups == {'neutron'} and 'mut:neutron:missing' in gone and \
                ((items == {'atom-without-neutron-row'} and fields <= {'b_c'}) or names <= {'read:neutron:nodata'}):
            return D26
        return None

    if kind == 'private-cross':
        if groups == {'crystal'} and 'mut:crystal:inplace' in gone and complete and names <= {'Fe', 'Cu'} and \
                fields <= {'crystal_structure'}:
            return D8
        if groups == {'neutron'} and 'mut:neutron:missing' in gone and items == {'atom-without-neutron-row'} and \
                fields <= {'b_c'}:
            return D26
        return None
    return None
