"""C19 - the Hill form is a canonical, composition-preserving normal form."""
from fractions import Fraction
from math import gcd

RULE = ('a multiset of atoms with integer counts (elements, isotopes, D/T/H[1], ions, isotope ions; C and H and their '
        'look-alikes Ca/Cl/He/Hf..., several isotopes of one element across the 9/10 and 99/100 digit boundaries, and in a '
        'bounded share several charge states of one nuclide and zero-count atoms) is rendered four times in different '
        'orders and groupings - flat string, grouped string, {atom: count} dict, nested sequence, arithmetic (f+g, n*f, f+=g, 0*g) - '
        'so that all renderings have exactly equal .atoms; every rendering\'s Hill form is checked for composition, order, '
        'idempotence and equality with the others, and the Hill order written as a string is parsed and compared with its own '
        'Hill form. counts: formulas built by random formula programs (leaves atom / string / dict / nested sequence, '
        'operators +, n*, +=, copy) whose counts are python and numpy floats (float64, float32) with 1..17 significant digits over '
        '1e-12..1e12, Fractions or Decimals (where the constructors accept them): every variable\'s Hill form must have exactly '
        'its .atoms, be ordered and idempotent; a dict, a flat and a grouped sequence built from exactly those count objects '
        'must have an equal Hill form, and the Hill order written with positional counts must equal its own Hill form. '
        'distinct = distinct atom sets of the multisets (and (flavour, atom set) of the count programs); non-trivial = at least two atoms')
SHARDS = {'quick': 8, 'thorough': 16}
TIMEOUT = {'quick': 900, 'thorough': 7200}
TECHNIQUE = ('runtime monitoring: metamorphic relations between the Hill forms of independently rendered equal compositions at the '
             'Formula.hill / formula() boundary, order oracle over (Z, A, charge) keys with symbols from an independent table reader, '
             'icontract postcondition on _convert_to_hill_notation, sys.monitoring reach counters')
LEVEL_TEXT = ('Each multiset is turned into four formulas through the real constructors and operators (their compositions are first '
              'compared, exactly, with the multiset they were rendered from); the real .hill of each is then checked: same atoms '
              'dictionary, order C, H, then alphabetical by printed symbol with isotopes of one symbol by mass number, idempotent, '
              'equal (library ==) across renderings, and equal to the formula parsed from the Hill order written as a string. '
              'A postcondition on _convert_to_hill_notation checks every internal conversion. Reach is by workload diversity; '
              'held means held on the multisets generated.')
LEVEL_NOTE = ('Trusted: the rendering code in this module and pvmon/gen/programs.py (each rendering\'s model composition is asserted '
              'equal to the multiset before the library is involved), pvmon/ref/masses.py for element symbols. The order among '
              'charge states of one nuclide, and between an element and its isotopes, is not prescribed by the property: only '
              'canonicity is demanded there.')
ASSUMPTIONS = ['Fraction and Decimal counts are judged only when the constructors and .atoms accept them (they do on the pinned tree through dict and sequence input)',
               '"alphabetical by symbol" is read on the printed symbol: D and T sort under their own letters, H[1] under H',
               'the order among different charge states of one nuclide, and between a natural element and its isotopes, is free; canonicity must still hold',
               'f.hill.atoms == f.atoms is demanded as equality of dictionaries, zero-count atoms included',
               'the Hill string of a multiset with a zero-count atom is not formed (the grammar cannot write a zero count)']

_s = {}


class HillContractBroken(AssertionError):
    pass


def _contract_text(exc):
    """'<condition name>: <values>' from an icontract violation message (its first line is the source location)."""
    lines = [l.strip() for l in str(exc).split('\n') if l.strip()]
    if len(lines) > 1 and lines[0].startswith('File '):
        lines = lines[1:]
    return ' '.join(lines[:4])[:400]


# ---------------------------------------------------------------- order oracle
def printed_symbol(k):
    Z, A, _q = k
    if Z == 1 and A == 2:
        return 'D'
    if Z == 1 and A == 3:
        return 'T'
    return _s['model'].symbol[Z]


def _rank(sym):
    return (0 if sym == 'C' else 1 if sym == 'H' else 2, sym)


def order_problem(keys):
    """None if the key sequence is in Hill order, else a description of the first offence."""
    syms = [printed_symbol(k) for k in keys]
    for i in range(len(keys) - 1):
        if _rank(syms[i]) > _rank(syms[i + 1]):
            return '%s (%r) is listed before %s (%r)' % (syms[i], keys[i], syms[i + 1], keys[i + 1])
    for i in range(len(keys)):
        for j in range(i + 1, len(keys)):
            if syms[i] == syms[j] and keys[i][1] and keys[j][1] and keys[i][1] > keys[j][1]:
                return 'isotope %d of %s is listed before isotope %d' % (keys[i][1], syms[i], keys[j][1])
    return None


def _leaves(structure, out=None):
    if out is None:
        out = []
    for c, frag in structure:
        if isinstance(frag, (list, tuple)):
            _leaves(frag, out)
        else:
            out.append((c, frag))
    return out


def _deep_tuple(structure):
    return tuple((c, _deep_tuple(frag) if isinstance(frag, (list, tuple)) else frag) for c, frag in structure)


def _modulo_charge_order(keyed):
    """Leaves (count, key) with every run of one nuclide sorted by charge."""
    out, i = [], 0
    while i < len(keyed):
        j = i
        while j < len(keyed) and keyed[j][1][:2] == keyed[i][1][:2]:
            j += 1
        out.extend(sorted(keyed[i:j], key=lambda ck: ck[1][2]))
        i = j
    return out


# ---------------------------------------------------------------- monitors
def setup(ctx):
    import icontract
    import periodictable as pt
    from periodictable import core, formulas, mass, density
    from ..ref.masses import MassModel
    from ..statemon import Reach
    from ..atoms import key as akey
    from ..gen.formulas import watch_private

    _s['model'] = MassModel()
    T = core.PeriodicTable('c19_private_%d' % ctx.shard)
    mass.init(T)
    density.init(T)
    _s['tables'] = {'public': pt.elements, 'private': T}
    reach = Reach()
    # _hill_key and _convert_to_hill_notation are PRIVATE helpers of the pinned tree: optional reach counters and
    # contract (requirements waived when a name is gone: renamed, inlined, replaced by a comparison class, ...)
    watch_private(ctx, reach, formulas, '_hill_key')
    convert = watch_private(ctx, reach, formulas, '_convert_to_hill_notation',
                            waived=['contract._convert_to_hill_notation'])
    reach.watch(formulas.Formula.hill, 'Formula.hill').watch(formulas.Formula.__eq__, 'Formula.__eq__')
    _s['reach'] = reach
    stats = _s['stats'] = {'evals': 0, 'unrecognised': 0}

    def hill_sequence_is_an_ordered_permutation_of_the_input(atoms, result):
        try:
            pairs = [(c, a) for c, a in result]
        except Exception:
            stats['unrecognised'] += 1      # not a sequence of (count, atom) pairs in this tree: not judged here
            return True                     # (the public Hill form built from it is judged by the checks)
        stats['evals'] += 1
        if len(pairs) != len(atoms):
            return False
        seen = set()
        for c, a in pairs:
            if a not in atoms or id(a) in seen or not (atoms[a] is c or atoms[a] == c):
                return False
            seen.add(id(a))
        return order_problem([akey(a) for _, a in pairs]) is None

    if convert is not None:
        def judged(atoms):
            return convert(atoms)
        judged = icontract.ensure(hill_sequence_is_an_ordered_permutation_of_the_input, error=HillContractBroken)(judged)

        def _convert_to_hill_notation(*args, **kw):
            # pinned form: one {atom: count} mapping in, a sequence of (count, atom) pairs out; any other call is
            # passed through un-judged
            if len(args) == 1 and not kw and isinstance(args[0], dict):
                return judged(args[0])
            stats['unrecognised'] += 1
            return convert(*args, **kw)
        _convert_to_hill_notation.__wrapped__ = convert
        _convert_to_hill_notation.__doc__ = getattr(convert, '__doc__', None)
        formulas._convert_to_hill_notation = _convert_to_hill_notation
    reach.start()
    if not ctx.replay:
        for name in ('_hill_key', '_convert_to_hill_notation', 'Formula.hill', 'Formula.__eq__'):
            ctx.require('reach.' + name, 1, 'the workload must enter this anchored mechanism')
        ctx.require('contract._convert_to_hill_notation', 1, 'the postcondition must have been evaluated')
        for name in ('feature.multi-charge', 'feature.multi-isotope', 'feature.digit-boundary', 'feature.zero-count',
                     'feature.D-or-T', 'feature.H[1]', 'feature.C', 'feature.H', 'feature.C-or-H-lookalike',
                     'rendering.str-flat', 'rendering.str-grouped', 'rendering.dict', 'rendering.seq', 'rendering.arith',
                     'hill-string.parsed', 'hill-string.float-counts', 'counts.flavour.float', 'counts.flavour.fraction',
                     'counts.flavour.decimal', 'counts.below-1e-6', 'counts.above-1e6', 'counts.more-than-6-decimals',
                     'counts.numpy', 'counts.Fraction', 'counts.Decimal'):
            ctx.require(name, 1, 'workload feature demanded by the property quantifier')


def finish(ctx):
    _s['reach'].stop()
    _s['reach'].export(ctx)
    ctx.count('contract._convert_to_hill_notation', _s['stats']['evals'])
    from ..gen.formulas import waive_dead
    waive_dead(ctx, '_hill_key', [], 'reach.Formula.hill')
    waive_dead(ctx, '_convert_to_hill_notation', ['contract._convert_to_hill_notation'], 'reach.Formula.hill')
    if _s['stats']['unrecognised']:
        from ..gen.formulas import waive_unjudged
        ctx.count('contract._convert_to_hill_notation.unrecognised_call', _s['stats']['unrecognised'])
        waive_unjudged(ctx, 'contract._convert_to_hill_notation', _s['stats']['evals'], _s['stats']['unrecognised'],
                       'the private formulas._convert_to_hill_notation')


# ---------------------------------------------------------------- check
def _report(ctx, kind, msg, **detail):
    ctx.violation(msg, kind=kind, **detail)


def check_multiset(ctx, case):
    from periodictable import formulas
    from ..atoms import key as akey, render
    from ..gen.programs import run_program, loads
    import random
    T = _s['tables'][case.get('table', 'public')]
    want = dict(((z, a, q), n) for z, a, q, n in case['multiset'])
    for ft in case.get('features', []):
        ctx.count('feature.' + ft)
    multi_charge = len(set(k[:2] for k in want)) < len(want)
    forms = []
    for r in case['renderings']:
        ctx.count('rendering.' + r['kind'])
        try:
            f = run_program(loads(r['prog']), T)[-1]
        except HillContractBroken as exc:
            _report(ctx, 'contract', 'rendering %s: _convert_to_hill_notation postcondition violated: %s'
                    % (r['kind'], _contract_text(exc)), rendering=r['kind'], multi_charge=multi_charge)
            return
        got = {}
        for a, c in f.atoms.items():
            got[akey(a)] = got.get(akey(a), 0) + c
        ctx.evaluated(what='rendering-atoms')
        if got != want:
            # the precondition of the property (equal compositions) is not met: a C01/C02 matter, reported all the same
            _report(ctx, 'rendering-atoms', 'rendering %s has atoms %r, the multiset is %r' % (r['kind'], got, want),
                    rendering=r['kind'])
            return
        forms.append((r['kind'], f))
    problems = {}

    def problem(kind, msg, **detail):
        if kind not in problems:
            problems[kind] = (msg, detail)

    hills = []
    for kind, f in forms:
        try:
            h = f.hill
        except HillContractBroken as exc:
            problem('contract', 'rendering %s: _convert_to_hill_notation postcondition violated: %s'
                    % (kind, _contract_text(exc)), rendering=kind)
            continue
        hills.append((kind, f, h))
        # composition
        ctx.evaluated(what='hill-atoms')
        fa, ha = f.atoms, h.atoms
        if not (ha == fa):
            problem('hill-atoms', 'rendering %s: hill.atoms is %r, atoms is %r' % (kind, ha, fa), rendering=kind)
        # order
        ctx.evaluated(what='hill-order')
        keys = [akey(a) for _, a in _leaves(h.structure)]
        op = order_problem(keys)
        if op:
            problem('hill-order', 'rendering %s: Hill form %r is not in Hill order: %s' % (kind, h.structure, op),
                    rendering=kind, order=[list(k) for k in keys])
        # idempotence
        ctx.evaluated(what='hill-idempotent')
        try:
            hh = h.hill
            if not (hh == h):
                problem('hill-idempotent', 'rendering %s: hill.hill %r != hill %r' % (kind, hh.structure, h.structure),
                        rendering=kind, equal_as_tuples=_deep_tuple(hh.structure) == _deep_tuple(h.structure))
        except HillContractBroken as exc:
            problem('contract', 'hill of hill: postcondition violated: %s' % _contract_text(exc))
    # canonicity: equal atoms -> equal Hill forms
    if hills:
        k0, f0, h0 = hills[0]
        for kind, f, h in hills[1:]:
            ctx.evaluated(what='hill-canonical')
            if not (f.atoms == f0.atoms):
                problem('rendering-atoms', 'renderings %s and %s have unequal atoms dictionaries' % (k0, kind))
                continue
            if not (h == h0) or not (h0 == h):
                a = [(c, akey(x)) for c, x in _leaves(h0.structure)]
                b = [(c, akey(x)) for c, x in _leaves(h.structure)]
                problem('hill-canonical',
                        'equal atoms, unequal Hill forms: %s gives %r, %s gives %r' % (k0, h0.structure, kind, h.structure),
                        renderings=[k0, kind], multi_charge=multi_charge,
                        equal_modulo_charge_order=_modulo_charge_order(a) == _modulo_charge_order(b),
                        equal_as_tuples=_deep_tuple(h.structure) == _deep_tuple(h0.structure))
        # the Hill order written as a string, parsed, equals its own Hill form
        keyed = [(c, akey(a)) for c, a in _leaves(h0.structure)]
        if 'hill-order' not in problems and all(c == int(c) and c > 0 for c, _ in keyed):
            rng = random.Random(case.get('seed', 0))
            text = ''.join(render(T, k, rng) + ('' if c == 1 and rng.random() < 0.9 else str(int(c))) for c, k in keyed)
            ctx.evaluated(what='hill-string')
            ctx.count('hill-string.parsed')
            try:
                p = formulas.formula(text, table=T)
                ph = p.hill
            except HillContractBroken as exc:
                problem('contract', 'hill of parsed %r: postcondition violated: %s' % (text, _contract_text(exc)))
            else:
                if not (p == ph) or not (ph == p):
                    problem('hill-string', 'formula(%r) is written in Hill order but != its own .hill: %r vs %r'
                            % (text, p.structure, ph.structure), text=text,
                            hill_structure_type=type(ph.structure).__name__,
                            parsed_structure_type=type(p.structure).__name__,
                            equal_as_tuples=_deep_tuple(p.structure) == _deep_tuple(ph.structure))
                elif not (ph == h0):
                    problem('hill-canonical', 'formula(%r).hill %r != Hill form of rendering %s %r'
                            % (text, ph.structure, k0, h0.structure), renderings=['hill-string', k0], multi_charge=multi_charge,
                            equal_modulo_charge_order=False,
                            equal_as_tuples=_deep_tuple(ph.structure) == _deep_tuple(h0.structure))
        elif any(c == 0 for c, _ in keyed):
            ctx.count('hill-string.skipped-zero-count')
    for kind, (msg, detail) in problems.items():
        _report(ctx, kind, msg, **detail)
    if len(want) >= 2:
        ctx.distinct_case(tuple(sorted(want)))


# ---------------------------------------------------------------- counts of every magnitude and type
def _positional(c):
    """Positional decimal text that reads back as exactly the float value of c."""
    from decimal import Decimal
    if isinstance(c, int) and not isinstance(c, bool):
        return str(c)
    text = format(Decimal(repr(float(c))), 'f')
    return text


def check_counts(ctx, case):
    """The Hill form must not touch counts: formulas with float / numpy / Fraction / Decimal counts of every
    magnitude (built by a random program) against their own .atoms, exactly; canonicity against re-renderings of
    exactly those count objects; the Hill order written with positional counts against its own Hill form."""
    import random
    from periodictable import formulas
    from ..atoms import key as akey, render
    from ..gen.programs import run_program, loads
    T = _s['tables'][case.get('table', 'public')]
    flavour = case['flavour']
    exotic = flavour in ('fraction', 'decimal')
    ctx.count('counts.flavour.' + flavour)
    try:
        V = run_program(loads(case['prog']), T)
        seen, forms = set(), []
        for f in V:
            if id(f) not in seen:
                seen.add(id(f))
                forms.append((f, dict(f.atoms)))
    except HillContractBroken as exc:
        _report(ctx, 'contract', 'counts program: _convert_to_hill_notation postcondition violated: %s'
                % _contract_text(exc), flavour=flavour)
        return
    except Exception:
        if exotic:
            # Fraction / Decimal counts are judged only where the constructors and .atoms accept them
            ctx.count('counts.exotic-not-accepted')
            return
        raise
    problems = {}

    def problem(kind, msg, **detail):
        if kind not in problems:
            problems[kind] = (msg, detail)

    last = None
    for n, (f, fa) in enumerate(forms):
        try:
            h = f.hill
            ha = h.atoms
        except HillContractBroken as exc:
            problem('contract', 'variable %d: _convert_to_hill_notation postcondition violated: %s'
                    % (n, _contract_text(exc)), flavour=flavour)
            continue
        ctx.evaluated(what='hill-atoms')
        if not (ha == fa) or set(ha) != set(fa):
            bad = [(a, fa.get(a), ha.get(a)) for a in fa if not (a in ha and ha[a] == fa[a])][:3]
            problem('hill-atoms', 'formula %r: hill.atoms differs from atoms: %s'
                    % (f.structure, '; '.join('%s is %r, in the Hill form %r' % b for b in bad) or
                       'atom sets %r vs %r' % (sorted(map(str, ha)), sorted(map(str, fa)))), flavour=flavour)
        ctx.evaluated(what='hill-order')
        keys = [akey(a) for _, a in _leaves(h.structure)]
        op = order_problem(keys)
        if op:
            problem('hill-order', 'Hill form %r is not in Hill order: %s' % (h.structure, op), flavour=flavour,
                    order=[list(k) for k in keys])
        ctx.evaluated(what='hill-idempotent')
        try:
            hh = h.hill
            if not (hh == h) or not (h == hh):
                problem('hill-idempotent', 'hill.hill %r != hill %r' % (hh.structure, h.structure), flavour=flavour,
                        equal_as_tuples=_deep_tuple(hh.structure) == _deep_tuple(h.structure))
        except HillContractBroken as exc:
            problem('contract', 'hill of hill: postcondition violated: %s' % _contract_text(exc), flavour=flavour)
        last = (f, fa, h)
        for a, c in fa.items():
            v = abs(float(c))
            if 0 < v < 1e-6:
                ctx.count('counts.below-1e-6')
            if v >= 1e6:
                ctx.count('counts.above-1e6')
            if v and round(v, 6) != v:
                ctx.count('counts.more-than-6-decimals')
            if type(c).__module__ == 'numpy':
                ctx.count('counts.numpy')
            if type(c).__name__ in ('Fraction', 'Decimal'):
                ctx.count('counts.' + type(c).__name__)
    if last is not None and last[1]:
        f, fa, h = last
        rng = random.Random(case.get('seed', 0))
        items = list(fa.items())
        rng.shuffle(items)
        # canonicity on exactly these count objects: a dict and a flat sequence in other orders
        others = []
        try:
            others.append(('dict', formulas.formula(dict(items))))
            others.append(('seq', formulas.formula([(c, a) for a, c in reversed(items)])))
            if not exotic:
                import collections
                others.append(('ordered-dict', formulas.formula(collections.OrderedDict(reversed(items)))))
                others.append(('defaultdict', formulas.formula(collections.defaultdict(float, items[1:] + items[:1]))))
            if len(items) >= 2:
                j = rng.randint(1, len(items) - 1)
                others.append(('seq-grouped', formulas.formula([(1, [(c, a) for a, c in items[j:]])] +
                                                               [(c, a) for a, c in items[:j]])))
            others = [(k, g, g.atoms) for k, g in others]
        except HillContractBroken as exc:
            problem('contract', 're-rendering: postcondition violated: %s' % _contract_text(exc), flavour=flavour)
            others = []
        except Exception:
            if not exotic:
                raise
            ctx.count('counts.exotic-not-accepted')
            others = []
        for kind, g, ga in others:
            ctx.evaluated(what='hill-canonical')
            if not (ga == fa):
                if not exotic:
                    problem('rendering-atoms', 're-rendering %s of atoms %r has atoms %r' % (kind, fa, ga), rendering=kind)
                continue
            try:
                gh = g.hill
            except HillContractBroken as exc:
                problem('contract', 're-rendering %s: postcondition violated: %s' % (kind, _contract_text(exc)))
                continue
            if not (gh == h) or not (h == gh):
                problem('hill-canonical', 'equal atoms, unequal Hill forms: %r and its %s re-rendering %r'
                        % (h.structure, kind, gh.structure), renderings=['program', kind], multi_charge=False,
                        equal_modulo_charge_order=False, flavour=flavour,
                        equal_as_tuples=_deep_tuple(gh.structure) == _deep_tuple(h.structure))
        # the Hill order written as a string with positional counts
        keyed = [(c, akey(a)) for c, a in _leaves(h.structure)]
        if flavour == 'float' and 'hill-order' not in problems and all(float(c) > 0 for c, _ in keyed):
            text = ''.join(render(T, k, rng) + ('' if c == 1 and rng.random() < 0.9 else _positional(c)) for c, k in keyed)
            ctx.evaluated(what='hill-string')
            ctx.count('hill-string.float-counts')
            try:
                pf = formulas.formula(text, table=T)
                ph = pf.hill
            except HillContractBroken as exc:
                problem('contract', 'hill of parsed %r: postcondition violated: %s' % (text, _contract_text(exc)))
            else:
                if not (pf == ph) or not (ph == pf):
                    problem('hill-string', 'formula(%r) is written in Hill order but != its own .hill: %r vs %r'
                            % (text, pf.structure, ph.structure), text=text, flavour=flavour,
                            hill_structure_type=type(ph.structure).__name__,
                            parsed_structure_type=type(pf.structure).__name__,
                            equal_as_tuples=_deep_tuple(pf.structure) == _deep_tuple(ph.structure))
                elif not (ph.atoms == pf.atoms):
                    problem('hill-atoms', 'formula(%r): hill.atoms %r differs from atoms %r' % (text, ph.atoms, pf.atoms),
                            flavour=flavour)
        if len(fa) >= 2:
            ctx.distinct_case(('counts', flavour, tuple(sorted(akey(a) for a in fa))))
    for kind, (msg, detail) in problems.items():
        _report(ctx, kind, msg, **detail)


CHECKS = {'multiset': check_multiset, 'counts': check_counts}


# ---------------------------------------------------------------- workload
LOOKALIKES = [20, 17, 55, 27, 29, 24, 58, 48, 96, 98, 112, 2, 72, 80, 67, 108]   # Ca Cl Cs Co Cu Cr Ce Cd Cm Cf Cn He Hf Hg Ho Hs


class MultisetGen(object):
    def __init__(self, table, rng):
        self.T = table
        self.rng = rng
        self.boundary = [el.number for el in table if el.number >= 1 and el.isotopes
                         and (min(el.isotopes) < 10 <= max(el.isotopes) or min(el.isotopes) < 100 <= max(el.isotopes))]

    def keys(self, multi, feats):
        rng, T = self.rng, self.T
        out = []
        if rng.random() < 0.35:
            fam = [(1, 0, 0), (1, 1, 0), (1, 2, 0), (1, 3, 0), (1, 0, 1), (1, 0, -1), (1, 2, 1), (1, 3, -1), (1, 1, 1), (1, 4, 0)]
            out += rng.sample(fam, rng.randint(1, 4))
        if rng.random() < 0.4:
            out += rng.sample([(6, 0, 0), (6, 0, 0), (6, 13, 0), (6, 14, 0), (6, 9, 0), (6, 10, 0), (6, 0, 4), (6, 12, -4)], rng.randint(1, 2))
        if rng.random() < 0.3:
            out += [(z, 0, 0) for z in rng.sample(LOOKALIKES, rng.randint(1, 3))]
        for _ in range(rng.randint(0, 3)):
            el = T[rng.randint(1, 118)]
            A = rng.choice(el.isotopes) if el.isotopes and rng.random() < 0.3 else 0
            q = rng.choice(el.ions) if el.ions and rng.random() < 0.3 else 0
            out.append((el.number, A, q))
        if rng.random() < 0.3:
            # several isotopes of one element, across a digit boundary of the mass number where there is one
            el = T[rng.choice(self.boundary)] if rng.random() < 0.6 else T[rng.randint(1, 118)]
            iso = el.isotopes
            if len(iso) >= 2:
                b = 10 if min(iso) < 10 <= max(iso) else 100
                lo = [a for a in iso if a < b]
                hi = [a for a in iso if a >= b]
                pick = [rng.choice(lo), rng.choice(hi)] if lo and hi else rng.sample(iso, 2)
                if len(iso) > 2 and rng.random() < 0.5:
                    pick.append(rng.choice(iso))
                q = rng.choice(el.ions) if el.ions and rng.random() < 0.2 else 0
                out += [(el.number, a, q) for a in pick]
                if rng.random() < 0.3:
                    out.append((el.number, 0, q))
        if multi:
            # several charge states of one element or of one isotope
            el = T[rng.choice([z for z in range(1, 119) if len(T[z].ions) >= 2])]
            A = rng.choice(el.isotopes) if el.isotopes and rng.random() < 0.5 else 0
            qs = rng.sample(list(el.ions) + [0], rng.randint(2, min(4, len(el.ions) + 1)))
            out += [(el.number, A, q) for q in qs]
        if not out:
            out.append((rng.randint(1, 118), 0, 0))
        out = list(dict.fromkeys(out))
        rng.shuffle(out)
        if not multi:
            seen, keep = set(), []
            for k in out:
                if k[:2] not in seen:
                    seen.add(k[:2])
                    keep.append(k)
            out = keep
        out = out[:8]
        # features actually present
        if len(set(k[:2] for k in out)) < len(out):
            feats.add('multi-charge')
        byZ = {}
        for k in out:
            if k[1] and not (k[0] == 1 and k[1] in (2, 3)):
                byZ.setdefault(k[0], set()).add(k[1])
        for z, As in byZ.items():
            if len(As) >= 2:
                feats.add('multi-isotope')
                if len(set(len(str(a)) for a in As)) > 1:
                    feats.add('digit-boundary')
        if any(k[0] == 1 and k[1] in (2, 3) for k in out):
            feats.add('D-or-T')
        if any(k[:2] == (1, 1) for k in out):
            feats.add('H[1]')
        if any(k[0] == 6 for k in out):
            feats.add('C')
        if any(k[0] == 1 and k[1] not in (2, 3) for k in out):
            feats.add('H')
        if any(k[0] in LOOKALIKES for k in out):
            feats.add('C-or-H-lookalike')
        return out

    def multiset(self, multi, zero):
        rng = self.rng
        feats = set()
        keys = self.keys(multi, feats)
        ms = dict((k, rng.choice([1, 1, 2, 3, 4, 6, 12, rng.randint(1, 30), rng.choice([100, 1000, 65536])])) for k in keys)
        if zero:
            el = self.T[rng.randint(1, 118)]
            k = (el.number, 0, 0)
            if k[:2] not in set(x[:2] for x in ms):
                ms[k] = 0
                feats.add('zero-count')
        return ms, feats

    # -- renderings: each returns a list of statements whose last new variable is the formula -------
    def _num(self, n, plain=False):
        r = self.rng.random()
        if plain or r < 0.8:
            return ['i', n]
        if r < 0.9:
            return ['f', float(n)]
        return ['ni64', n]

    def _split(self, items, p=0.3):
        """Some atoms are written twice with their count split."""
        rng = self.rng
        out = []
        for k, n in items:
            if n >= 2 and rng.random() < p:
                a = rng.randint(1, n - 1)
                out += [(k, a), (k, n - a)]
            else:
                out.append((k, n))
        rng.shuffle(out)
        return out

    def _flat_text(self, items):
        from ..atoms import render
        rng = self.rng
        text, struct = '', []
        for i, (k, n) in enumerate(items):
            if i:
                text += rng.choice(['', '', '', ' ', '+', ' + '])
            text += render(self.T, k, rng) + ('' if n == 1 and rng.random() < 0.85 else str(n))
            struct.append([str(n), list(k)])
        return text, struct

    def str_flat(self, ms):
        text, struct = self._flat_text(self._split(list(ms.items())))
        return [{'op': 'str', 'text': text, 'struct': struct}]

    def _group(self, items):
        """Split items into (outside, inside, divisor): inside counts are divided by the divisor."""
        rng = self.rng
        items = list(items)
        rng.shuffle(items)
        n_in = rng.randint(1, len(items))
        inside, outside = items[:n_in], items[n_in:]
        g = 0
        for _, n in inside:
            g = gcd(g, n)
        divs = [d for d in range(1, min(g, 60) + 1) if g % d == 0] or [1]
        d = rng.choice(divs) if rng.random() < 0.8 else 1
        return outside, [(k, n // d) for k, n in inside], d

    def str_grouped(self, ms):
        rng = self.rng
        outside, inside, d = self._group(self._split(list(ms.items()), 0.2))
        cut = rng.randint(0, len(outside))
        t1, s1 = self._flat_text(outside[:cut])
        t2, s2 = self._flat_text(outside[cut:])
        ti, si = self._flat_text(inside)
        if len(inside) >= 2 and rng.random() < 0.4:
            # one more level inside
            j = rng.randint(1, len(inside) - 1)
            ta, sa = self._flat_text(inside[:j])
            tb, sb = self._flat_text(inside[j:])
            ti, si = ta + '(' + tb + ')', sa + [['1', sb]]
        if d != 1 and rng.random() < 0.3:
            # counted implicit group; it must end at white space, '+' or the end of the string
            ti2, si2 = self._flat_text(inside)
            if '+' not in ti2 and ' ' not in ti2:
                text = t1 + ('+' if t1 else '') + str(d) + ti2 + (' + ' + t2 if t2 else '')
                return [{'op': 'str', 'text': text, 'struct': s1 + [[str(d), si2]] + s2}]
        text = t1 + rng.choice(['', ' ', '+'] if t1 else ['']) + '(' + ti + ')' + (str(d) if d != 1 else '') \
            + (rng.choice(['', ' ', '+']) if t2 else '') + t2
        return [{'op': 'str', 'text': text, 'struct': s1 + [[str(d), si]] + s2}]

    def as_dict(self, ms):
        items = list(ms.items())
        self.rng.shuffle(items)
        return [{'op': 'dict', 'items': [[list(k), self._num(n)] for k, n in items]}]

    def as_seq(self, ms):
        rng = self.rng
        outside, inside, d = self._group(self._split(list(ms.items()), 0.2))
        q = [[self._num(n), list(k)] for k, n in inside]
        if len(q) >= 2 and rng.random() < 0.4:
            j = rng.randint(1, len(q) - 1)
            q = q[:j] + [[['i', 1], q[j:]]]
        struct = [[self._num(n), list(k)] for k, n in outside]
        struct.insert(rng.randint(0, len(struct)), [self._num(d, plain=rng.random() < 0.5), q])
        return [{'op': 'seq', 'struct': struct, 'tuples': rng.random() < 0.5}]

    def leaf(self, ms, allow_zero=False):
        rng = self.rng
        if len(ms) == 1 and list(ms.values()) == [1] and rng.random() < 0.5:
            return [{'op': 'atom', 'key': list(next(iter(ms)))}]
        fns = [self.as_dict, self.as_seq, self.str_flat, self.str_grouped]
        if any(n == 0 for n in ms.values()):
            fns = [self.as_dict]
        return rng.choice(fns)(ms)

    def arith(self, ms):
        """Statements computing the multiset by +, n*, += (and 0* for zero-count atoms)."""
        rng = self.rng
        pos = dict((k, n) for k, n in ms.items() if n > 0)
        zero = [k for k, n in ms.items() if n == 0]
        nparts = rng.randint(2, 3)
        parts = [dict() for _ in range(nparts)]
        for k, n in pos.items():
            left = n
            order = list(range(nparts))
            rng.shuffle(order)
            for i in order[:-1]:
                a = rng.randint(0, left) if rng.random() < 0.6 else 0
                if a:
                    parts[i][k] = a
                left -= a
            if left:
                parts[order[-1]][k] = left
        parts = [p for p in parts if p]
        stmts = []
        terms = []      # variable indices of the terms to be summed
        nvars = 0
        for p in parts:
            g = 0
            for n in p.values():
                g = gcd(g, n)
            if g > 1 and rng.random() < 0.5:
                d = rng.choice([x for x in range(2, min(g, 60) + 1) if g % x == 0] or [g])
                stmts += self.leaf(dict((k, n // d) for k, n in p.items()))
                stmts.append({'op': 'mul', 'n': self._num(d), 'src': nvars})
                nvars += 2
            else:
                stmts += self.leaf(p)
                nvars += 1
                if rng.random() < 0.2:
                    stmts.append({'op': 'mul', 'n': ['i', 1], 'src': nvars - 1})
                    nvars += 1
            terms.append(nvars - 1)
        if zero:
            stmts += self.as_dict(dict((k, rng.randint(1, 9)) for k in zero))
            stmts.append({'op': 'mul', 'n': rng.choice([['i', 0], ['f', 0.0], ['ni64', 0]]), 'src': nvars})
            nvars += 2
            terms.append(nvars - 1)
        rng.shuffle(terms)
        if not terms:
            stmts.append({'op': 'empty', 'how': 'none'})
            return stmts
        acc = terms[0]
        for t in terms[1:]:
            if rng.random() < 0.5:
                stmts.append({'op': 'add', 'a': acc, 'b': t})
                nvars += 1
                acc = nvars - 1
            else:
                # in place, on a copy so that the term itself stays what it was
                stmts.append({'op': 'copy', 'src': acc})
                nvars += 1
                acc = nvars - 1
                stmts.append({'op': 'iadd', 'a': acc, 'b': t})
        if stmts[-1]['op'] == 'iadd' or acc != nvars - 1:
            stmts.append({'op': 'alias', 'src': acc})
        # read-only uses (print, Hill form, atoms, mass) of intermediate values between the operations:
        # hostile to any state a formula keeps about itself
        out, nv = [], 0
        for st in stmts:
            out.append(st)
            if st['op'] != 'iadd':
                nv += 1
            if rng.random() < 0.35:
                out.append({'op': 'observe', 'src': rng.randrange(nv)})
        return out

    def case(self, multi, zero):
        from ..gen.programs import run_shadow, dumps
        rng = self.rng
        ms, feats = self.multiset(multi, zero)
        want = dict((k, Fraction(n)) for k, n in ms.items())
        has_zero = any(n == 0 for n in ms.values())
        kinds = ['dict', 'arith', 'arith', 'seq', 'dict'] if has_zero else \
            ['str-flat', 'str-grouped', 'dict', 'seq', 'arith', 'arith', 'str-flat']
        fns = {'str-flat': self.str_flat, 'str-grouped': self.str_grouped, 'dict': self.as_dict,
               'seq': self.as_seq, 'arith': self.arith}
        chosen = rng.sample(kinds, 4)
        if has_zero and 'seq' in chosen:
            chosen[chosen.index('seq')] = 'arith'
        renderings = []
        for kind in chosen:
            prog = {'stmts': fns[kind](ms)}
            sh = run_shadow(prog)
            got = dict((k, v) for k, v in sh.atoms(len(sh.var) - 1).items())
            if got != want:   # generator self-check, before the library is involved
                raise AssertionError('rendering %s of %r denotes %r: %r' % (kind, ms, got, prog))
            renderings.append({'kind': kind, 'prog': dumps(prog)})
        return {'multiset': [[k[0], k[1], k[2], n] for k, n in ms.items()], 'renderings': renderings,
                'features': sorted(feats), 'seed': rng.randrange(1 << 30)}


HOSTILE_COUNTS = [2.5e-7, 1.6e-6, 4.9e-7, 5e-7, 1e-7, 1e-12, 0.1 + 0.2, 1 / 3, 2 / 3, 1.0000005, 0.9999995, 123456.7890125,
                  3.3333335, 1e-6, 1.5e-6, 999999.9999995, 1e12 + 0.5, 0.0000014999, 7.00000049]


class CountsGen(object):
    """Number specs of one flavour: 'float' (python / numpy floats of every magnitude and up to 17 significant
    digits, some integers), 'fraction' (Fractions and integers), 'decimal' (Decimals and integers)."""

    def __init__(self, rng, flavour):
        self.rng = rng
        self.flavour = flavour

    def _float(self, lo=-12, hi=12):
        rng = self.rng
        if rng.random() < 0.15:
            return rng.choice(HOSTILE_COUNTS)
        digits = rng.choice([1, 2, 3, 6, 7, 8, 10, 15, 17, 17])
        m = round(rng.uniform(1, 10), digits - 1)
        return float('%.*e' % (digits - 1, m * 10 ** rng.uniform(lo, hi)))

    def number(self, rng=None):
        import numpy as np
        rng = self.rng
        r = rng.random()
        if r < 0.2:
            return [rng.choice(['i', 'i', 'ni64']), rng.choice([1, 1, 2, 3, rng.randint(1, 50)])]
        if self.flavour == 'fraction':
            q = rng.choice([3, 7, 9, 11, 13, 10 ** rng.randint(6, 12), 10 ** rng.randint(1, 9) + 1, rng.randint(2, 10 ** 6)])
            return ['frac', '%d/%d' % (rng.randint(1, 10 ** rng.randint(1, 9)), q)]
        if self.flavour == 'decimal':
            digits = rng.choice([1, 3, 7, 9, 12, 20])
            mant = str(rng.randint(1, 9)) + ''.join(rng.choice('0123456789') for _ in range(digits - 1))
            return ['dec', '%s.%sE%d' % (mant[0], mant[1:] or '0', rng.randint(-12, 6))]
        v = self._float()
        kind = rng.choice(['f', 'f', 'f', 'nf64', 'nf64', 'nf32'])
        if kind == 'nf32':
            v = float(np.float32(v))
        return [kind, v]

    def multiplier(self, rng=None):
        spec = self.number()
        if spec[0] in ('f', 'nf64', 'nf32') and not (1e-9 < spec[1] < 1e9):
            spec = ['f', self._float(-7, 3)]
        return spec

    def string_count(self, allow_one=True, p_one=0.35):
        rng = self.rng
        if allow_one and rng.random() < p_one:
            return '', Fraction(1)
        if self.flavour == 'decimal' or rng.random() < 0.3:
            n = rng.randint(2, 40)
            return str(n), Fraction(n)
        text = _positional(self._float())
        return text, Fraction(text)


def counts_case(rng, T, tname):
    from ..gen.programs import ProgramGen, dumps
    flavour = rng.choice(['float', 'float', 'float', 'float', 'fraction', 'decimal'])
    cg = CountsGen(rng, flavour)
    pg = ProgramGen(T, rng, positive=True, protocols=True, leaf_count=cg.number, multiplier=cg.multiplier, names=False,
                    p_dt=0.1, string_counts=cg.string_count)
    pg.fgen.p_dt = 0.1
    prog = pg.program(rng.choice([1, 1, 2, 3, 4, 6]))
    return {'flavour': flavour, 'prog': dumps(prog), 'table': tname, 'seed': rng.randrange(1 << 30)}


def generate(ctx):
    rng = ctx.rng
    gens = dict((t, MultisetGen(T, rng)) for t, T in _s['tables'].items())
    ncounts = ctx.scale(170, 4000)
    every = max(1, ctx.scale(500, 12000) // ncounts)
    for i in range(ctx.scale(500, 12000)):
        tname = 'private' if rng.random() < 0.1 else 'public'
        case = gens[tname].case(multi=rng.random() < 0.10, zero=rng.random() < 0.06)
        case['table'] = tname
        yield 'multiset', case
        if i % every == 0:
            tname = 'private' if rng.random() < 0.1 else 'public'
            yield 'counts', counts_case(rng, _s['tables'][tname], tname)


def classify(rec):
    d = rec.get('detail') or {}
    kind = d.get('kind')
    if kind == 'hill-string' and d.get('equal_as_tuples') is True and d.get('hill_structure_type') == 'list' \
            and d.get('parsed_structure_type') == 'tuple':
        # the two structures hold the same pairs in the same order; only the container type differs
        return 'c19.hill-list-structure'
    if kind == 'hill-canonical' and d.get('multi_charge') is True and d.get('equal_modulo_charge_order') is True \
            and d.get('equal_as_tuples') is False:
        # the two Hill forms differ only in the order of different charge states of one nuclide
        return 'c19.hill-key-ignores-charge'
    return None
