"""C14 - activation equals the solution of the documented capture/decay chains.

Every one of the 513 reaction rows of activation.dat is driven through
``activation.activity`` on a stratified grid and on log-uniform random points
and compared with the 80-digit closed-form chain solution of
pvmon.ref.activation_ref (own reader of activation.dat, documented selection
rules for cross section and flux).  Relation monitors (mass proportionality,
rest decay, exposure bound, fast-row omission), ``Sample`` workloads (natural
elements, explicit isotopes, both abundance functions), an in-process
postcondition on ``activation.activity`` and sys.monitoring line counters for
the branches complete the check."""
import math

from ..statemon import Reach

RULE = ('row cases: one (reaction row, environment, exposure, mass, rest-time list) per case, all 513 rows on a '
        'stratified 24-point grid plus log-uniform random points (thermal/fast ratio: 0, 0.02, 0.5, 0.8, 1 and 50 '
        'on the grid of every fast row; 0, those values or log-uniform over 1e-3..1e3 - fast flux above as well as '
        'below the thermal flux - on random points, relation and sample cases); the numbers are handed over as Python float / int, '
        'numpy float64 / float32 / int64 / int32 scalars (every row meets every fluence decade 1e2..1e16 once as '
        'float, once as Python int and once as numpy int64) and the rest times as list / tuple / numpy array, the '
        'reference is evaluated at exactly the value passed; distinct = distinct (row index, branch taken, '
        'decade of fluence, decade of exposure, Cd-ratio class, fast-ratio class 0 / below 1 / from 1) whose reference activity is above '
        'the 1e-300 floor (a compared, non-zero chain solution); relation cases: distinct (isotope, relation) pairs '
        'evaluated on a non-zero activity; sample cases: distinct (set of atoms, abundance function) with at least '
        'one activated product; half of the sample cases carry a history: one or two other Sample objects calculated '
        'before and re-read afterwards (own or shared, edited-in-place environment), or an earlier different '
        'calculation on the judged Sample object itself')
EXHAUSTIVE = False
SUITE_UNDER_CONTRACTS = True   # thorough tier: the repository's tests run with the activity() postcondition attached
TECHNIQUE = ('runtime monitoring: reference-model monitor (80-digit mpmath Bateman solutions over an independent '
             're-read of activation.dat) on every reaction row, metamorphic relation monitors, in-process '
             'postcondition on activation.activity, sys.monitoring line counters proving each branch was reached')
LEVEL_TEXT = ('All 513 reaction rows (exhaustive over rows) are evaluated through activation.activity on a stratified '
              'grid and log-uniform random environments spanning the quantified ranges and compared with an '
              'independent 80-digit evaluation of the documented chain solutions; relations between executions and '
              'Sample workloads cover mass proportionality, rest decay, exposure monotonicity, fast/epithermal '
              'selection and abundance weighting.  Numbers are handed over as Python int / float and numpy '
              'int64 / int32 / float64 / float32 scalars (integers up to 1e16 n/cm2/s), rest times as list / tuple / '
              'numpy array; Sample objects are re-read after later calculations on other objects and re-used for '
              'several calculations.  Environments are sampled, so the claim is exploration.'
              ' Added in rounds 4-7: ion atoms in sample formulas, environments built positionally, refused calculations on the judged Sample, judged calculation on a clone of an earlier Sample.')
LEVEL_NOTE = ('Trusted: mpmath, the csv-based reader pvmon/ref/activation_ref.py, pvmon/ref/masses.py, the spreadsheet '
              'constant 1.6278e19 and the documented selection rules (Cd ratio >= 1, fast ratio) as specification. '
              'Tolerance 1e-5 relative with 1e-300 absolute floor (DESIGN 5 C14); worst error per branch is reported.')
SHARDS = {'quick': 4, 'thorough': 16}
TIMEOUT = {'quick': 600, 'thorough': 3600}
ASSUMPTIONS = [
    'activation.dat is the specification of cross sections and half-lives (its literature values are not checked)',
    'chain equations and selection rules as documented in activation.py (effective cross section thermal + '
    'resonance/Cd_ratio for Cd_ratio >= 1, fast flux = fluence/fast_ratio, second step always on the thermal fluence)',
    'microcurie conversion constant 1.6278e19 is data',
    'tolerance: relative 1e-5, absolute floor 1e-300; a 2n or large-argument burn-up mismatch is attributed to a '
    'listed cancellation finding only within 64*2^-52*kappa of the reference',
    'mpmath at 80 digits (precision doubled while cancellation exceeds 1e40)',
    'the chain solution is evaluated at exactly the number passed (Python int, numpy int64/int32, numpy float64, '
    'numpy float32 widened to double); with a numpy float32 argument numpy keeps the library arithmetic in single '
    'precision, so such a value is judged (tolerance unchanged) only for results >= 1e-25 uCi, rest decay '
    'lambda*t <= 30 and a conditioning <= 10 of the quantities that carry the float32 rounding; the two-step '
    "('2n') rows are not judged with float32 fluence / mass / exposure",
    'a Sample object re-read after other Sample objects were calculated must still serve its own result '
    '(it is held to its own reference again whenever what it serves has changed)',
]

ELECTRON_MASS_U = 5.48579909065e-4   # u (CODATA 2018); an ion weighs its atom less charge electron masses
TOL = 1e-5
FLOOR = 1e-300
EPS = 2.0 ** -52
COND = 64 * EPS

_state = {}

F_GRID = [1e2, 1e4, 1e5, 1e8, 1e10, 1e12, 1e14, 1e16]
E_GRID = [1e-3, 1e-2, 1.0, 10.0, 1e2, 1e4]
CD_GRID = [0, 0.5, 1, 20, 70]
M_GRID = [1e-6, 1e-3, 1.0, 1e3]
REST_GRID = [[0], [0, 1, 24, 360], [0, 1e5], [0.01, 100], [5, 2, 0]]
GRID_POINTS = 24
FAST_GRID = {5: 0, 1: 0.5, 3: 0.02, 8: 0.8, 10: 1.0}     # grid point (mod 12) -> fast ratio of a fast row, else 50
FAST_VALUES = (0.02, 0.5, 0.8, 1.0)


# ----------------------------------------------------------------------------
# setup: reference table, row <-> library record map, monitors
# ----------------------------------------------------------------------------
def setup(ctx):
    import periodictable as pt
    from periodictable import activation as A
    from ..ref import activation_ref as R
    from ..ref.masses import MassModel
    T = R.ActivationTable()
    _state.update(R=R, T=T, A=A, pt=pt, mm=MassModel(), anomalies=[], probe=False,
                  post=dict(calls=0, values=0), rows_done=set(), suite=_suite_mode())
    pt.elements[1][2].neutron_activation   # force the lazy load before mapping
    rowmap = {}
    for (Z, Aa), lst in T.by_iso.items():
        recs = getattr(pt.elements[Z][Aa], 'neutron_activation', [])
        for r, q in zip(lst, recs):
            rowmap[id(q)] = r
    _state['rowmap'] = rowmap
    ctx.info['reader'] = {'rows': len(T.rows), 'target_nuclides': len(T.by_iso), 'ignored_lines': T.ignored_lines,
                          'sentinel_lines': T.sentinel_lines,
                          'reactions': {k: sum(1 for r in T.rows if r.reaction == k)
                                        for k in sorted({r.reaction for r in T.rows})},
                          'fast_rows': sum(1 for r in T.rows if r.fast)}
    hc = T.halflife_consistency()
    ctx.info['data_observation_halflife_columns_disagree'] = [
        '%s: t1/2 in hr %r vs text %s %s' % (T.by_index[i].label(), T.by_index[i].Thalf_hrs, T.by_index[i].thalf,
                                              T.by_index[i].thalf_unit)
        for i, v in sorted(hc.items()) if not v <= 0.05][:10]

    orig = A.activity
    reach = Reach()
    reach.watch(orig, 'activity.calls')
    reach.watch_line_matching(orig, 'activity = root/(parent_lam - lam)', 'branch.b')
    reach.watch_line_matching(orig, 'lam_2n = flux*initialXS', 'branch.2n')
    reach.watch_line_matching(orig, 'precision_correction = W', 'branch.burnup_small', occurrence=0)
    reach.watch_line_matching(orig, 'precision_correction = W', 'branch.burnup_large', occurrence=1)
    reach.watch_line_matching(orig, 'less than zero', 'branch.error_path')
    reach.watch(A.Sample.calculate_activation, 'Sample.calculate_activation')
    accumulate = getattr(A.Sample, '_accumulate', None)          # private helper: optional
    if getattr(accumulate, '__code__', None) is not None:
        reach.watch(accumulate, 'Sample._accumulate')
    else:
        ctx.count('anchor_missing.reach.Sample._accumulate')
        ctx.note('Sample._accumulate not found (refactored source?): reach counter is evidence only, requirement '
                 'waived; the abundance-weighted sums are judged through Sample.activity')
    _state['reach'] = reach

    NAMES = ('isotope', 'mass', 'env', 'exposure', 'rest_times')

    def activity_with_postcondition(*args, **kw):
        res = orig(*args, **kw)
        # the arguments by position / documented name; a call of another form passes through un-judged
        if len(args) > len(NAMES) or any(k not in NAMES[len(args):] for k in kw) or len(args) + len(kw) != len(NAMES):
            _state['post']['unrecognised'] = _state['post'].get('unrecognised', 0) + 1
            return res
        vals = dict(zip(NAMES, args))
        vals.update(kw)
        _post_activity(vals['isotope'], vals['mass'], vals['env'], vals['exposure'], vals['rest_times'], res)
        return res
    activity_with_postcondition.__wrapped__ = orig
    activity_with_postcondition.__doc__ = orig.__doc__
    A.activity = activity_with_postcondition     # Sample.calculate_activation goes through the module global
    _state['orig_activity'] = orig
    reach.start()


def _single_precision(*args):
    """True when one of the numbers (or an entry / the dtype of a sequence) is a numpy float narrower than double."""
    import numpy as np
    for a in args:
        if isinstance(a, np.ndarray):
            if a.dtype.kind == 'f' and a.dtype.itemsize < 8:
                return True
        elif isinstance(a, np.floating):
            if a.dtype.itemsize < 8:
                return True
        elif isinstance(a, (list, tuple)):
            if any(isinstance(x, np.floating) and x.dtype.itemsize < 8 for x in a):
                return True
    return False


def _suite_mode():
    """True under `python -m pvmon.suite`: no check function drains the anomalies there, so the
    postcondition raises and the repository test that triggered it fails."""
    import sys
    spec = getattr(sys.modules.get('__main__'), '__spec__', None)
    return bool(spec and spec.name == 'pvmon.suite')


def _post_activity(isotope, mass, env, exposure, rest_times, res):
    """Postcondition of activation.activity: every value >= 0 (and not NaN); values at different
    rest times of one product are related by 2**(-dt/T_half)."""
    post = _state['post']
    post['calls'] += 1
    if _state['probe']:
        return
    rowmap = _state['rowmap']
    try:
        rest = [float(t) for t in rest_times]
    except Exception:
        return
    i0 = min(range(len(rest)), key=rest.__getitem__) if rest else None
    single = _single_precision(mass, exposure, getattr(env, 'fluence', None), rest_times)
    for ai, vals in res.items():
        row = rowmap.get(id(ai))
        post['values'] += len(vals)
        for j, v in enumerate(vals):
            if not v >= 0:
                _state['anomalies'].append(dict(kind='negative', row=row.index if row else None, j=j, value=v,
                                                mass=mass, exposure=exposure))
        thalf = row.Thalf_hrs if row is not None else getattr(ai, 'Thalf_hrs', None)
        if not thalf or i0 is None:
            continue
        a0 = vals[i0]
        if not a0 > 0:
            continue
        for j, v in enumerate(vals):
            if j == i0:
                continue
            want = a0 * 2.0 ** (-(rest[j] - rest[i0]) / thalf)
            post['decay_pairs'] = post.get('decay_pairs', 0) + 1
            if want < 1e-290:
                continue
            tol = 1e-12
            if single:
                # float32 arguments: the library's arithmetic is single precision (numpy scalar promotion)
                if want < 1e-25 or a0 > 1e30:
                    continue
                tol = 1e-6 * (1 + (abs(rest[j]) + abs(rest[i0])) * math.log(2) / thalf)
            if abs(v - want) > tol * want:
                _state['anomalies'].append(dict(kind='rest-decay', row=row.index if row else None, j=j, value=v,
                                                want=want, mass=mass, exposure=exposure))
    if _state['suite'] and _state['anomalies']:
        an, _state['anomalies'] = _state['anomalies'], []
        raise AssertionError('pvmon C14 postcondition of activation.activity(%s, %r, ...): %r' % (isotope, mass, an[:3]))


# ----------------------------------------------------------------------------
# generators
# ----------------------------------------------------------------------------
def _env_case(fluence, cd, fr, exposure, mass, rest):
    return {'fluence': fluence, 'Cd_ratio': cd, 'fast_ratio': fr, 'exposure': exposure, 'mass': mass,
            'rest': list(rest)}


# ----------------------------------------------------------------------------
# argument forms: the same number handed over as another numeric type
# ----------------------------------------------------------------------------
INT_TAGS = ('int', 'i64', 'i32')
I32_MAX = 2 ** 31 - 1


def _typed(value, tag):
    """The stored (exactly representable) value as the object handed to the library."""
    if not tag or tag == 'float':
        return value
    import numpy as np
    if tag in INT_TAGS:
        if value != int(value):
            raise ValueError('form %s needs an integral value, got %r' % (tag, value))
        v = int(value)
        return v if tag == 'int' else (np.int64(v) if tag == 'i64' else np.int32(v))
    if tag == 'f64':
        return np.float64(value)
    if tag == 'f32':
        x = np.float32(value)
        if float(x) != value:
            raise ValueError('form f32 needs a single-precision value, got %r' % (value,))
        return x
    raise ValueError('unknown form %r' % (tag,))


def _f32(x):
    import numpy as np
    return float(np.float32(x))


def _lib_rest(case):
    """The rest times as handed to the library: list / tuple / numpy array of typed entries."""
    tag = (case.get('forms') or {}).get('rest')
    cont = case.get('rest_container') or 'list'
    if cont == 'array':
        import numpy as np
        dtype = {'int': np.int64, 'i64': np.int64, 'i32': np.int32, 'f32': np.float32}.get(tag, np.float64)
        return np.array(case['rest'], dtype=dtype)
    vals = [_typed(t, tag) for t in case['rest']]
    return tuple(vals) if cont == 'tuple' else vals


def _lib_num(case, name):
    return _typed(case[name], (case.get('forms') or {}).get(name))


def _integral(x):
    return x == int(x)


def _grid_forms(case, i, j):
    """Deterministic forms of a grid point: per (row, fluence decade) the three points j, j+8, j+16 carry
    the fluence as float, Python int and numpy int64; integral masses / exposures / rest lists rotate
    through the integer types, the rest container through list / tuple / array."""
    forms = {}
    g = (j + i) % 3
    if g:
        forms['fluence'] = ('int', 'i64')[g - 1]
        case['fluence'] = int(case['fluence'])
    for name, sel in (('mass', (j + i) % 4), ('exposure', (j // 2 + i) % 4)):
        tag = (None, 'int', 'i64', 'i32')[sel]
        if tag and _integral(case[name]):
            forms[name] = tag
            case[name] = int(case[name])
    tag = (None, 'int', 'i64', 'i32')[(j // 3 + i) % 4]
    if tag and all(_integral(t) for t in case['rest']):
        forms['rest'] = tag
        case['rest'] = [int(t) for t in case['rest']]
    case['rest_container'] = ('list', 'tuple', 'array')[(j // 4 + i) % 3]
    if forms:
        case['forms'] = forms
    return case


def _random_forms(rng, case, f32=True, p=0.3):
    """Random forms for a random case; values are re-drawn / rounded so that the stored number is exactly
    what the typed object holds.  Integer fluences put weight on exact powers of ten up to 1e16."""
    forms = {}
    tags = ('int', 'i64', 'i32', 'f64', 'f32') if f32 else ('int', 'i64', 'i32', 'f64')
    for name in ('fluence', 'mass', 'exposure', 'rest'):
        if rng.random() >= p:
            continue
        tag = rng.choice(tags)
        if tag in INT_TAGS:
            if name == 'fluence':
                hi = 9.3 if tag == 'i32' else 16
                if rng.random() < 0.4:
                    v = 10 ** rng.choice([k for k in (16, 16, 16, 15, 14, 12, 9, 8, 5, 2) if k <= hi])
                else:
                    v = min(int(round(10 ** rng.uniform(2, hi))), 10 ** 16)
                case[name] = min(v, I32_MAX) if tag == 'i32' else v
            elif name == 'mass':
                case[name] = int(round(10 ** rng.uniform(0, 3)))
            elif name == 'exposure':
                case[name] = int(round(10 ** rng.uniform(0, 4)))
            else:
                case[name] = [int(round(t)) for t in case[name]]
        elif tag == 'f32':
            case[name] = [_f32(t) for t in case[name]] if name == 'rest' else _f32(case[name])
        forms[name] = tag
    for name in ('Cd_ratio', 'fast_ratio'):
        if rng.random() < p / 2:
            forms[name] = rng.choice(('int', 'i64', 'f64')) if _integral(case[name]) else 'f64'
    u = rng.random()
    if u < 0.3:
        case['rest_container'] = 'tuple' if u < 0.15 else 'array'
    if forms:
        case['forms'] = forms
    return case


def _f32_params(case):
    return sorted(k for k, v in (case.get('forms') or {}).items() if v == 'f32')


def _f32_judgeable(sol, case, t, params):
    """numpy keeps single precision when a float32 scalar meets Python floats, so a float32 argument makes the
    library's own arithmetic single precision.  The value is judged (at the usual tolerance) only where that
    arithmetic stays within ~1e-6 of the double evaluation: values far from the float32 underflow range and no
    cancellation between the quantities that carry the single-precision rounding."""
    R = _state['R']
    if sol.kind == '2n' and params != ['rest']:
        return False
    try:
        if float(sol.at_rest(t)) < 1e-25 or float(sol.root) < 1e-17 or float(sol.root) > 1e30:
            return False
    except OverflowError:
        return False
    lam = float(sol.lam)
    if 'rest' in params and lam * t > 30:
        return False
    if sol.kind == 'burnup' and ('fluence' in params or 'exposure' in params):
        u, v = abs(float(sol.U)), abs(float(sol.V))
        mx = max(u, v)
        if u == v:
            return False
        amp = 1 + mx + mx / abs(v - u)
        if 'fluence' in params:
            k1, k2 = float(sol.k1), float(sol.k2)
            den = abs(lam - k1 + k2)
            if den == 0:
                return False
            amp += (lam + k1 + k2) / den
        return amp <= 10
    if sol.kind == 'b' and 'exposure' in params:
        return sol.kappa <= 10
    return True


def _grid_point(row, j):
    i = row.index
    fluence = F_GRID[j % 8]
    exposure = E_GRID[(j // 8) * 2 + ((i + j) % 2)]
    cd = CD_GRID[(j + i) % 5]
    if row.fast:
        # fast ratio 0 (row omitted), below 1 (fast flux above the thermal flux), exactly 1, above 1
        fr = FAST_GRID.get(j % 12, 50)
    else:
        fr = (0, 50)[(j + i) % 2]
    return _grid_forms(_env_case(fluence, cd, fr, exposure, M_GRID[(j + j // 4) % 4], REST_GRID[(j + i) % 5]), i, j)


def _random_env(rng, fast_row=False):
    u = rng.random()
    if u < 0.2:
        cd = 0
    elif u < 0.35:
        cd = rng.random()              # below 1: epithermal capture omitted
    elif u < 0.45:
        cd = 1
    else:
        cd = 10 ** rng.uniform(0, 2.5)
    # thermal/fast ratio: 0 (no fast flux), else anywhere in [1e-3, 1e3] - below 1 the fast flux exceeds the thermal
    # flux - with weight on the values next to and at 1
    if rng.random() < (0.1 if fast_row else 0.4):
        fr = 0
    elif rng.random() < 0.2:
        fr = rng.choice(FAST_VALUES)
    else:
        fr = 10 ** rng.uniform(-3, 3)
    u = rng.random()
    if u < 0.5:
        rest = [0, 10 ** rng.uniform(-2, 5)]
    elif u < 0.6:
        rest = [0]
    else:
        rest = [rng.choice([0, 10 ** rng.uniform(-2, 5)]) for _ in range(rng.randint(1, 5))]
    case = _env_case(10 ** rng.uniform(2, 16), cd, fr, 10 ** rng.uniform(-3, 4), 10 ** rng.uniform(-6, 3), rest)
    if rng.random() < 0.25:
        # the environment is built with other settings first and its public attributes are assigned
        # afterwards (a beam-line description that is edited before the calculation)
        case['env_init'] = [10 ** rng.uniform(2, 16), rng.choice([0, 0.5, 1, 4, 30]), rng.choice([0, 0, 10, 50, 0.5])]
    return case


def _random_atoms(rng, T, mm):
    """1-3 distinct atoms: natural elements and explicit isotopes (mostly ones with reaction rows);
    sometimes an element together with one of its own isotopes (exercises accumulation)."""
    targets = sorted(T.by_iso)
    atoms = {}
    for _ in range(rng.randint(1, 3)):
        u = rng.random()
        if u < 0.55:
            k = (rng.randint(1, 92), 0)
        elif u < 0.85:
            k = rng.choice(targets)
        elif u < 0.92:
            z = rng.randint(1, 92)
            k = (z, rng.choice(mm.isotopes[z]))
        else:
            z, a = rng.choice(targets)
            atoms[(z, 0)] = rng.choice([1, 2, 3, 0.5])
            k = (z, a)
        atoms[k] = rng.choice([1, 2, 3, 5, 0.25, 1.5])
    out = []
    for (z, a), n in atoms.items():
        # "all sample formulas": a fifth of the atoms are written as ions (natural-element ions and isotope ions);
        # an ion activates like its atom, its share of the sample mass is less its missing electrons
        ions = list(_state['pt'].elements[z].ions) if rng.random() < 0.2 else []
        out.append([z, a, n, rng.choice(ions)] if ions else [z, a, n])
    return out


def _atoms_of(case):
    """(Z, A, count, charge) per atom of a sample case (charge 0 when the entry has none)."""
    return [(int(e[0]), int(e[1]), e[2], int(e[3]) if len(e) > 3 else 0) for e in case['atoms']]


def _sample_case(rng, T):
    c = _random_forms(rng, _random_env(rng), f32=False, p=0.25)
    c['atoms'] = _random_atoms(rng, T, _state['mm'])
    c['abundance'] = rng.choice(['NIST', 'IAEA'])
    if rng.random() < 0.12:
        # the documented defaults, left out of the call: exposure 1 h, rest times (0, 1, 24, 360), NIST abundance
        c.update(exposure=1, rest=[0, 1, 24, 360], abundance='NIST', use_defaults=True)
        c.pop('rest_container', None)
        for name in ('exposure', 'rest'):
            (c.get('forms') or {}).pop(name, None)
    return c


def generate(ctx):
    T = _state['T']
    rng = ctx.rng
    # 1. table: library records against the independent reader, per target nuclide
    for n, key in enumerate(sorted(T.by_iso)):
        if ctx.mine(n):
            yield 'table', {'Z': key[0], 'A': key[1]}
    # 2. every row on the stratified grid, then log-uniform random points
    nrandom = ctx.scale(200, 4000)
    for n, row in enumerate(T.rows):
        if not ctx.mine(n):
            continue
        for j in range(GRID_POINTS):
            c = _grid_point(row, j)
            c.update(row=row.index, src='grid')
            yield 'row', c
        for _ in range(nrandom):
            c = _random_forms(rng, _random_env(rng, row.fast))
            c.update(row=row.index, src='random')
            yield 'row', c
    # 3. relation monitors per target nuclide
    nrel = ctx.scale(20, 150)
    for n, key in enumerate(sorted(T.by_iso)):
        if not ctx.mine(n):
            continue
        for _ in range(nrel):
            c = _random_forms(rng, _random_env(rng, any(r.fast for r in T.by_iso[key])), f32=False, p=0.15)
            c.update(Z=key[0], A=key[1], k=10 ** rng.uniform(-2, 2), t2=c['exposure'] * (1.01 + rng.random()))
            yield 'relations', c
    # 4. Sample workloads
    for _ in range(ctx.scale(250, 1500)):
        c = _sample_case(rng, T)
        if rng.random() < 0.5:
            # history: other Sample objects calculated before (kept alive, re-read afterwards), or an earlier,
            # different calculation on the judged object itself
            hist = []
            for _h in range(rng.randint(1, 2)):
                u = rng.random()
                mode = 'other' if u < 0.5 else ('other_shared_env' if u < 0.7 else 'same_object')
                if mode == 'same_object' and any(h['mode'] == 'same_object' for h in hist):
                    mode = 'other'
                sub = _sample_case(rng, T)
                if mode == 'same_object':
                    sub['atoms'] = c['atoms']
                    if rng.random() < 0.5:
                        sub['mass'], f = c['mass'], dict(sub.get('forms') or {})
                        f.pop('mass', None)
                        if (c.get('forms') or {}).get('mass'):
                            f['mass'] = c['forms']['mass']
                        sub['forms'] = f
                hist.append({'mode': mode, 'case': sub})
            c['history'] = hist
        yield 'sample', c
    # 5. error path probe (non-physical mass), a bounded handful
    keys = sorted(k for k, lst in T.by_iso.items() if any(r.reaction not in ('b', '2n') for r in lst))
    for _ in range(ctx.scale(6, 12)):
        c = _random_env(rng)
        z, a = rng.choice(keys)
        c.update(Z=z, A=a, mass=-c['mass'], fast_ratio=50)
        yield 'error_path', c


# ----------------------------------------------------------------------------
# explanation of a mismatch (raw numbers; thresholds are applied in classify)
# ----------------------------------------------------------------------------
def _branch(sol):
    R = _state['R']
    if sol.kind == 'burnup':
        return 'small' if R.small_argument(sol) else 'large'
    return sol.kind


def _wrong_small(sol):
    """What the pinned small-argument line W*(V-U+(V+U)/2) evaluates to (mpmath)."""
    a1, a2 = sol.k1, sol.k2 + sol.lam
    if a1 == a2:
        return None
    return sol.root * sol.lam / (a2 - a1) * ((sol.V - sol.U) + (sol.V + sol.U) / 2)


def _evidence(got, sol, case, scale=1):
    """Numbers describing how *got* relates to the reference value and to the value the
    listed mechanisms predict.  *scale* multiplies the reference (mass factor)."""
    R = _state['R']
    want = sol.A0 * scale
    d = {'branch': _branch(sol), 'row': sol.row.index, 'reaction': sol.row.reaction, 'got': float(got),
         'want': float(want), 'err': min(R.relerr(got, want), 1e300), 'kappa': min(sol.kappa, 1e300),
         'below_floor': bool(abs(R.mpf(got) - want) <= FLOOR)}
    if sol.kind == '2n':
        best = 1e300
        for k2s in R.subtraction_model(sol, case['fluence'], case['Cd_ratio']):
            w2 = want * R.mpf(k2s) / sol.k2 if sol.k2 != 0 else R.mpf(0)
            e2 = R.relerr(got, w2)
            best = min(best, e2)
        d['err_subtraction_model'] = best
        d['subtraction_loss'] = min(R.relerr(R.subtraction_model(sol, 0, 0)[0], sol.k2), 1e300)
    if d['branch'] == 'small':
        w = _wrong_small(sol)
        if w is not None:
            d['err_wrong_small_formula'] = min(R.relerr(got, w * scale), 1e300)
            d['wrong_small_negative'] = bool(w * scale < 0)
    return d


def _mechanism(d):
    """Mechanism key explaining one evaluation's evidence, 'ok' when it is within tolerance, else None."""
    if d.get('below_floor') or d['err'] <= TOL:
        return 'ok'
    if d['branch'] == '2n':
        if d['err'] <= COND * d['kappa']:
            return 'c14.2n-cancellation'
        if d.get('subtraction_loss', 0) > 0 and d.get('err_subtraction_model', 1e300) <= COND * d['kappa'] + 1e-9:
            return 'c14.2n-capture-rate-subtraction'
        return None
    if d['branch'] == 'small':
        if d.get('err_wrong_small_formula', 1e300) <= 1e-6:
            return 'c14.burnup-small-argument'
        return None
    if d['branch'] == 'large':
        if d['err'] <= COND * d['kappa']:
            return 'c14.burnup-cancellation'
        return None
    return None


def _small_negative_rows(rows, case, mass_of):
    """Rows for which the pinned small-argument formula is negative at the case's parameters."""
    R = _state['R']
    out = []
    for r in rows:
        m = mass_of(r)
        if not m:
            continue
        sol = R.solve(r, abs(m), case['fluence'], case['Cd_ratio'], case['fast_ratio'], case['exposure'])
        if sol is None or _branch(sol) != 'small':
            continue
        w = _wrong_small(sol)
        if w is not None and w < 0:
            out.append(r.index)
    return out


def _drain(ctx, case, solve_for_row):
    """Turn postcondition anomalies recorded during the library call into violations."""
    an, _state['anomalies'] = _state['anomalies'], []
    f32 = _f32_params(case)
    for a in an[:50]:
        T = _state['T']
        if a['kind'] == 'negative':
            ev = None
            row = T.by_index.get(a['row'])
            if row is not None:
                sol = solve_for_row(row, a['mass'], a['exposure'])
                if sol is not None and f32 and not _f32_judgeable(sol, case, _rest(case, a['j']), f32):
                    ctx.count('float32.unjudged_sign')    # single-precision cancellation (see _f32_judgeable)
                    continue
                if sol is not None:
                    c = dict(case)
                    ev = _evidence(a['value'], sol, c, scale=_state['R'].M.exp(-sol.lam * _rest(case, a['j'])))
            ctx.violation('postcondition: activity() returned a negative/NaN activity %r for %s'
                          % (a['value'], row.label() if row else '?'), kind='post-negative', evals=[ev] if ev else [])
        else:
            ctx.violation('postcondition: values of %s at two rest times are not related by 2^(-dt/T): %r vs %r'
                          % (T.by_index[a['row']].label() if a['row'] in T.by_index else '?', a['value'], a['want']),
                          kind='post-rest-decay')


def _rest(case, j):
    try:
        return case['rest'][j]
    except Exception:
        return 0


def _lib_env(case, env=None):
    """The environment of the case (typed numbers); an existing *env* object is edited in place instead."""
    A = _state['A']
    fl, cd, fr = _lib_num(case, 'fluence'), _lib_num(case, 'Cd_ratio'), _lib_num(case, 'fast_ratio')
    if env is None and case.get('env_init'):
        f0, cd0, fr0 = case['env_init']
        env = A.ActivationEnvironment(fluence=f0, Cd_ratio=cd0, fast_ratio=fr0)
        env.epithermal_reduction_factor      # read once with the initial settings
    if env is not None:
        env.fluence, env.Cd_ratio, env.fast_ratio = fl, cd, fr
        return env
    # the documented parameter order is (fluence, Cd_ratio, fast_ratio, location): a third of the environments are
    # built positionally, some leave trailing parameters to their documented defaults (0 = suppressed)
    style = int(round(float(fl) * 7919 + float(cd) * 31 + float(fr))) % 6
    _state['env_styles'] = _state.get('env_styles', {})
    if style == 0:
        _state['env_styles']['positional'] = _state['env_styles'].get('positional', 0) + 1
        return A.ActivationEnvironment(fl, cd, fr)
    if style == 1:
        _state['env_styles']['positional+location'] = _state['env_styles'].get('positional+location', 0) + 1
        return A.ActivationEnvironment(fl, cd, fr, 'beam port 3')
    if style == 2 and fr == 0:
        _state['env_styles']['fast_ratio defaulted'] = _state['env_styles'].get('fast_ratio defaulted', 0) + 1
        return A.ActivationEnvironment(fl, cd) if cd != 0 else A.ActivationEnvironment(fl)
    return A.ActivationEnvironment(fluence=fl, Cd_ratio=cd, fast_ratio=fr)


def _forms_text(case):
    f = case.get('forms') or {}
    names = {'int': 'Python int', 'i64': 'numpy.int64', 'i32': 'numpy.int32', 'f64': 'numpy.float64',
             'f32': 'numpy.float32'}
    parts = ['%s=%r as %s' % (k, case[k], names.get(v, v)) for k, v in sorted(f.items())]
    if (case.get('rest_container') or 'list') != 'list':
        parts.append('rest times in a %s' % {'array': 'numpy array'}.get(case['rest_container'], case['rest_container']))
    return ' [%s]' % ', '.join(parts) if parts else ''


def _cd_class(cd):
    return 0 if cd == 0 else (1 if cd < 1 else (2 if cd == 1 else 3))


def _fast_class(fr):
    return 0 if fr == 0 else (1 if fr < 1 else 2)


# ----------------------------------------------------------------------------
# checks
# ----------------------------------------------------------------------------
def check_table(ctx, case):
    """The reaction records the library attached to a nuclide are the rows the reader finds, in file
    order, with the same numbers in every column that enters the calculation."""
    T, pt = _state['T'], _state['pt']
    lst = T.by_iso[(case['Z'], case['A'])]
    recs = getattr(pt.elements[case['Z']][case['A']], 'neutron_activation', [])
    ctx.evaluated(what='table-rowcount')
    if len(recs) != len(lst):
        ctx.violation('%d reaction records on %s-%d, the data file has %d rows'
                      % (len(recs), lst[0].symbol, case['A'], len(lst)), kind='table')
        return
    for r, q in zip(lst, recs):
        for name in ('isotope', 'daughter', 'reaction', 'fast', 'abundance', 'thermalXS', 'resonance', 'Thalf_hrs',
                     'Thalf_parent', 'thermalXS_parent', 'resonance_parent'):
            ctx.evaluated(what='table-field')
            if getattr(q, name, None) != getattr(r, name):
                ctx.violation('record %s: %s is %r, data file says %r'
                              % (r.label(), name, getattr(q, name, None), getattr(r, name)), kind='table', field=name)
        ctx.distinct_case(('table', r.index))


def check_row(ctx, case):
    R, T, A, pt = _state['R'], _state['T'], _state['A'], _state['pt']
    row = T.by_index[case['row']]
    iso = pt.elements[row.Z][row.A]
    rest = case['rest']
    env = _lib_env(case)
    sol = R.solve(row, case['mass'], case['fluence'], case['Cd_ratio'], case['fast_ratio'], case['exposure'])

    def solver(r, mass, exposure):
        return R.solve(r, mass, case['fluence'], case['Cd_ratio'], case['fast_ratio'], exposure)
    f32 = _f32_params(case)
    for name, tag in sorted((case.get('forms') or {}).items()):
        ctx.count('forms.%s.%s' % (name, tag))
    ctx.count('forms.rest_container.' + (case.get('rest_container') or 'list'))
    try:
        res = A.activity(iso, _lib_num(case, 'mass'), env, _lib_num(case, 'exposure'), _lib_rest(case))
    except Exception as exc:
        _state['anomalies'] = []
        ctx.evaluated(what='no-exception')
        rows = T.by_iso[(row.Z, row.A)]
        ctx.violation('activity(%s, ...) raised %s: %s for physical inputs' % (iso, type(exc).__name__, exc),
                      kind='exception', exc_type=type(exc).__name__, exc_msg=str(exc)[:200],
                      small_negative_rows=_small_negative_rows(rows, case, lambda r: case['mass']))
        return
    _drain(ctx, case, solver)
    recs = iso.neutron_activation
    rec = recs[row.pos] if row.pos < len(recs) else None
    ctx.evaluated(what='selection')
    if sol is None:
        # documented rule: fast reactions are omitted at fast ratio 0
        if rec in res:
            ctx.violation('fast row %s present at fast ratio 0: %r' % (row.label(), res[rec]), kind='fast-not-omitted')
        ctx.count('rows.fast_omitted_checked')
        return
    if rec not in res:
        ctx.violation('row %s missing from the result' % row.label(), kind='row-missing')
        return
    got = res[rec]
    if len(got) != len(rest):
        ctx.violation('row %s: %d values for %d rest times' % (row.label(), len(got), len(rest)), kind='shape')
        return
    br = _branch(sol)
    ctx.count('evaluated.branch.' + br)
    if case['Cd_ratio'] >= 1 and row.resonance:
        ctx.count('evaluated.epithermal_term_present')
    if 0 < case['Cd_ratio'] < 1 and row.resonance:
        ctx.count('evaluated.epithermal_term_omitted_cd_below_1')
    if row.fast:
        ctx.count('evaluated.fast_rows')
        if case['fast_ratio'] < 1:
            ctx.count('evaluated.fast_rows.fast_ratio_below_1')
            if row.index not in _state.setdefault('fast_rows_below_1', set()):
                _state['fast_rows_below_1'].add(row.index)
                ctx.count('rows.fast.evaluated_at_fast_ratio_below_1')
    nontrivial = False
    if case['fluence'] >= 1e15 and (case.get('forms') or {}).get('fluence') in ('int', 'i64'):
        ctx.count('forms.fluence_top_decade_as_%s' % case['forms']['fluence'])
    for j, t in enumerate(rest):
        want = sol.at_rest(t)
        try:
            g = float(got[j])
        except Exception:
            ctx.violation('%s: activity at rest %r h is %r, not a real number' % (row.label(), t, got[j]), kind='shape')
            break
        if f32:
            # single-precision arguments: judged only where single-precision arithmetic cannot explain a difference
            if not _f32_judgeable(sol, case, t, f32):
                ctx.count('float32.unjudged')
                continue
            ctx.count('float32.judged')
        ctx.evaluated(what='activity-vs-chain-solution')
        diff = abs(R.mpf(g) - want)
        if diff <= FLOOR:
            continue
        nontrivial = True
        err = R.relerr(g, want)
        ctx.observe('relerr.%s%s' % (br, '.float32_arguments' if f32 else ''), min(err, 1e300))
        if err <= TOL:
            ctx.observe('relerr_within_tolerance.%s' % br, err)
            continue
        ev = _evidence(g, sol, case, scale=R.M.exp(-sol.lam * R.mpf(t)))
        ctx.violation('%s: activity %r at rest %r h differs from the chain solution %s by %.3g relative '
                      '(branch %s, kappa %.3g)%s'
                      % (row.label(), g, t, R.M.nstr(want, 17), err, br, sol.kappa, _forms_text(case)),
                      kind='mismatch', evals=[ev], forms=case.get('forms') or {})
        break
    if nontrivial:
        ctx.distinct_case(('row', row.index, br, math.floor(math.log10(case['fluence'])),
                           math.floor(math.log10(case['exposure'])), _cd_class(case['Cd_ratio']),
                           _fast_class(case['fast_ratio'])))
    if row.index not in _state['rows_done']:
        _state['rows_done'].add(row.index)
        ctx.count('rows.evaluated_against_reference')


def check_relations(ctx, case):
    """Mass proportionality, rest decay, exposure bound and row selection for one target nuclide."""
    R, T, A, pt = _state['R'], _state['T'], _state['A'], _state['pt']
    rows = T.by_iso[(case['Z'], case['A'])]
    iso = pt.elements[case['Z']][case['A']]
    env = _lib_env(case)
    m, k, t1, t2, rest = case['mass'], case['k'], case['exposure'], case['t2'], case['rest']

    def solver(r, mass, exposure):
        return R.solve(r, mass, case['fluence'], case['Cd_ratio'], case['fast_ratio'], exposure)
    try:
        lrest = _lib_rest(case)
        a1 = A.activity(iso, _lib_num(case, 'mass'), env, _lib_num(case, 'exposure'), lrest)
        a2 = A.activity(iso, m * k, env, _lib_num(case, 'exposure'), lrest)
        a3 = A.activity(iso, _lib_num(case, 'mass'), env, t2, lrest)
    except Exception as exc:
        _state['anomalies'] = []
        ctx.evaluated(what='no-exception')
        neg = sorted(set(_small_negative_rows(rows, case, lambda r: m)
                         + _small_negative_rows(rows, dict(case, exposure=t2), lambda r: m)))
        ctx.violation('activity(%s, ...) raised %s: %s for physical inputs' % (iso, type(exc).__name__, exc),
                      kind='exception', exc_type=type(exc).__name__, exc_msg=str(exc)[:200], small_negative_rows=neg)
        return
    _drain(ctx, case, solver)
    recs = iso.neutron_activation
    expected = {id(recs[r.pos]) for r in rows if r.pos < len(recs) and not R.omitted(r, case['fast_ratio'])}
    ctx.evaluated(what='row-selection')
    if {id(q) for q in a1} != expected:
        ctx.violation('%s at fast ratio %r: result rows %r, expected %r'
                      % (iso, case['fast_ratio'], sorted(_state['rowmap'][id(q)].index for q in a1
                                                         if id(q) in _state['rowmap']),
                         sorted(r.index for r in rows if not R.omitted(r, case['fast_ratio']))), kind='selection')
    i0 = min(range(len(rest)), key=rest.__getitem__)
    for r in rows:
        if r.pos >= len(recs) or recs[r.pos] not in a1:
            continue
        q = recs[r.pos]
        v1, v2, v3 = a1[q], a2.get(q), a3.get(q)
        if v2 is None or v3 is None:
            ctx.violation('%s: row present in one call and absent in another' % r.label(), kind='selection')
            continue
        if not v1[i0] > 1e-290:
            continue
        ctx.distinct_case(('rel', r.index))

        def evals():
            out = []
            for got, mass, expo in ((v1[i0], m, t1), (v2[i0], m * k, t1), (v3[i0], m, t2)):
                s = solver(r, mass, expo)
                out.append(_evidence(got, s, case, scale=R.M.exp(-s.lam * R.mpf(rest[i0]))))
            return out
        # A(k m) = k A(m)
        ctx.evaluated(what='mass-proportionality')
        if abs(v2[i0] - k * v1[i0]) > 1e-12 * abs(k * v1[i0]):
            ctx.violation('%s: A(%r g) = %r is not %r x A(%r g) = %r' % (r.label(), m * k, v2[i0], k, m, k * v1[i0]),
                          kind='mass-proportionality', evals=evals())
        # rest decay
        for j, t in enumerate(rest):
            if j == i0:
                continue
            want = v1[i0] * 2.0 ** (-(t - rest[i0]) / r.Thalf_hrs)
            if want < 1e-290:
                continue
            ctx.evaluated(what='rest-decay')
            if abs(v1[j] - want) > 1e-12 * want:
                ctx.violation('%s: A(rest %r) = %r, expected A(rest %r) * 2^(-dt/T) = %r'
                              % (r.label(), t, v1[j], rest[i0], want), kind='rest-decay')
        # exposure bound: A(t2) >= A(t1) * exp(-k1 (t2 - t1))
        k1 = float(R.rates(r, case['fluence'], case['Cd_ratio'], case['fast_ratio'])[2])
        lo = v1[i0] * math.exp(-k1 * (t2 - t1))
        ctx.evaluated(what='exposure-bound')
        if lo > 1e-290 and not v3[i0] >= lo * (1 - 1e-9):   # below that the bound itself underflows (absolute floor)
            ctx.violation('%s: activity after %r h is %r, below the activity after %r h (%r) reduced by target '
                          'depletion (%r)' % (r.label(), t2, v3[i0], t1, v1[i0], lo),
                          kind='exposure-bound', evals=evals())


def _expected_sample(case, masses_only=False):
    """{row index: [reference activity per rest time]} from the atoms of the case."""
    R, T, mm = _state['R'], _state['T'], _state['mm']
    weight = {}
    for z, a, n, q in _atoms_of(case):
        weight[(z, a)] = n * ((mm.iso[(z, a)][0] if a else mm.el[z][0]) - q * ELECTRON_MASS_U)
    total = math.fsum(weight.values())
    iso_mass = {}
    for (z, a), w in weight.items():
        part = case['mass'] * w / total
        if a:
            iso_mass[(z, a)] = iso_mass.get((z, a), 0.0) + part
        else:
            for ai in mm.isotopes.get(z, []):
                if case['abundance'] == 'NIST':
                    ab = mm.abundance.get(z, {}).get(ai, (0.0, 0.0))[0]
                else:
                    ab = T.iaea_abundance(z, ai)
                if ab:
                    iso_mass[(z, ai)] = iso_mass.get((z, ai), 0.0) + part * ab / 100.
    if masses_only:
        return iso_mass
    want = {}
    sols = {}
    for key, mass in iso_mass.items():
        for r in T.by_iso.get(key, []):
            sol = R.solve(r, mass, case['fluence'], case['Cd_ratio'], case['fast_ratio'], case['exposure'])
            if sol is None:
                continue
            sols[r.index] = sol
            want[r.index] = [sol.at_rest(t) for t in case['rest']]
    return want, sols, iso_mass


def _formula_text(case):
    pt = _state['pt']
    parts = []
    for z, a, n, q in _atoms_of(case):
        sym = pt.elements[int(z)].symbol
        ion = '{%s%s}' % (abs(q) if abs(q) != 1 else '', '+' if q > 0 else '-') if q else ''
        parts.append('%s%s%s%s' % (sym, '[%d]' % a if a else '', ion, repr(n) if n != 1 else ''))
    return ''.join(parts)


def _calculate_sample(ctx, case, sample=None, env=None):
    """Run Sample.calculate_activation for the (sub-)case: on a new Sample or on *sample* (whose public mass is
    assigned when it differs), with a new environment or *env* edited in place.  Returns
    (sample, env, rest object passed, exposure object passed) or None when the library raised (violation recorded)."""
    R, T, A = _state['R'], _state['T'], _state['A']
    text = _formula_text(case)
    abundance = A.NIST2001_isotopic_abundance if case['abundance'] == 'NIST' else A.IAEA1987_isotopic_abundance
    mass = _lib_num(case, 'mass')
    if sample is None:
        sample = A.Sample(text, mass)
    elif sample.mass != mass:
        sample.mass = mass
    env = _lib_env(case, env)
    rest, exposure = _lib_rest(case), _lib_num(case, 'exposure')

    def solver(r, mass, exposure):
        return R.solve(r, mass, case['fluence'], case['Cd_ratio'], case['fast_ratio'], exposure)
    try:
        if case.get('use_defaults'):
            sample.calculate_activation(env)
            rest = exposure = None
            ctx.count('sample.called_with_defaults')
        else:
            sample.calculate_activation(env, exposure=exposure, rest_times=rest, abundance=abundance)
    except Exception as exc:
        _state['anomalies'] = []
        ctx.evaluated(what='no-exception')
        iso_mass = _expected_sample(case, masses_only=True)
        rows = [r for key in iso_mass for r in T.by_iso.get(key, [])]
        ctx.violation('Sample(%r).calculate_activation raised %s: %s' % (text, type(exc).__name__, exc),
                      kind='exception', exc_type=type(exc).__name__, exc_msg=str(exc)[:200],
                      small_negative_rows=_small_negative_rows(rows, case, lambda r: iso_mass[(r.Z, r.A)]))
        return None
    _drain(ctx, case, solver)
    return sample, env, rest, exposure


def _products(ctx, sample, text):
    """{row index: [float, ...]} of the Sample's result table."""
    got = {}
    for q, vals in sample.activity.items():
        r = _state['rowmap'].get(id(q))
        if r is None:
            ctx.violation('Sample(%r): product %r is not a record of the public table' % (text, q), kind='sample-key')
            continue
        got[r.index] = [float(v) for v in vals]
    return got


def _compare_products(ctx, case, text, got, kind, note=''):
    """Judge a result table against the abundance-weighted chain solutions of the case; returns
    (number of mismatching products, want)."""
    R, T = _state['R'], _state['T']
    want, sols, _ = _expected_sample(case)
    rest = case['rest']
    bad = 0
    for idx in sorted(set(got) | set(want)):
        g = got.get(idx, [0.0] * len(rest))
        w = want.get(idx, [R.mpf(0)] * len(rest))
        row = T.by_index[idx]
        if len(g) != len(rest):
            ctx.violation('Sample(%r): product %s has %d values for %d rest times%s'
                          % (text, row.label(), len(g), len(rest), note), kind=kind if note else 'shape')
            bad += 1
            continue
        for j in range(len(rest)):
            ctx.evaluated(what='sample-product')
            if abs(R.mpf(g[j]) - w[j]) <= FLOOR:
                continue
            err = R.relerr(g[j], w[j])
            if idx in sols and not note:
                ctx.observe('relerr.sample.%s' % _branch(sols[idx]), min(err, 1e300))
            if err <= TOL:
                continue
            evs = []
            if idx in sols:
                # activity is proportional to mass, so the row's own evidence carries over
                sol = sols[idx]
                evs = [_evidence(g[j], sol, case, scale=R.M.exp(-sol.lam * R.mpf(rest[j])))]
            ctx.violation('Sample(%r, %r g, %s abundance)%s: product %s is %r at rest %r h, abundance-weighted chain '
                          'solution gives %s (rel. err %.3g)%s'
                          % (text, case['mass'], case['abundance'], note, row.label(), g[j], rest[j],
                             R.M.nstr(w[j], 17), err, _forms_text(case)),
                          kind=kind, evals=evs, expected_row=idx in want, present=idx in got)
            bad += 1
            break
    return bad, want


def _snapshot(got):
    return sorted((idx, [repr(v) for v in vals]) for idx, vals in got.items())


def check_sample(ctx, case):
    """Sample.calculate_activation: mass fraction x abundance x chain solution, per product.  With a history, other
    Sample objects are calculated first, stay alive and are re-read after the judged calculation: what they serve
    then must still be their own result."""
    text = _formula_text(case)
    alive = []           # (sub-case, text, Sample, env, rest passed, exposure passed, snapshot)
    sample = env = None
    for h in case.get('history') or []:
        sub, mode = h['case'], h['mode']
        ctx.count('sample.history.' + mode)
        if mode == 'same_object':
            # an earlier, different calculation on the object that is judged below
            out = _calculate_sample(ctx, sub, sample=sample)
            if out is None:
                ctx.count('sample.history_step_raised')
                continue
            sample = out[0]
            if int(sub['mass'] * 1e6) % 3 == 0:
                # the judged calculation runs on a copy (copy.copy / copy.deepcopy / pickle) of that object; the
                # original stays alive and is re-read afterwards: it still serves its own result
                import copy
                import pickle
                how = ('copy', 'deepcopy', 'pickle')[int(sub['mass'] * 1e7) % 3]
                orig = sample
                stext = _formula_text(sub)
                try:
                    sample = {'copy': copy.copy, 'deepcopy': copy.deepcopy,
                              'pickle': lambda x: pickle.loads(pickle.dumps(x))}[how](orig)
                    ctx.count('sample.history.clone.' + how)
                    alive.append((sub, stext, orig, out[1], out[2], out[3], _snapshot(_products(ctx, orig, stext))))
                except Exception as exc:
                    sample = orig
                    ctx.count('sample.history.clone_raised.' + type(exc).__name__)
            continue
        out = _calculate_sample(ctx, sub)
        if out is None:
            ctx.count('sample.history_step_raised')
            continue
        stext = _formula_text(sub)
        alive.append((sub, stext, out[0], out[1], out[2], out[3], _snapshot(_products(ctx, out[0], stext))))
        if mode == 'other_shared_env':
            env = out[1]     # the judged calculation edits this environment object in place and uses it
    if sample is not None and int(case['mass'] * 1e6) % 2 == 0:
        # calculations the library refuses or that fail part-way on the judged object (a rest time far before the end
        # of the irradiation, an exposure below zero), caught by the caller: the judged calculation is a new one
        A = _state['A']
        for kw in ({'exposure': 1, 'rest_times': (0, -1e6)}, {'exposure': -5.0, 'rest_times': (0,)},
                   {'exposure': 1, 'rest_times': ('soon',)}):
            try:
                sample.calculate_activation(A.ActivationEnvironment(fluence=1e8, Cd_ratio=0, fast_ratio=0), **kw)
                ctx.count('sample.refused_calculation.answered')
            except Exception:
                ctx.count('sample.refused_calculation.refused')
    out = _calculate_sample(ctx, case, sample=sample, env=env)
    if out is None:
        return
    s = out[0]
    got = _products(ctx, s, text)
    known, want = _compare_products(ctx, case, text, got, 'sample-mismatch')
    if known:
        ctx.count('sample.cases_with_a_mismatching_product')
    # re-read the Sample objects calculated earlier
    for n, (sub, stext, so, eo, rest_o, expo_o, snap) in enumerate(alive):
        ctx.evaluated(what='sample-reread')
        ctx.count('sample.reread')
        note = ' re-read after %d later Sample calculation(s)' % (len(alive) - n)
        now = _products(ctx, so, stext)
        if _snapshot(now) != snap:
            # it serves something else than right after its own calculation: held to its own reference again
            bad, _w = _compare_products(ctx, sub, stext, now, 'sample-reread-mismatch', note=note)
            if not bad:
                ctx.count('sample.reread_changed_within_tolerance')
        for name, passed in (('rest_times', rest_o), ('exposure', expo_o), ('environment', eo)):
            if not hasattr(so, name):
                continue
            cur = getattr(so, name)
            if passed is None:
                passed = {'rest_times': (0, 1, 24, 360), 'exposure': 1}[name]    # the documented defaults
            ctx.evaluated(what='sample-reread-attribute')
            same = cur is passed
            if not same and name == 'rest_times':
                try:
                    same = [float(t) for t in cur] == [float(t) for t in passed]
                except Exception:
                    same = False
            elif not same and name == 'exposure':
                same = bool(cur == passed)
            if not same:
                ctx.violation('Sample(%r)%s: its %s is %r, the calculation was made with %r'
                              % (stext, note, name, cur, passed), kind='sample-reread-state', attribute=name)
    if want:
        ctx.distinct_case(('sample', tuple(sorted((z, a) for z, a, _, _ in _atoms_of(case))), case['abundance']))
    ctx.count('sample.products_compared', len(set(got) | set(want)))
    if any(a for _, a, _, _ in _atoms_of(case)):
        ctx.count('sample.with_explicit_isotope')
    if any(not a for _, a, _, _ in _atoms_of(case)):
        ctx.count('sample.with_natural_element')
    if any(q and not a for _, a, _, q in _atoms_of(case)):
        ctx.count('sample.with_natural_element_ion')
    if any(q and a for _, a, _, q in _atoms_of(case)):
        ctx.count('sample.with_isotope_ion')
    ctx.count('sample.abundance.' + case['abundance'])
    for name, tag in sorted((case.get('forms') or {}).items()):
        ctx.count('sample.forms.%s.%s' % (name, tag))


# exception types that signal an accident inside the error path (e.g. a format string fed the wrong object),
# as opposed to a deliberate refusal, whose type no clause of the property fixes
ACCIDENT_TYPES = ('TypeError', 'NameError', 'UnboundLocalError', 'AttributeError', 'KeyError', 'IndexError',
                  'ZeroDivisionError', 'AssertionError')


def check_error_path(ctx, case):
    """The negative-activity error path (reached here with a non-physical negative mass) must end in the
    refusal it constructs (RuntimeError on the pinned tree; another deliberate exception type is counted and
    accepted), not in an accident raised while building the message."""
    A, pt = _state['A'], _state['pt']
    iso = pt.elements[case['Z']][case['A']]
    _state['probe'] = True
    try:
        ctx.evaluated(what='error-path')
        try:
            A.activity(iso, _lib_num(case, 'mass'), _lib_env(case), _lib_num(case, 'exposure'), _lib_rest(case))
        except RuntimeError:
            ctx.count('errorpath.raised_RuntimeError')
            ctx.count('errorpath.refused')
        except Exception as exc:
            if type(exc).__name__ in ACCIDENT_TYPES:
                ctx.violation('negative-activity error path of activity(%s, mass=%r) raised %s: %s instead of a '
                              'refusal (RuntimeError)' % (iso, case['mass'], type(exc).__name__, exc), kind='error-path',
                              exc_type=type(exc).__name__, exc_msg=str(exc)[:200])
            else:
                ctx.count('errorpath.raised_' + type(exc).__name__)
                ctx.count('errorpath.refused')
        else:
            ctx.count('errorpath.returned')
    finally:
        _state['probe'] = False
        _state['anomalies'] = []


CHECKS = {'table': check_table, 'row': check_row, 'relations': check_relations, 'sample': check_sample,
          'error_path': check_error_path}


def finish(ctx):
    reach = _state['reach']
    reach.stop()
    reach.export(ctx)
    post = _state['post']
    for style, n in sorted((_state.get('env_styles') or {}).items()):
        ctx.count('environment.built.' + style.replace(' ', '_'), n)
    ctx.require('environment.built.positional', 1, 'an ActivationEnvironment built with positional arguments')
    ctx.count('postcondition.activity.calls', post['calls'])
    ctx.count('contract.activity.postcondition_evaluations', post['calls'])
    ctx.count('postcondition.activity.values_checked', post['values'])
    ctx.count('postcondition.activity.decay_pairs_checked', post.get('decay_pairs', 0))
    ctx.count('contract.activity.unrecognised_call', post.get('unrecognised', 0))
    if not ctx.counters.get('reach.branch.error_path') and ctx.counters.get('errorpath.refused'):
        # the line anchor did not fire (message reworded / moved) but the public behaviour shows the path was taken
        ctx.count('anchor_missing.reach.branch.error_path')
        ctx.note('the negative-activity refusal was observed %d times through the public call; the source-line '
                 'counter on it did not fire and is waived' % ctx.counters.get('errorpath.refused'))
    for label, why in (('branch.b', "'b' branch of activity()"), ('branch.2n', "'2n' branch of activity()"),
                       ('branch.burnup_small', 'burn-up small-argument branch'),
                       ('branch.burnup_large', 'burn-up large-argument branch'),
                       ('branch.error_path', 'negative-activity error path')):
        ctx.require('reach.' + label, 1, why + ' must be reached by the workload')
    # the same four branches as the reference sees them (public behaviour; stands when the line anchors are waived)
    for br, why in (('b', "'b' rows"), ('2n', "'2n' rows"), ('small', 'burn-up rows with both arguments below 1e-10'),
                    ('large', 'burn-up rows with larger arguments')):
        ctx.require('evaluated.branch.' + br, 1, why + ' must have been compared with their chain solution')
    ctx.require('rows.evaluated_against_reference', len(_state['T'].rows),
                'every reaction row of activation.dat must be compared with its chain solution')
    ctx.require('rows.fast.evaluated_at_fast_ratio_below_1', sum(1 for r in _state['T'].rows if r.fast),
                'every fast reaction row must be compared with its chain solution at a fast ratio between 0 and 1')
    ctx.require('postcondition.activity.calls', 1, 'the postcondition on activation.activity must have been evaluated')
    ctx.require('reach.Sample._accumulate', 1, 'Sample workloads must reach the accumulation')
    ctx.require('sample.reread', 1, 'earlier Sample objects must have been re-read after a later calculation')
    ctx.require('sample.history.same_object', 1, 'a Sample object must have been calculated twice')
    ctx.require('forms.fluence_top_decade_as_i64', 1, 'fluences >= 1e15 must have been passed as numpy int64')
    ctx.require('forms.fluence_top_decade_as_int', 1, 'fluences >= 1e15 must have been passed as Python int')


# ----------------------------------------------------------------------------
# known-finding classifier
# ----------------------------------------------------------------------------
def classify(rec):
    d = rec.get('detail') or {}
    kind = d.get('kind')
    # public symptoms only: the class of the exception (accident vs refusal), never its wording
    if kind == 'error-path':
        if d.get('exc_type') in ACCIDENT_TYPES:
            return 'c14.negative-activity-error-path'
        return None
    if kind == 'exception':
        # physical inputs reach the error path only through a negative value of the small-argument formula
        if not d.get('small_negative_rows'):
            return None
        if d.get('exc_type') in ACCIDENT_TYPES:
            return 'c14.negative-activity-error-path'
        return 'c14.burnup-small-argument'
    if kind in ('mismatch', 'sample-mismatch', 'post-negative', 'exposure-bound', 'mass-proportionality'):
        evs = d.get('evals') or []
        if not evs:
            return None
        keys = [_mechanism(e) for e in evs]
        if any(k is None for k in keys):
            return None
        found = sorted({k for k in keys if k != 'ok'})
        if len(found) == 1:
            return found[0]
        if found == ['c14.2n-cancellation', 'c14.2n-capture-rate-subtraction']:
            # a relation between evaluations of one 2n row, some explained by conditioning alone and some only
            # by the lost capture rate: the violation as a whole needs the latter mechanism
            return 'c14.2n-capture-rate-subtraction'
        return None
    return None
