"""C03 - neutron SLD, cross sections and penetration depth follow the documented equations.

Reference-model monitor: every call of neutron_scattering / neutron_sld / atom.neutron.scattering / .sld made
by the workload is compared, output by output and wavelength by wavelength, with pvmon.ref.neutron (own table
reader, documented equations in plain complex arithmetic, own clamped linear interpolation, own masses).
In-process: a postcondition wrapper on nsf._calculate_scattering, LINE counters for the two branches of
Neutron.scattering_by_wavelength and for the incoherent clip (all three anchored on private code and therefore
optional: absent / re-written in a tree, they are skipped, noted and their reach requirements waived through
anchor_missing.*), floating-point exception monitor, and an input-immutability monitor
(pvmon.ref.neutron.ArgumentGuard) on the five public entry points.
History: the 'buffer' cases pass ONE mutable wavelength/energy object (ndarray or list) to consecutive calls and
modify it in place between them (refill, rescale, shift, single item, reverse, append), with no other call in
between; every call is judged by the reference for the values the buffer holds at that moment.
Structure: the 'nested' cases write a model multiset of atoms with groups inside groups (multipliers other than 1
on two or three levels; string, Formula, nested (count, fragment) list, Formula arithmetic, n*formula(text)); the
reference composition is the multiset itself (pvmon.gen.compounds.nest_tree / denote), never anything parsed."""
import math

from ..statemon import Reach, FPMonitor

RULE = ('cases: (a) every atom with neutron data as a one-atom compound at three wavelengths, plus its ions; (b) every '
        'element/isotope with data queried directly (.scattering/.sld) against the one-atom compound at the atom density; '
        '(c) each energy-dependent entry on all its table nodes, segment midpoints and beyond both ends; (d) random compounds '
        'of 1-8 atoms (ordinary, energy-dependent, ions), density log-uniform in [1e-4,25] (8 %: [1e-15,1e-4]) as density= or natural_density=, '
        'wavelength in [0.05,50] A or the equivalent energy=, scalar or vector, given as dict, string, Formula or atom; '
        '(e) compounds containing an atom without data must give (None,None,None); (f) Ra (tabulated data, element density '
        'unknown) in compounds of given density; (g) buffer reuse: one ndarray or list of 1-7 wavelengths (or energies) passed '
        'to 2-4 consecutive calls for the same compound (each energy-dependent entry at least once per container kind, alone '
        'or in a random compound, through neutron_scattering, neutron_sld, .scattering, .sld) and modified in place between '
        'the calls; (h) nested compounds: 2-6 atoms written with groups inside groups, multipliers other than 1 on two or three '
        'levels and atoms of their own in the enclosing groups, given as formula string, Formula parsed from it, nested '
        '(count, fragment) list, Formula arithmetic (sum of m*formula(...)) or n*formula(grouped string); the reference '
        'composition is the model multiset the rendering was made from. distinct = distinct (sorted atom keys, scalar/vector, energy/wavelength/default, '
        'density kind, family[, nested form]); a case is non-trivial when at least seven numbers (or the stated None triple) were compared '
        'with the reference')
TECHNIQUE = ('runtime monitoring: reference-model monitor (independent table reader + documented equations) over exhaustive '
             'single-atom sweeps and seeded random compounds; in-process postcondition on nsf._calculate_scattering; '
             'sys.monitoring LINE/entry counters for the table branch, the constant branch and the incoherent clip; numpy FP-exception monitor; '
             'input-immutability monitor on the wavelength/energy arguments; call sequences re-using one mutable wavelength buffer')
LEVEL_TEXT = ('Each observed call of the neutron calculators is re-computed by an independent reference (own reader of the embedded '
              'tables, the equations of the neutron_scattering docstring, own interpolation and masses) and all seven outputs are compared '
              'at every wavelength; single atoms and energy-table nodes are swept exhaustively, compounds, densities, wavelengths and '
              'call shapes are a seeded random sample.'
              ' Added in rounds 4-7: every energy-dependent entry also on a private table after nsf.init(reload=True); zero-count atoms listed first. Added in round 8: natural_density= for compounds with ions and isotope ions; the list-structure route [(count, atom)] with counts as numpy int32/int64/float64, int, bool of the same value.')
LEVEL_NOTE = ('Tolerance 1e-10 relative; absolute floors only where a value is the residue of a cancellation (clipped sigma_s - sigma_c, '
              'mixed-sign scattering-length sums), DESIGN 3.7. Where documentation and code agree on a wrong equation the monitor is blind.')
SHARDS = {'quick': 8, 'thorough': 16}
TIMEOUT = {'quick': 600, 'thorough': 3600}
ASSUMPTIONS = ['the equations of the neutron_scattering docstring are the specification',
               'independent reader/reference pvmon/ref/neutron.py; masses, abundances, densities from pvmon/ref/masses.py',
               'physical constants of periodictable.constants are data (cross-pinned by C04)',
               'natural Lu (no table of its own) is the abundance-weighted mix of Lu-175 and the Lu-176 table, as the anchored energy_dependent_init states',
               'natural_density= is exercised for every compound, ions and isotope ions included (round 8; D10 is repaired)',
               'natural Pu and Cm (several isotope rows, no natural row) are in neither the with-data nor the without-data pool',
               'an ion has the neutron data of its element/isotope and the mass less q electrons',
               'Ra/Ra-226 have tabulated data: with a given density they belong to the "all atoms have neutron data" clause',
               'a call describes the wavelengths its argument holds at the time of the call: a caller may refill or rescale its own '
               'array/list between calls (the library may not keep a reference to it as a cache key), and no call may modify it',
               'the composition of a compound written with groups is the fold of its derivation tree (every atom count times the '
               'multipliers of ALL groups around it; n*formula and formula+formula likewise): the reference gets the model '
               'multiset the text was rendered from, never anything parsed (generator pvmon/gen/compounds.py, self-checked)',
               'a density is any positive number: 8 % of the densities are log-uniform in [1e-15, 1e-4] g/cm^3 (residual gas); '
               'only an exactly empty compound or an exactly zero density is a vacuum']

REL = 1e-10
_state = {}
_post = {'calls': 0, 'clip_active': 0, 'fail': [], 'contract._calculate_scattering.unrecognised_call': 0,
         'contract._calculate_scattering.unrecognised_result': 0}
BUFFER_OPS = {'array': ('refill', 'refill', 'scale', 'scale', 'shift', 'item', 'item', 'reverse'),
              'list': ('refill', 'refill', 'resize', 'scale', 'shift', 'item', 'item', 'reverse', 'append')}


# ------------------------------------------------------------------ setup / monitors
def _wrap_calculate(ctx, nsf):
    """Hand-written postcondition on the PRIVATE nsf._calculate_scattering (fires on internal calls: the callers
    look the name up in the module globals).  Optional instrumentation: when the function is absent, takes other
    arguments or returns another structure in this tree, the call is passed through un-judged and counted; the
    reference-model comparison of the public results does not depend on it.  Returns the original function or None."""
    import numpy as np
    from ..ref.neutron import private, tolerant
    orig = private(ctx, nsf, '_calculate_scattering',
                   ['postcondition.evaluations', 'postcondition.clip_active', 'reach.line.incoherent_clip'])
    if orig is None:
        return None
    if getattr(orig, '_pvmon_c03', False):
        return orig._pvmon_original
    k = 4 * math.pi / 100

    def _calculate_scattering_judged(number_density, wavelength, b_c, sigma_s, _call):
        try:
            w0 = np.array(wavelength, dtype=float, copy=True)
            b0 = np.array(b_c, dtype=complex, copy=True)
            s0 = np.array(sigma_s, dtype=float, copy=True)
            nd = float(number_density)
        except Exception:                      # arguments of another kind than the ones this contract knows
            _post['contract._calculate_scattering.unrecognised_call'] += 1
            return _call()
        out = _call()
        try:
            (sre, sim, sinc), (coh, ab, inc), pen = out
        except Exception:                      # a private function may return what it likes: not judged
            _post['contract._calculate_scattering.unrecognised_result'] += 1
            return out
        _post['calls'] += 1
        fails = []
        try:
            if not (np.array_equal(w0, np.asarray(wavelength, dtype=float)) and
                    np.array_equal(b0, np.asarray(b_c, dtype=complex)) and
                    np.array_equal(s0, np.asarray(sigma_s, dtype=float))):
                fails.append('an input array was modified')
            for name, v in (('sld_im', sim), ('sld_inc', sinc), ('coh_xs', coh), ('abs_xs', ab), ('inc_xs', inc),
                            ('penetration', pen)):
                if not np.all(np.asarray(v, dtype=float) >= 0):
                    fails.append('%s = %r is not >= 0' % (name, v))
            total = nd * s0
            prod = np.asarray(pen, dtype=float) * (np.asarray(ab, dtype=float) + total)
            if not np.all(np.abs(prod - 1) <= 1e-12):
                fails.append('penetration*(abs_xs + N sigma_s) = %r, not 1' % (prod,))
            if np.any(s0 < k * np.abs(b0) ** 2):
                _post['clip_active'] += 1
        except Exception as exc:   # malformed output: report, never hide
            fails.append('postcondition could not be evaluated: %r' % (exc,))
        if fails:
            _post['fail'].append({'what': fails[:4], 'number_density': nd,
                                  'wavelength': repr(wavelength)[:120], 'b_c': repr(b_c)[:160],
                                  'sigma_s': repr(sigma_s)[:120]})
        return out

    checked = tolerant(orig, ('number_density', 'wavelength', 'b_c', 'sigma_s'), _calculate_scattering_judged,
                       _post, 'contract._calculate_scattering')
    checked._pvmon_c03 = True
    nsf._calculate_scattering = checked
    return orig


def setup(ctx):
    import periodictable as pt
    from periodictable import nsf
    from ..ref.neutron import NeutronModel
    pt.elements.Fe.neutron          # public neutron group loaded by first touch
    m = _state['model'] = NeutronModel()
    from ..ref.neutron import watch_entry, watch_lines
    orig = _wrap_calculate(ctx, nsf)             # None when this tree has no nsf._calculate_scattering
    reach = Reach()
    watch_entry(ctx, reach, nsf.neutron_scattering, 'neutron_scattering')
    watch_entry(ctx, reach, nsf.Neutron.scattering, 'Neutron.scattering')
    watch_entry(ctx, reach, nsf.Neutron.scattering_by_wavelength, 'scattering_by_wavelength', requirements=[])
    if orig is not None:
        watch_entry(ctx, reach, orig, '_calculate_scattering', requirements=[])
    # line anchors inside function bodies are optional: a body written differently waives the counter (reach.missing)
    for func, texts, label in ((nsf.Neutron.scattering_by_wavelength, ('return ones*self.b_c_complex',), 'branch.constant'),
                               (nsf.Neutron.scattering_by_wavelength, ('np.interp(',), 'branch.table'),
                               (orig, ('np.maximum(',), 'line.incoherent_clip')):
        watch_lines(ctx, reach, func, texts, label)
    reach.start()
    _state['reach'] = reach
    _state['fp'] = FPMonitor().start()
    from ..ref.neutron import ArgumentGuard
    _state['guard'] = ArgumentGuard.install(nsf)      # after Reach: the counters watch the original code objects
    # ---- atom pools, from the model only
    T = pt.elements
    with_data, no_density, tabled, dataless = [], [], [], []
    for el in T:
        Z = el.number
        if Z < 1:
            continue
        for A in [0] + list(el.isotopes):
            if A == 0 and Z in m.fallback and Z not in m.single_isotope:
                continue                      # natural Pu, Cm: unconstrained
            if m.has_data(Z, A):
                if m.atom_density(Z, A) is None:
                    no_density.append((Z, A))
                else:
                    with_data.append((Z, A))
                    if m.has_table(Z, A):
                        tabled.append((Z, A))
            else:
                dataless.append((Z, A))
    _state.update(with_data=with_data, no_density=no_density, tabled=tabled, dataless=dataless,
                  dataless_elements=[k for k in dataless if k[1] == 0],
                  partial_rows=[k for k in dataless if m.in_table(*k)],
                  ions={el.number: tuple(el.ions) for el in T})
    ctx.info['pools'] = {'atoms_with_data': len(with_data), 'elements_with_data': sum(1 for k in with_data if not k[1]),
                         'isotopes_with_data': sum(1 for k in with_data if k[1]),
                         'energy_dependent_entries': len(tabled), 'data_but_no_element_density': len(no_density),
                         'dataless_elements': len(_state['dataless_elements']), 'dataless_atoms': len(dataless),
                         'rows_without_scattering_length': len(_state['partial_rows'])}


# ------------------------------------------------------------------ case construction
def _count(rng):
    r = rng.random()
    if r < 0.45:
        return rng.choice([1, 1, 2, 3, 4, 6, 12])
    if r < 0.55:
        return 0.5
    return float('%.4g' % (10 ** rng.uniform(-3, 3)))


def _count_text(n):
    if n == 1:
        return ''
    if float(n).is_integer():
        return '%d' % n
    from decimal import Decimal
    return format(Decimal(repr(float(n))), 'f')


def _render(atoms, rng):
    import periodictable as pt
    from ..atoms import render
    sep = rng.choice(['', ' ', ' ', '+', ' + '])
    toks = [render(pt.elements, (Z, A, q), rng) + _count_text(n) for Z, A, q, n in atoms]
    return sep.join(toks)


def _wavelengths(ctx, rng, m, atoms):
    """A wavelength in [0.05, 50] A, log-uniform; half of the time near the table range when the compound has a table atom."""
    keys = [(Z, A) for Z, A, q, n in atoms if m.has_table(Z, A)]
    if keys and rng.random() < 0.6:
        pts = m.wavelength_table(*rng.choice(keys))
        r = rng.random()
        if r < 0.25:
            return pts[rng.randrange(len(pts))][0]                       # exactly on a node
        if r < 0.8:
            j = rng.randrange(len(pts) - 1)
            return pts[j][0] + rng.random() * (pts[j + 1][0] - pts[j][0])   # inside a segment
        if r < 0.9:
            return max(0.05, pts[0][0] * rng.uniform(0.2, 0.999))
        return min(50., pts[-1][0] * rng.uniform(1.001, 10.))
    return 10 ** rng.uniform(math.log10(0.05), math.log10(50.))


def _shape(ctx, rng, m, atoms, case, wkinds=('wavelength', 'wavelength', 'energy', 'energy', 'default', 'energy+decoy')):
    """Fill the wavelength / energy / vector part of a case."""
    wkind = rng.choice(wkinds)
    if wkind == 'default':
        case.update(wkind='default', vec='scalar', w=None)
        return case
    vec = rng.choice(['scalar', 'scalar', 'npfloat', 'list', 'tuple', 'array', 'array'])
    nw = 1 if vec in ('scalar', 'npfloat') else rng.randint(1, 7)
    ws = [_wavelengths(ctx, rng, m, atoms) for _ in range(nw)]
    if vec == 'scalar' and rng.random() < 0.1 and wkind == 'wavelength':
        ws = [rng.randint(1, 50)]
    case.update(wkind=wkind, vec=vec)
    if wkind == 'wavelength':
        case['w'] = ws if nw > 1 or vec not in ('scalar', 'npfloat') else ws[0]
    else:
        es = [m.energy_factor / w ** 2 for w in ws]
        case['energy'] = es if nw > 1 or vec not in ('scalar', 'npfloat') else es[0]
        if wkind == 'energy+decoy':
            case['w'] = 10 ** rng.uniform(-1.3, 1.7)      # must be ignored
    return case


def _density(rng):
    if rng.random() < 0.08:
        return 10 ** rng.uniform(-15, -4)        # residual gas of an evacuated flight tube ... thin gases
    return 10 ** rng.uniform(-4, math.log10(25.))


def _ion_of(rng, Z):
    ions = _state['ions'].get(Z) or ()
    return rng.choice(ions) if ions else 0


def _random_compound(ctx, rng, special=None):
    """atoms [[Z,A,q,n]...] of 1-8 atoms; *special* (a key) is forced in."""
    m = _state['model']
    n = rng.choice([1, 2, 2, 3, 3, 4, 5, 6, 7, 8])
    atoms = {}
    want_table = rng.random() < 0.35
    with_ions = rng.random() < 0.25
    for i in range(n):
        if special is not None and i == 0:
            Z, A = special
        elif want_table and i < 2 and rng.random() < 0.7:
            Z, A = rng.choice(_state['tabled'])
        else:
            Z, A = rng.choice(_state['with_data'])
        q = _ion_of(rng, Z) if (with_ions and rng.random() < 0.6) else 0
        atoms[(Z, A, q)] = atoms.get((Z, A, q), 0) + _count(rng)
    return [[Z, A, q, c] for (Z, A, q), c in atoms.items()]


def generate(ctx):
    m = _state['model']
    rng = ctx.rng
    i = 0
    # (a) every atom with data as a one-atom compound, three wavelengths, and its ions
    for k in _state['with_data']:
        if ctx.mine(i):
            Z, A = k
            for q in [0] + ([_ion_of(rng, Z)] if not ctx.thorough() else list(_state['ions'].get(Z, ()))[:4]):
                for w in (10 ** rng.uniform(math.log10(0.05), math.log10(1.)), 1.798, 10 ** rng.uniform(0.3, math.log10(50.))):
                    rho = m.atom_density(Z, A) if rng.random() < 0.5 else _density(rng)
                    case = {'family': 'single', 'atoms': [[Z, A, q, 1]], 'density': rho, 'dkind': 'density',
                            'wkind': 'wavelength', 'vec': 'scalar', 'w': w,
                            'form': rng.choice(['dict', 'string', 'atom', 'formula'])}
                    if case['form'] == 'string':
                        case['string'] = _render(case['atoms'], rng)
                    yield 'compound', case
        i += 1
    # (b) direct queries
    for k in _state['with_data']:
        if ctx.mine(i):
            Z, A = k
            yield 'direct', _shape(ctx, rng, m, [[Z, A, 0, 1]], {'Z': Z, 'A': A}, wkinds=('wavelength', 'wavelength', 'default'))
            if m.has_table(Z, A) or ctx.thorough():
                yield 'direct', _shape(ctx, rng, m, [[Z, A, 0, 1]], {'Z': Z, 'A': A}, wkinds=('wavelength',))
        i += 1
    # (c) energy tables: all nodes, midpoints, beyond both ends
    for k in _state['tabled']:
        if ctx.mine(i):
            yield 'table', {'Z': k[0], 'A': k[1], 'density': _density(rng), 'nscalar': ctx.scale(12, 60)}
        i += 1
    # (e) data-less atoms: every element without data, the rows without a scattering length, random isotopes
    pool = list(_state['dataless_elements']) + list(_state['partial_rows'])
    for k in pool:
        if ctx.mine(i):
            yield 'dataless', _dataless_case(ctx, rng, k, alone=True)
            yield 'dataless', _dataless_case(ctx, rng, k, alone=False)
        i += 1
    for _ in range(ctx.scale(100, 1500)):
        yield 'dataless', _dataless_case(ctx, rng, rng.choice(_state['dataless']), alone=rng.random() < 0.2)
    # (f) tabulated data but no element density (Ra): a bounded handful of cases
    for k in _state['no_density']:
        if ctx.mine(i):
            for alone in (True, False):
                atoms = [[k[0], k[1], 0, 1]] if alone else _random_compound(ctx, rng, special=k)
                case = {'family': 'no_element_density', 'atoms': atoms, 'density': _density(rng), 'dkind': 'density',
                        'form': 'dict'}
                yield 'compound', _shape(ctx, rng, m, atoms, case, wkinds=('wavelength', 'energy'))
        i += 1
    # (g) buffer reuse: every energy-dependent entry with an ndarray and with a list, then random compounds
    for k in _state['tabled']:
        if ctx.mine(i):
            for container in ('array', 'list'):
                yield 'buffer', _buffer_case(ctx, rng, k, container)
        i += 1
    for _ in range(ctx.scale(120, 1500)):
        special = rng.choice(_state['tabled']) if rng.random() < 0.85 else None
        yield 'buffer', _buffer_case(ctx, rng, special, rng.choice(['array', 'list']))
    # (h) nested compounds: groups inside groups, n*formula, Formula arithmetic, nested structures
    for _ in range(ctx.scale(320, 2600)):
        yield 'compound', _nested_case(ctx, rng)
    # (d) random compounds
    for _ in range(ctx.scale(3000, 25000)):
        atoms = _random_compound(ctx, rng)
        has_ion = any(q for _Z, _A, q, _n in atoms)
        case = {'family': 'compound', 'atoms': atoms, 'density': _density(rng),
                'dkind': 'natural_density' if rng.random() < 0.35 else 'density',
                'form': rng.choice(['dict', 'dict', 'string', 'string', 'formula', 'structure', 'structure-formula']
                                   + (['atom'] if len(atoms) == 1 and atoms[0][3] == 1 else []))}
        if case['form'] == 'string':
            case['string'] = _render(atoms, rng)
        case['also_sld'] = rng.random() < 0.2
        case['zero_count'] = rng.random() < 0.15
        yield 'compound', _shape(ctx, rng, m, atoms, case)


NESTED_FORMS = ('nested-string', 'nested-formula', 'nested-struct', 'nested-arith', 'nested-scaled')


def _nested_case(ctx, rng):
    """A compound of 2-6 atoms written with groups nested in groups (multipliers other than 1 on at least two
    levels), or as n*formula(text with a multiplied group).  The model multiset comes first; the tree is a random
    bracketing OF it (pvmon.gen.compounds.nest_tree), folded back as a self-check; 'atoms' (what the reference
    gets) is the multiset, not anything read from the rendering."""
    import periodictable as pt
    from fractions import Fraction
    from ..gen import compounds as G
    m = _state['model']
    for _attempt in range(200):
        items = []
        want_table = rng.random() < 0.3
        with_ions = rng.random() < 0.25
        for i in range(rng.choice([2, 2, 3, 3, 4, 5, 6])):
            if items and rng.random() < 0.12:
                key = rng.choice(items)[0]                       # the same atom in two places of the formula
            else:
                Z, A = rng.choice(_state['tabled']) if (want_table and i == 0) else rng.choice(_state['with_data'])
                key = (Z, A, _ion_of(rng, Z) if (with_ions and rng.random() < 0.6) else 0)
            items.append((key, G.draw_count(rng)))
        if len({k for k, _c in items}) < 2:
            continue
        form = rng.choice(['nested-string', 'nested-string', 'nested-formula', 'nested-struct', 'nested-arith',
                           'nested-scaled', 'nested-scaled'])
        outer = None
        body = items
        levels = rng.choice([2, 2, 2, 3])
        if form == 'nested-scaled':
            outer = rng.choice(G.MULTIPLIERS)
            body = G.scaled(items, 1 / Fraction(outer))
            if not all(G.renderable(c) for _k, c in body):
                continue
            levels = rng.choice([1, 1, 2])
        tree = G.nest_tree(rng, body, levels)
        if tree is None:
            continue
        break
    else:
        raise AssertionError('generator: no nested rendering found in 200 attempts')
    want = G.total(items)
    folded = {k: c * (Fraction(outer) if outer else 1) for k, c in G.denote(tree).items()}
    if folded != want or G.nesting_of(tree) + (1 if outer else 0) < 2:
        raise AssertionError('generator self-check failed: tree %r (outer %r) does not denote %r' % (tree, outer, want))
    atoms = [[Z, A, q, float(c)] for (Z, A, q), c in want.items()]
    has_ion = any(q for _Z, _A, q, _n in atoms)
    case = {'family': 'nested', 'atoms': atoms, 'tree': tree, 'form': form, 'string': G.render_string(tree, pt.elements, rng),
            'nesting': G.nesting_of(tree) + (1 if outer else 0), 'density': _density(rng),
            'dkind': 'natural_density' if rng.random() < 0.3 else 'density',
            'also_sld': rng.random() < 0.1}
    if outer:
        case['outer'] = outer
        case['outer_as'] = 'float' if (Fraction(outer).denominator != 1 or rng.random() < 0.3) else 'int'
    return _shape(ctx, rng, m, atoms, case)


class _AtomSource(object):
    """What pvmon.gen.compounds.build_structure / build_arith need of a universe: key -> library atom."""

    @staticmethod
    def atom(k):
        return _lib_atom(*k)


def _nested_compound(case):
    """Library-side compound object of a nested case."""
    import periodictable as pt
    from ..gen import compounds as G
    form, text, tree = case['form'], case['string'], case['tree']
    if form == 'nested-string':
        return text
    if form == 'nested-formula':
        return pt.formula(text)
    if form == 'nested-struct':
        return G.build_structure(tree, _AtomSource)
    if form == 'nested-arith':
        return G.build_arith(tree, _AtomSource, pt.formula)
    if form == 'nested-scaled':
        return _outer_number(case) * pt.formula(text)
    raise ValueError('unknown nested form %r' % (form,))


def _outer_number(case):
    return float(case['outer']) if case.get('outer_as') == 'float' else int(case['outer'])


def _nested_how(case):
    """How the compound of a nested case is written (for messages)."""
    form, text = case['form'], case['string']
    return {'nested-string': '%r', 'nested-formula': 'formula(%r)',
            'nested-struct': 'nested (count, fragment) list of %r',
            'nested-arith': 'Formula arithmetic (sum of m*formula(group)) of %r',
            'nested-scaled': repr(_outer_number(case)) + '*formula(%r)' if form == 'nested-scaled' else ''}[form] % text


def _buffer_case(ctx, rng, special, container):
    """One mutable wavelength (or energy) buffer, the calls made with it and the in-place edits between them."""
    m = _state['model']
    if special is not None and rng.random() < 0.4:
        atoms = [[special[0], special[1], _ion_of(rng, special[0]) if rng.random() < 0.15 else 0, 1]]
    else:
        atoms = _random_compound(ctx, rng, special=special)
    plain = len(atoms) == 1 and atoms[0][2] == 0 and atoms[0][3] == 1 and m.atom_density(*atoms[0][:2]) is not None
    if plain and rng.random() < 0.5:
        path = rng.choice(['direct', 'direct', 'direct_sld'])
    else:
        path = 'neutron_sld' if rng.random() < 0.15 else 'compound'
    wkind = 'energy' if (path in ('compound', 'neutron_sld') and rng.random() < 0.15) else 'wavelength'
    n = rng.randint(1, 7)

    def value():
        w = _wavelengths(ctx, rng, m, atoms)
        return w if wkind == 'wavelength' else m.energy_factor / w ** 2

    cur = [value() for _ in range(n)]
    case = {'family': 'buffer', 'atoms': atoms, 'density': _density(rng), 'dkind': 'density', 'path': path,
            'container': container, 'wkind': wkind, 'start': list(cur), 'steps': [],
            'form': rng.choice(['dict', 'dict', 'string', 'formula'] + (['atom'] if plain else []))}
    if case['form'] == 'string':
        case['string'] = _render(atoms, rng)
    lo, hi = (0.05, 50.) if wkind == 'wavelength' else (m.energy_factor / 50. ** 2, m.energy_factor / 0.05 ** 2)
    for _ in range(rng.randint(1, 3)):
        op = rng.choice(BUFFER_OPS[container])
        if op == 'scale':
            a, b = max(0.2, lo / min(cur)), min(5., hi / max(cur))
            if not a < b:
                op = 'refill'
            else:
                f = float('%.6g' % math.exp(rng.uniform(math.log(a), math.log(b))))
                cur = [x * f for x in cur]
                case['steps'].append({'op': 'scale', 'f': f})
        if op == 'shift':
            a, b = lo - min(cur), hi - max(cur)
            d = rng.uniform(a, b) * 0.999
            cur = [x + d for x in cur]
            case['steps'].append({'op': 'shift', 'd': d})
        elif op == 'refill':
            cur = [value() for _ in cur]
            case['steps'].append({'op': 'refill', 'values': list(cur)})
        elif op == 'resize':
            cur = [value() for _ in range(rng.randint(1, 7))]
            case['steps'].append({'op': 'resize', 'values': list(cur)})
        elif op == 'item':
            j = rng.randrange(len(cur))
            cur[j] = value()
            case['steps'].append({'op': 'item', 'j': j, 'value': cur[j]})
        elif op == 'append':
            cur.append(value())
            case['steps'].append({'op': 'append', 'value': cur[-1]})
        elif op == 'reverse':
            cur.reverse()
            case['steps'].append({'op': 'reverse'})
    return case


def _dataless_case(ctx, rng, k, alone):
    Z, A = k
    q = _ion_of(rng, Z) if rng.random() < 0.2 else 0
    atoms = [[Z, A, q, _count(rng)]]
    if not alone:
        atoms = _random_compound(ctx, rng) + atoms
        rng.shuffle(atoms)
        merged = {}
        for Z_, A_, q_, n_ in atoms:
            merged[(Z_, A_, q_)] = merged.get((Z_, A_, q_), 0) + n_
        atoms = [[a, b, c, n_] for (a, b, c), n_ in merged.items()]
    case = {'atoms': atoms, 'density': _density(rng), 'dkind': 'density', 'culprit': [Z, A, q],
            'form': rng.choice(['dict', 'string', 'formula'])}
    if case['form'] == 'string':
        case['string'] = _render(atoms, rng)
    return _shape(ctx, rng, _state['model'], atoms, case, wkinds=('wavelength', 'energy', 'default'))


# ------------------------------------------------------------------ execution helpers
def _lib_atom(Z, A, q):
    import periodictable as pt
    from ..atoms import lookup
    return lookup(pt.elements, (Z, A, q))


def _count_kind(n, i):
    """The count *n* as another kind of number with exactly the same value (Fraction, numpy scalars, bool)."""
    import numpy as np
    # Fraction counts are left to C02 (composition only): numpy.sqrt refuses the object arrays they lead to with
    # vector wavelengths, loudly; float32 counts make numpy 2 compute in single precision (4e-8 relative)
    kinds = [np.float64, float]
    if float(n) == int(n) and 0 <= n < 2 ** 31:
        kinds += [np.int32, np.int64, int]      # not uint8: numpy 2 refuses uint8 + (python int beyond 255), loudly
        if n == 1:
            kinds.append(bool)
    k = kinds[i % len(kinds)]
    v = k(int(n)) if k in (np.int32, np.int64, int, bool) else k(n)
    assert float(v) == float(n)
    return v


def _vector(kind, values):
    import numpy as np
    if kind == 'scalar':
        return values
    if kind == 'npfloat':
        return np.float64(values)
    if kind == 'list':
        return list(values)
    if kind == 'tuple':
        return tuple(values)
    return np.array(values, dtype=float)


def _call_args(case):
    """(compound object, keyword arguments, list of reference wavelengths, output shape)."""
    import periodictable as pt
    m = _state['model']
    atoms = case['atoms']
    form = case.get('form', 'dict')
    as_dict = {}
    for Z, A, q, n in atoms:
        a = _lib_atom(Z, A, q)
        as_dict[a] = as_dict.get(a, 0) + n
    if form in NESTED_FORMS:
        compound = _nested_compound(case)
    elif form == 'string':
        compound = case['string']
    elif form == 'atom':
        compound = _lib_atom(*atoms[0][:3])
    elif form == 'formula':
        compound = pt.formula(as_dict)
    elif form in ('structure', 'structure-formula'):
        # round 8: the list-structure route [(count, atom), ...] with counts of other exact kinds of numbers
        compound = [(_count_kind(n, i + len(atoms)), _lib_atom(Z, A, q)) for i, (Z, A, q, n) in enumerate(atoms)]
        if form == 'structure-formula':
            compound = pt.formula(compound)
    else:
        compound = as_dict
    kw = {case.get('dkind', 'density'): case['density']}
    wkind = case.get('wkind', 'wavelength')
    vec = case.get('vec', 'scalar')
    if wkind == 'default':
        ws, shape = [1.798], ()
    elif wkind == 'wavelength':
        raw = case['w']
        kw['wavelength'] = _vector(vec, raw)
        ws = list(raw) if isinstance(raw, (list, tuple)) else [raw]
        shape = (len(ws),) if isinstance(raw, (list, tuple)) else ()
    else:
        raw = case['energy']
        kw['energy'] = _vector(vec, raw)
        es = list(raw) if isinstance(raw, (list, tuple)) else [raw]
        ws = [m.wavelength_of_energy(e) for e in es]
        shape = (len(ws),) if isinstance(raw, (list, tuple)) else ()
        if wkind == 'energy+decoy':
            kw['wavelength'] = case['w']
    return compound, kw, ws, shape


def _model_density(case, counts):
    m = _state['model']
    if case.get('dkind', 'density') == 'natural_density':
        return case['density'] * m.formula_mass(counts) / m.natural_mass(counts)
    return case['density']


def _counts(case):
    counts = {}
    for Z, A, q, n in case['atoms']:
        counts[(Z, A, q)] = counts.get((Z, A, q), 0) + n
    return counts


def _compare(ctx, got, counts, rho, ws, shape, label, sld_only=False, **detail):
    """Seven outputs at every wavelength against the reference (the three SLDs when *sld_only*: *got* is then
    the triple returned by neutron_sld / .sld).  Returns the number of disagreements."""
    import numpy as np
    from ..ref.neutron import compare7, flatten7, NAMES
    m = _state['model']
    try:
        if sld_only:
            a, b, c = got
            flat = [np.broadcast_to(np.asarray(x, dtype=float), shape) for x in (a, b, c)]
        else:
            flat = flatten7(got, shape)
    except Exception as exc:
        ctx.evaluated(what='shape')
        ctx.violation('%s: result %r does not have the shape of the wavelength argument %r (%s)'
                      % (label, got, shape, exc), symptom='shape', **detail)
        return 1
    nbad = 0
    for i, w in enumerate(ws):
        ref, floors = m.reference_with_floors(counts, rho, w)
        if ref[5] == 0:
            ctx.count('reference.incoherent_clip_active')
        obs = [float(x[i]) if shape else float(x) for x in flat]
        if sld_only:
            obs = obs + list(ref[3:])
        bad, worst, floor_only = compare7(obs, ref, floors, rel=REL)
        ctx.evaluated(3 if sld_only else 7, 'outputs')
        for j in range(7):
            if worst[j]:
                ctx.observe('relerr.' + NAMES[j], worst[j])
        for j in floor_only:
            ctx.count('passed_only_by_cancellation_floor.' + NAMES[j])
            ctx.observe('floor_fraction_used.' + NAMES[j], abs(obs[j] - ref[j]) / floors[j])
        if bad:
            nbad += 1
            if nbad <= 2:
                ctx.violation('%s at wavelength %r A, density %r: %s'
                              % (label, w, rho, '; '.join('%s = %r, equations give %r (rel %.3g)' % b[1:] for b in bad[:7])),
                              symptom='value', outputs=[b[1] for b in bad], nan=any(b[2] != b[2] for b in bad),
                              wavelength=w, **detail)
    return nbad


def _drain(ctx, label):
    while _post['fail']:
        f = _post['fail'].pop(0)
        ctx.evaluated(what='postcondition')
        ctx.violation('%s: postcondition of nsf._calculate_scattering failed: %s' % (label, '; '.join(f['what'])),
                      symptom='postcondition', **{k: v for k, v in f.items() if k != 'what'})
    g = _state.get('guard')
    while g is not None and g.failures:
        f = g.failures.pop(0)
        ctx.evaluated(what='input-immutability')
        ctx.violation('%s: %s modified its %s argument in place: %s before the call, %s after'
                      % (label, f['function'], f['argument'], f['before'], f['after']), symptom='mutated-argument', **f)


def _is_none_triple(r):
    return isinstance(r, tuple) and len(r) == 3 and all(x is None for x in r)


def _signature(case, family):
    keys = tuple(sorted((Z, A, q) for Z, A, q, _n in case['atoms']))
    return (family, keys, 'scalar' if case.get('vec', 'scalar') in ('scalar', 'npfloat') else 'vector',
            case.get('wkind', 'wavelength').split('+')[0], case.get('dkind', 'density'))


# ------------------------------------------------------------------ checks
def check_compound(ctx, case):
    import periodictable as pt
    m = _state['model']
    counts = _counts(case)
    compound, kw, ws, shape = _call_args(case)
    label = case.get('string') or ' '.join('%s%s%s:%g' % (m.symbol[Z], '[%d]' % A if A else '', '{%+d}' % q if q else '', n)
                                           for Z, A, q, n in case['atoms'])
    nested = case.get('form') in NESTED_FORMS
    if nested:
        label = _nested_how(case)
        ctx.count('nested.form.' + case['form'])
        ctx.count('nested.multiplied_levels.%d' % case.get('nesting', 0))
    if case['density'] < 1e-9:
        ctx.count('density.below_1e-9')
    label = 'neutron_scattering(%s, %s)' % (label[:160 if nested else 120], ', '.join('%s=%s' % (k, str(v)[:60]) for k, v in kw.items()))
    got = pt.neutron_scattering(compound, **kw)
    ctx.distinct_case(_signature(case, case.get('family', 'compound')) + ((case['form'],) if nested else ()))
    for Z, A, _q, _n in case['atoms']:
        if m.has_table(Z, A):
            ctx.count('energy_dependent_entry_seen.%s%s' % (m.symbol[Z], A or ''))
    detail = {'family': case.get('family'), 'has_table_atom': any(m.has_table(Z, A) for Z, A, _q, _n in case['atoms']),
              'contains_eu151': any((Z, A) == (63, 151) for Z, A, _q, _n in case['atoms']),
              'no_density_atoms': [[Z, A] for Z, A, _q, _n in case['atoms'] if (Z, A) in _state['no_density']]}
    if _is_none_triple(got):
        ctx.evaluated(what='none-triple')
        if detail['no_density_atoms']:
            detail['sibling_ok'] = _sibling_without(ctx, case, detail['no_density_atoms'])
        ctx.violation('%s returned (None, None, None) although every atom has tabulated neutron data' % label,
                      symptom='none', **detail)
        _drain(ctx, label)
        return
    rho = _model_density(case, counts)
    _compare(ctx, got, counts, rho, ws, shape, label, **detail)
    if case.get('zero_count') and 'natural_density' not in kw:
        # an atom with count zero, listed BEFORE the others, is not there: the equations weight every atom by its count
        from ..atoms import lookup
        present = set((Z, A) for Z, A, _q, _n in case['atoms'])
        cand = next((c for c in ((6, 0, 0), (1, 0, 0), (1, 2, 0), (13, 0, 0), (47, 0, 0)) if (c[0], c[1]) not in present), None)
        if cand is not None:
            zero_atom = lookup(pt.elements, cand)
            f = compound if hasattr(compound, 'structure') else pt.formula(compound)
            kwz = dict(kw)
            if 'density' not in kwz and f.density is not None:
                kwz['density'] = f.density
            for how, obj in (('(0, %s) first in a nested structure' % zero_atom, [(0, zero_atom)] + list(f.structure)),
                             ('{%s: 0.0, ...}' % zero_atom, dict([(zero_atom, 0.0)] + list(f.atoms.items())))):
                if 'density' not in kwz:
                    break
                ctx.count('zero_count.calls')
                gz = pt.neutron_scattering(obj, **kwz)
                if _is_none_triple(gz):
                    ctx.violation('%s with a zero-count atom added [%s] returned (None, None, None)' % (label, how),
                                  symptom='zero-count', **detail)
                    continue
                _compare(ctx, gz, counts, rho, ws, shape, label + ' with a zero-count atom added [%s]' % how, **detail)
    if case.get('also_sld'):
        import numpy as np
        sld = pt.neutron_sld(compound, **kw)
        ctx.evaluated(3, 'neutron_sld')
        if not all(np.array_equal(np.asarray(a), np.asarray(b)) for a, b in zip(sld, got[0])) or len(sld) != 3:
            ctx.violation('%s: neutron_sld gives %r, neutron_scattering()[0] gives %r' % (label, sld, got[0]),
                          symptom='sld-vs-scattering', **detail)
    _drain(ctx, label)


def _sibling_without(ctx, case, drop):
    """The same call with the atoms *drop* removed: True when it agrees with the reference, False when it does
    not, None when nothing is left.  Used only to keep a known-finding classifier narrow."""
    import periodictable as pt
    from ..ref.neutron import compare7, flatten7
    m = _state['model']
    sib = dict(case)
    sib['atoms'] = [a for a in case['atoms'] if a[:2] not in drop]
    sib['form'] = 'dict'
    if not sib['atoms']:
        return None
    try:
        compound, kw, ws, shape = _call_args(sib)
        got = pt.neutron_scattering(compound, **kw)
        if _is_none_triple(got):
            return False
        flat = flatten7(got, shape)
        counts = _counts(sib)
        rho = _model_density(sib, counts)
        for i, w in enumerate(ws):
            ref, floors = m.reference_with_floors(counts, rho, w)
            bad, _w, _f = compare7([float(x[i]) if shape else float(x) for x in flat], ref, floors, rel=REL)
            if bad:
                return False
        return True
    except Exception:
        return False


def check_direct(ctx, case):
    """atom.neutron.scattering / .sld == equations for the one-atom compound at the atom's density
    == neutron_scattering(atom, density=atom.density)."""
    import numpy as np
    import periodictable as pt
    from ..ref.neutron import flatten7
    m = _state['model']
    Z, A = case['Z'], case['A']
    at = _lib_atom(Z, A, 0)
    label = '%s%s.neutron' % (m.symbol[Z], '[%d]' % A if A else '')
    wkind = case.get('wkind', 'wavelength')
    if wkind == 'default':
        kw, ws, shape = {}, [1.798], ()
    else:
        raw = case['w']
        kw = {'wavelength': _vector(case.get('vec', 'scalar'), raw)}
        ws = list(raw) if isinstance(raw, (list, tuple)) else [raw]
        shape = (len(ws),) if isinstance(raw, (list, tuple)) else ()
    rho = m.atom_density(Z, A)
    counts = {(Z, A, 0): 1}
    ctx.distinct_case(('direct', (Z, A), 'vector' if shape else 'scalar', wkind))
    if m.has_table(Z, A):
        ctx.count('energy_dependent_entry_seen.%s%s' % (m.symbol[Z], A or ''))
    got = at.neutron.scattering(**kw)
    if _is_none_triple(got):
        ctx.evaluated(what='none-triple')
        ctx.violation('%s.scattering() is (None, None, None) for an atom with data and density' % label, symptom='none')
        return
    nbad = _compare(ctx, got, counts, rho, ws, shape, label + '.scattering(%s)' % kw, direct=True)
    sld = at.neutron.sld(**kw)
    ctx.evaluated(3, 'direct.sld')
    if len(sld) != 3 or not all(np.array_equal(np.asarray(a), np.asarray(b)) for a, b in zip(sld, got[0])):
        ctx.violation('%s.sld(%s) = %r differs from .scattering()[0] = %r' % (label, kw, sld, got[0]), symptom='sld-vs-scattering')
    # the one-atom compound at the atom's own density, through the library
    ldens = at.density
    ctx.evaluated(what='atom-density')
    if ldens is None or not ctx.close(ldens, rho, rel=1e-12):
        ctx.violation('%s: atom density %r, tables give %r' % (label, ldens, rho), symptom='density')
    else:
        comp = pt.neutron_scattering(at, density=ldens, **kw)
        if _is_none_triple(comp):
            ctx.evaluated(what='none-triple')
            ctx.violation('neutron_scattering(%s, density=%r) is (None, None, None)' % (label, ldens), symptom='none')
        elif nbad == 0:
            try:
                a, b = flatten7(got, shape), flatten7(comp, shape)
            except Exception as exc:
                ctx.violation('%s: shapes of direct and compound results differ (%s)' % (label, exc), symptom='shape')
            else:
                for j, w in enumerate(ws):
                    _ref, floors = m.reference_with_floors(counts, rho, w)
                    for i in range(7):
                        x = float(a[i][j]) if shape else float(a[i])
                        y = float(b[i][j]) if shape else float(b[i])
                        ctx.evaluated(what='direct-vs-compound')
                        d = abs(x - y)
                        if not (d <= 2 * floors[i] or d <= REL * max(abs(x), abs(y))):
                            ctx.violation('%s at %r A: direct %s = %r, one-atom compound at density %r gives %r'
                                          % (label, w, ('sld_re', 'sld_im', 'sld_inc', 'coh_xs', 'abs_xs', 'inc_xs', 'penetration')[i],
                                             x, ldens, y), symptom='direct-vs-compound')
                        elif d > 2 * floors[i]:
                            ctx.observe('direct_vs_compound.relerr', d / max(abs(x), abs(y)))
    _drain(ctx, label)


def check_table(ctx, case):
    """One energy-dependent entry: every node, every segment midpoint, beyond both ends; vector and scalar calls."""
    import numpy as np
    import periodictable as pt
    m = _state['model']
    Z, A = case['Z'], case['A']
    rho = case['density']
    at = _lib_atom(Z, A, 0)
    label = 'neutron_scattering(%s%s, density=%r)' % (m.symbol[Z], '[%d]' % A if A else '', rho)
    pts = m.wavelength_table(Z, A)
    nodes = [p[0] for p in pts]
    mids = [(a + b) / 2 for a, b in zip(nodes, nodes[1:])]
    lo, hi = nodes[0], nodes[-1]
    outside = [max(0.05, lo * f) for f in (0.999999, 0.7, 0.2)] + [0.05] + [min(50., hi * f) for f in (1.000001, 1.5, 5.)] + [50.]
    allw = nodes + mids + outside
    counts = {(Z, A, 0): 1}
    ctx.distinct_case(('table', (Z, A)))
    ctx.count('energy_dependent_entry_seen.%s%s' % (m.symbol[Z], A or ''))
    ctx.count('table_points.nodes', len(nodes))
    ctx.count('table_points.midpoints', len(mids))
    ctx.count('table_points.outside', len(outside))
    got = pt.neutron_scattering(at, density=rho, wavelength=np.array(allw))
    _compare(ctx, got, counts, rho, allw, (len(allw),), label + ' [vector of %d]' % len(allw), table=True)
    # the same through energy=
    es = [m.energy_factor / w ** 2 for w in allw]
    got = pt.neutron_scattering({at: 1}, density=rho, energy=es)
    _compare(ctx, got, counts, rho, [m.wavelength_of_energy(e) for e in es], (len(es),), label + ' [energy vector]', table=True)
    rng = ctx.rng
    picks = [0, len(nodes) - 1, len(nodes), len(allw) - 1, len(allw) - 8] + [rng.randrange(len(allw)) for _ in range(case.get('nscalar', 12))]
    for j in picks:
        w = allw[j]
        got = pt.neutron_scattering(at, density=rho, wavelength=w)
        _compare(ctx, got, counts, rho, [w], (), label + ' [scalar]', table=True)
    if m.atom_density(Z, A) is not None:
        got = at.neutron.scattering(wavelength=np.array(allw))
        _compare(ctx, got, counts, m.atom_density(Z, A), allw, (len(allw),), label + ' [direct vector]', table=True)
    # the same entry on a private table whose neutron data were loaded and then loaded again (the documented
    # nsf.init(table, reload=True)): the energy tables belong to the data and are there after a reload as well
    Tr = _reloaded_table(ctx)
    if Tr is not None:
        from ..atoms import lookup
        atr = lookup(Tr, (Z, A, 0))
        ctx.count('reloaded_private_table.entries')
        got = pt.neutron_scattering(atr, density=rho, wavelength=np.array(allw))
        _compare(ctx, got, counts, rho, allw, (len(allw),), label + ' [private table after init(reload=True), vector]', table=True)
        got = pt.neutron_scattering({atr: 2}, density=rho, energy=es[:6])
        _compare(ctx, got, {(Z, A, 0): 2}, rho, [m.wavelength_of_energy(e) for e in es[:6]], (6,),
                 label + ' [private table after init(reload=True), energy vector]', table=True)
    _drain(ctx, label)


def _reloaded_table(ctx):
    """A private table with mass, density and neutron data, the neutron data loaded twice (reload=True)."""
    if 'reloaded' not in _state:
        from periodictable import core, mass, density, nsf
        try:
            T = core.PeriodicTable('c03_reloaded_%d' % ctx.shard)
            mass.init(T)
            density.init(T)
            nsf.init(T)
            nsf.init(T, reload=True)
        except Exception as exc:
            T = None
            ctx.note('private table with reloaded neutron data could not be built (%s: %s): that pass is skipped'
                     % (type(exc).__name__, exc))
            ctx.count('anchor_missing.reloaded_private_table.entries')
        _state['reloaded'] = T
    return _state['reloaded']


def _mutate(buf, step):
    """Apply one in-place edit to the caller's buffer (the SAME object is passed to the next call)."""
    op = step['op']
    is_list = isinstance(buf, list)
    if op in ('refill', 'resize'):
        buf[:] = step['values']
    elif op == 'scale':
        if is_list:
            for j in range(len(buf)):
                buf[j] = buf[j] * step['f']
        else:
            buf *= step['f']
    elif op == 'shift':
        if is_list:
            for j in range(len(buf)):
                buf[j] = buf[j] + step['d']
        else:
            buf += step['d']
    elif op == 'item':
        buf[step['j']] = step['value']
    elif op == 'append':
        buf.append(step['value'])
    elif op == 'reverse':
        if is_list:
            buf.reverse()
        else:
            buf[:] = buf[::-1].copy()
    else:
        raise ValueError('unknown buffer operation %r' % (op,))


def check_buffer(ctx, case):
    """Consecutive calls with ONE mutable wavelength/energy object that the caller edits in place between the
    calls: every call must describe the values the object holds when the call is made.  No other library call
    happens between two steps (the oracle is the reference model)."""
    import numpy as np
    import periodictable as pt
    m = _state['model']
    atoms = case['atoms']
    counts = _counts(case)
    probe = dict(case, wkind='default')
    compound, kw0, _ws, _shape_ = _call_args(probe)
    path, container, wkind = case['path'], case['container'], case.get('wkind', 'wavelength')
    at = _lib_atom(*atoms[0][:3])
    rho = m.atom_density(*atoms[0][:2]) if path.startswith('direct') else case['density']
    if path == 'compound':
        def call(arg):
            return pt.neutron_scattering(compound, **dict(kw0, **{wkind: arg}))
    elif path == 'neutron_sld':
        def call(arg):
            return pt.neutron_sld(compound, **dict(kw0, **{wkind: arg}))
    elif path == 'direct':
        def call(arg):
            return at.neutron.scattering(wavelength=arg)
    else:
        def call(arg):
            return at.neutron.sld(wavelength=arg)
    sld_only = path in ('neutron_sld', 'direct_sld')
    name = case.get('string') or ' '.join('%s%s%s:%g' % (m.symbol[Z], '[%d]' % A if A else '', '{%+d}' % q if q else '', n)
                                          for Z, A, q, n in atoms)
    has_table = any(m.has_table(Z, A) for Z, A, _q, _n in atoms)
    detail = {'family': 'buffer', 'has_table_atom': has_table, 'container': container, 'path': path,
              'contains_eu151': any((Z, A) == (63, 151) for Z, A, _q, _n in atoms), 'no_density_atoms': []}
    for Z, A, _q, _n in atoms:
        if m.has_table(Z, A):
            ctx.count('energy_dependent_entry_seen.%s%s' % (m.symbol[Z], A or ''))
    ctx.distinct_case(('buffer', tuple(sorted((Z, A, q) for Z, A, q, _n in atoms)), container, path, wkind,
                       tuple(s['op'] for s in case['steps'])))
    buf = list(case['start']) if container == 'list' else np.array(case['start'], dtype=float)
    history = 'fresh %s' % container
    nbad = 0
    for k, step in enumerate([None] + list(case['steps'])):
        if step is not None:
            _mutate(buf, step)
            history = '%s edited in place (%s) after %d call(s) with the same object' % (container, step['op'], k)
            ctx.count('buffer.op.' + step['op'])
            if has_table and wkind == 'wavelength':
                ctx.count('buffer.reuse_with_table_atom.' + container)
        vals = [float(x) for x in buf]
        ws = vals if wkind == 'wavelength' else [m.wavelength_of_energy(e) for e in vals]
        got = call(buf)
        ctx.count('buffer.calls')
        label = '%s(%s, density=%r, %s=<%s>) [call %d: %s; values %s]' % (path, name[:100], rho, wkind, container, k + 1,
                                                                          history, ', '.join('%.6g' % v for v in vals))
        if _is_none_triple(got) or (sld_only and got is None):
            ctx.evaluated(what='none-triple')
            ctx.violation('%s returned None although every atom has tabulated neutron data' % label, symptom='none', **detail)
            break
        nbad += _compare(ctx, got, counts, rho, ws, (len(ws),), label, sld_only=sld_only, step=k, **detail)
        if nbad:
            break
    else:
        # the same values as a fresh array: must be the same numbers again
        vals = [float(x) for x in buf]
        ws = vals if wkind == 'wavelength' else [m.wavelength_of_energy(e) for e in vals]
        got = call(np.array(vals))
        _compare(ctx, got, counts, rho, ws, (len(ws),), '%s(%s, density=%r, %s=<fresh array of the last buffer values %s>)'
                 % (path, name[:100], rho, wkind, ', '.join('%.6g' % v for v in vals)), sld_only=sld_only,
                 step='fresh', **detail)
    _drain(ctx, 'buffer reuse %s' % name[:100])


def check_dataless(ctx, case):
    import periodictable as pt
    m = _state['model']
    compound, kw, _ws, _shape_ = _call_args(case)
    ctx.distinct_case(_signature(case, 'dataless'))
    ctx.evaluated(what='none-triple')
    got = pt.neutron_scattering(compound, **kw)
    if not _is_none_triple(got):
        Z, A, q = case['culprit']
        ctx.violation('compound %r contains %s%s which has no neutron data, yet neutron_scattering returned %r'
                      % (case.get('string') or case['atoms'], m.mass.symbol.get(Z, Z), '[%d]' % A if A else '', got),
                      symptom='not-none')
    ctx.count('dataless_compounds')
    _drain(ctx, 'dataless')


CHECKS = {'compound': check_compound, 'direct': check_direct, 'table': check_table, 'dataless': check_dataless,
          'buffer': check_buffer}


def finish(ctx):
    r = _state.get('reach')
    if r is not None:
        r.stop()
        r.export(ctx)
    fp = _state.get('fp')
    if fp is not None:
        fp.stop()
        fp.export(ctx)
    g = _state.get('guard')
    if g is not None:
        ctx.count('immutability.evaluations', g.evaluations)
        for name, n in g.by_function.items():
            ctx.count('immutability.' + name, n)
        g.evaluations = 0
        g.by_function.clear()
    ctx.count('postcondition.evaluations', _post['calls'])
    ctx.count('postcondition.clip_active', _post['clip_active'])
    _post['calls'] = _post['clip_active'] = 0
    # the postcondition sits on a PRIVATE function: calls it could not read (other parameters / other result
    # structure) or a tree whose public calculators do not go through that function make it evidence only
    from ..ref.neutron import anchor_missing, waive_if_bypassed
    unread = 0
    for name in ('contract._calculate_scattering.unrecognised_call', 'contract._calculate_scattering.unrecognised_result'):
        ctx.count(name, _post[name])
        unread += _post[name]
        _post[name] = 0
    if unread and not ctx.counters.get('postcondition.evaluations', 0):
        anchor_missing(ctx, 'postcondition on nsf._calculate_scattering', ['postcondition.evaluations', 'postcondition.clip_active'],
                       why='met %d calls whose arguments or result it does not recognise and none it does' % unread)
    if waive_if_bypassed(ctx, 'postcondition.evaluations', 'reach.neutron_scattering', 'postcondition on nsf._calculate_scattering'):
        anchor_missing(ctx, 'clip counter of that postcondition and the line counter in that function',
                       ['postcondition.clip_active', 'reach.line.incoherent_clip'], why='go with it')
    n_tabled = len(_state['tabled'])
    seen = sum(1 for k in list(ctx.counters) if k.startswith('energy_dependent_entry_seen.'))
    ctx.info['energy_dependent_entries_seen_by_this_shard'] = seen
    for k in _state['tabled']:
        ctx.require('energy_dependent_entry_seen.%s%s' % (_state['model'].symbol[k[0]], k[1] or ''), 1,
                    'each of the %d energy-dependent entries must be exercised' % n_tabled)
    ctx.require('zero_count.calls', 1, 'a compound with a zero-count atom listed first must have been calculated')
    ctx.require('reloaded_private_table.entries', 1, 'an energy-dependent entry must have been read from a private table after init(reload=True)')
    ctx.require('postcondition.evaluations', 1, 'the postcondition on nsf._calculate_scattering must have been evaluated')
    ctx.require('postcondition.clip_active', 1, 'the incoherent clip (sigma_s < sigma_c) must have been active at least once')
    ctx.require('reference.incoherent_clip_active', 1, 'a compared call for which the documented equations clip the incoherent '
                'cross section to zero (public-level counterpart of postcondition.clip_active)')
    # a line anchor that exists in this tree but sits in code the public calculators no longer run through is
    # evidence only (the branch is then reached some other way; the per-entry requirements above prove the workload)
    for label in ('branch.table', 'branch.constant', 'line.incoherent_clip'):
        waive_if_bypassed(ctx, 'reach.' + label, 'reach.neutron_scattering', 'line counter %s' % label)
    ctx.require('reach.branch.table', 1, 'table branch of Neutron.scattering_by_wavelength entered')
    ctx.require('reach.branch.constant', 1, 'constant branch of Neutron.scattering_by_wavelength entered')
    ctx.require('reach.line.incoherent_clip', 1, 'np.maximum clip line of _calculate_scattering executed')
    ctx.require('reach.neutron_scattering', 1, 'neutron_scattering entered')
    ctx.require('reach.Neutron.scattering', 1, 'Neutron.scattering entered')
    ctx.require('dataless_compounds', 1, 'compounds with a data-less atom exercised')
    ctx.require('immutability.evaluations', 1, 'the input-immutability monitor must have compared a mutable argument')
    for form in NESTED_FORMS:
        ctx.require('nested.form.' + form, 1, 'a compound with multipliers on two or more nested levels given as %s' % form)
    ctx.require('density.below_1e-9', 1, 'compounds at residual-gas densities (below 1e-9 g/cm^3)')
    for container in ('array', 'list'):
        ctx.require('buffer.reuse_with_table_atom.' + container, 1,
                    'a call re-using an in-place edited %s wavelength buffer with an energy-dependent atom' % container)


def classify(rec):
    d = rec.get('detail') or {}
    case = rec.get('case') or {}
    atoms = case.get('atoms') or []
    # D3 consequence: NaN from the unfilled real part of Eu-151's b_c_complex
    if (d.get('symptom') == 'value' and d.get('nan') and d.get('contains_eu151')
            and any(a[:2] == [63, 151] for a in atoms)):
        return 'c03.eu151-bc-complex'
    # Ra / Ra-226: b_c, sigma_s, sigma_a tabulated, element density unknown -> has_sld() False -> None triple
    if (rec.get('check') == 'compound' and d.get('symptom') == 'none' and case.get('family') == 'no_element_density'
            and d.get('no_density_atoms') and d.get('sibling_ok') is not False):
        return 'c03.data-but-no-element-density'
    return None
