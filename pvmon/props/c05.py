"""C05 - X-ray factors, SLD and refraction follow the tables and documented equations.

Reference-model monitor: pvmon.ref.xray re-reads the 92 Henke tables and the
Waasmaier-Kirfel coefficient file itself, interpolates with bisect, sums the
compound SLD by the documented equation and evaluates f0 itself.  Metamorphic
relations (energy/wavelength, scalar/vector, density linearity, isotope
independence with an own mass ratio), range postconditions attached in-process
to Xray.scattering_factors and mirror_reflectivity, an input-unchanged guard on
every public x-ray call (ndarray / list / dict arguments are the same after the
call as before), array objects reused across calls, atoms and compounds (one Q
grid and one energy / wavelength grid per worker, buffers refilled in place),
sys.monitoring reach counters on the anchored functions."""
import math
import random
import re

from ..statemon import Reach

RULE = ('factor cases: one per (tabulated element, point family) - every table node, segment midpoints (all in '
        'thorough, a seeded sample in quick), log-uniform energies by energy= and by wavelength=, absorption-edge '
        'neighbourhoods, out-of-range energies - for the element, each of its ions and sampled isotope ions; '
        'compound cases: random compounds (1-5 distinct tabulated elements, isotopes, ions, dict or formula-string '
        'form; about 15 % hold one element in several charge states and/or isotopes: neutral + ion, two ions, '
        'isotope + ion of another isotope, the same atom twice) x density x energy with all relations, plus a '
        'fixed energy / wavelength array shared by all compounds of a worker; mirror cases: energy x angle grids '
        'with roughness; density-route cases: one compound (a third of them one-atom formulas) as string, dict, '
        'atom, Formula without density and Formula carrying its own density (from the @, @..i, @..n tags, '
        'density= / natural_density= at construction, the attribute, a copy, the one-element default), each with '
        'density=, with natural_density= and (when it carries one) with no keyword, through xray_sld, '
        'index_of_refraction and mirror_reflectivity; f0 cases: each of the 211 coefficient entries and every element/ion of the table, all on '
        'one shared Q array; vector calls are repeated with the same array object and with the object refilled '
        'in place.  distinct = distinct (element, '
        'table segment) pairs compared against the interpolation, distinct (atom-key set, energy bin of 0.01 decade) '
        'pairs for compounds and mirrors, distinct (compound form, density source, isotopic, charged, one-atom) '
        'classes for density routes, distinct coefficient entries and (Z, charge) pairs for f0; a point is '
        'non-trivial only if a value was compared with the reference (points inside a non-monotone table window '
        'or with an untabulated f1 are counted separately and do not count)')
TECHNIQUE = ('runtime monitoring: reference-model monitor (independent table readers, own interpolation, documented '
             'equations), metamorphic relations between executions (including repeated and refilled argument '
             'objects), in-process postconditions on Xray.scattering_factors and mirror_reflectivity, in-process '
             'input-unchanged guards on f0, scattering_factors, sld, xray_sld, index_of_refraction, '
             'mirror_reflectivity and the conversions, sys.monitoring reach counters')
LEVEL_TEXT = ('Every node of all 92 scattering-factor tables, segment midpoints, absorption-edge neighbourhoods and '
              'out-of-range energies are pushed through the public calls and compared with an independent reader and '
              'interpolator; random compounds, refraction indices, mirror grids and all 211 form-factor entries are '
              'compared with the documented equations; every way of handing a compound and its density to the calculators '
              '(string, dict, atom, Formula with and without its own density x density= / natural_density= / none) is '
              'compared with the density the documented rules select.  Nodes and f0 entries are swept completely; energies between '
              'nodes, compounds and grids are finite samples.'
              " Added in rounds 4-7: package-level alias under every density route, f1 at table nodes bordering rows without f1 and NaN between them, refraction / reflectivity at the end node of a table, scalar f0 over the whole Q grid, zero-count atoms, refused calls on the caller's Formula, in-place edits of returned arrays, clones of ions' x-ray records.")
LEVEL_NOTE = ('Trusted: pvmon/ref/xray.py and pvmon/ref/masses.py (readers, bisect interpolation, sums), the embedded '
              'data files as specification, periodictable.constants cross-pinned to CODATA at 1e-6.')
SHARDS = {'quick': 8, 'thorough': 16}
TIMEOUT = {'quick': 300, 'thorough': 2400}
ASSUMPTIONS = ['the .nff rows and f0_WaasKirf.dat coefficients are the specification (literature values are not checked)',
               'r_e, N_A, h, c are read from periodictable.constants and pinned to CODATA within 1e-6',
               'f1 next to a row whose f1 is -9999 (missing) is not constrained; energies inside a non-monotone '
               'neighbourhood of a table (the out-of-order row of si.nff) are excluded and counted',
               'tolerance: 1e-10 of the bracketing ordinates plus the change of the interpolant over a few ulp of the '
               'energy (keV/eV and energy/wavelength conversions round)',
               'atom masses from the independent reader pvmon/ref/masses.py; an ion weighs its atom less q electrons',
               'the natural mass ratio of the natural_density= route (every isotope replaced by its element, ion '
               'charges kept) is computed from pvmon/ref/masses.py as in C12; it is judged in the density-route cases, '
               'the compound cases only observe it for formulas with ions',
               'density sources are never combined (density= together with natural_density= is not documented); an '
               'explicit keyword wins over the density a Formula object carries, as documented for formula()',
               'a query leaves its array / list / dict arguments unchanged (a changed argument makes the results '
               'of the caller\'s later calls depend on history, which the scalar/vector and table clauses exclude)']

TWENTYFOUR_PI = 24 * math.pi
_state = {}


# --------------------------------------------------------------------------
# in-process postconditions
# --------------------------------------------------------------------------
def _post_scattering_factors(xobj, kw, out):
    """f2 is NaN exactly where the energy is outside the element's tabulated range, f1 is NaN there too,
    and the result has the shape of the argument."""
    import numpy as np
    from .. import atoms
    ctx, xr = _state['ctx'], _state['xr']
    f1, f2 = out
    if f1 is None or f2 is None:
        ctx.count('contract.scattering_factors.none_result')
        return
    Z = atoms.key(xobj.element)[0]
    if not xr.has_table(Z):
        ctx.count('contract.scattering_factors.no_reference_table')
        return
    tab = xr.table(Z)
    from_wavelength = kw.get('wavelength') is not None
    arg = kw.get('wavelength') if from_wavelength else kw.get('energy')
    if arg is None:
        return
    a = np.asarray(arg, dtype=float)
    e = (xr.hc / a) if from_wavelength else a
    g1, g2 = np.asarray(f1), np.asarray(f2)
    ctx.count('contract.scattering_factors')
    if g1.shape != a.shape or g2.shape != a.shape:
        ctx.violation('postcondition scattering_factors: argument shape %r, result shapes %r, %r'
                      % (a.shape, g1.shape, g2.shape), contract='scattering_factors.shape')
        return
    e, g1, g2 = e.ravel(), g1.ravel(), g2.ravel()
    with np.errstate(invalid='ignore'):
        inside = (e >= tab.emin) & (e <= tab.emax)
        if from_wavelength:   # the round trip may move a boundary energy by an ulp: do not judge those
            sure = (np.abs(e - tab.emin) > 1e-12 * tab.emin) & (np.abs(e - tab.emax) > 1e-12 * tab.emax)
        else:
            sure = np.ones(e.shape, bool)
    bad2 = (np.isnan(g2) == inside) & sure
    bad1 = (~inside) & ~np.isnan(g1) & sure
    ctx.count('contract.scattering_factors.points', int(e.size))
    if bad2.any() or bad1.any():
        i = int(np.flatnonzero(bad2 | bad1)[0])
        ctx.violation('postcondition scattering_factors(%s): energy %r keV is %s the tabulated range [%r, %r] '
                      'but f1, f2 = %r, %r' % (xobj.element, float(e[i]), 'inside' if inside[i] else 'outside',
                                               tab.emin, tab.emax, float(g1[i]), float(g2[i])),
                      contract='scattering_factors.nan_iff_outside', Z=Z, energy=float(e[i]))


def _post_mirror(out):
    import numpy as np
    ctx = _state['ctx']
    ctx.count('contract.mirror_reflectivity')
    R = np.asarray(out)
    if np.iscomplexobj(R):
        ctx.violation('postcondition mirror_reflectivity: complex reflectivity', contract='mirror.range')
        return
    vals = R[~np.isnan(R)]
    ctx.count('contract.mirror_reflectivity.points', int(vals.size))
    if vals.size and (vals.min() < 0 or vals.max() > 1 + 1e-12):
        ctx.violation('postcondition mirror_reflectivity: reflectivity outside [0, 1]: min %r max %r'
                      % (float(vals.min()), float(vals.max())), contract='mirror.range')


# --------------------------------------------------------------------------
# input immutability: a query must not change the arrays / lists / dicts it is given
# (a changed argument is an observable effect: later results of the caller's loop then
# depend on which calls came before)
# --------------------------------------------------------------------------
MAX_MUTATION_REPORTS = 3      # per guarded function and worker; the rest is counted
GUARDED = ('Xray.f0', 'Xray.scattering_factors', 'Xray.sld', 'xray_sld', 'index_of_refraction',
           'mirror_reflectivity')


def _leaf(x):
    import numpy as np
    if isinstance(x, (bool, int, float, complex, str, bytes, type(None), np.generic)):
        return repr(x)
    return id(x)


def _snap_item(x, depth):
    s = _snap(x, depth) if depth < 4 else None
    return _leaf(x) if s is None else s


def _snap(v, depth=0):
    """An exact picture of a mutable argument; None for what cannot be changed in place
    (numbers, strings, tuples of such, atoms)."""
    import numpy as np
    if isinstance(v, np.ndarray):
        return ('ndarray', v.dtype.str, v.shape, v.tobytes())
    if isinstance(v, list):
        return ('list', tuple(_snap_item(x, depth + 1) for x in v))
    if isinstance(v, tuple):
        inner = [_snap(x, depth + 1) if depth < 4 else None for x in v]
        if all(i is None for i in inner):
            return None
        return ('tuple', tuple(_leaf(x) if i is None else i for i, x in zip(inner, v)))
    if isinstance(v, dict):
        return ('dict', tuple((id(k), _snap_item(x, depth + 1)) for k, x in v.items()))
    return None


def _describe_change(value, before):
    import numpy as np
    if isinstance(value, np.ndarray) and before[0] == 'ndarray':
        old = np.frombuffer(before[3], dtype=np.dtype(before[1])).reshape(before[2])
        if value.shape != old.shape or value.dtype != old.dtype:
            return '%s %r became %s %r' % (old.dtype, old.shape, value.dtype, value.shape)
        if value.dtype.kind in 'fc':
            diff = ~((value == old) | ((value != value) & (old != old)))
        else:
            diff = value != old
        idx = np.argwhere(diff)
        if len(idx):
            i = tuple(int(t) for t in idx[0])
            return '%s ndarray of shape %r: element %r was %r before the call and is %r after (%d of %d changed)' % (
                old.dtype, old.shape, i if len(i) != 1 else i[0], old[i].item(), value[i].item(), len(idx), old.size)
        return '%s ndarray of shape %r: bit pattern changed' % (old.dtype, old.shape)
    return '%s: %.200r after the call' % (type(value).__name__, value)


def _guard(label, orig):
    """Rebind-wrapper: every ndarray / list / dict argument is the same after the call as before."""
    import functools

    @functools.wraps(orig)
    def guarded(*args, **kw):
        tracked = []
        for name, a in list(enumerate(args)) + list(kw.items()):
            if a is None or isinstance(a, (float, int, str)):
                continue
            snap = _snap(a)
            if snap is not None:
                tracked.append((name, a, snap))
        if not tracked:
            return orig(*args, **kw)
        try:
            return orig(*args, **kw)
        finally:
            _inputs_unchanged(label, tracked)
    return guarded


def _inputs_unchanged(label, tracked):
    ctx = _state['ctx']
    for name, a, before in tracked:
        ctx.count('contract.input_unchanged')
        ctx.count('contract.input_unchanged.' + label)
        if _snap(a) == before:
            continue
        ctx.count('contract.input_unchanged.changed.' + label)
        seen = _state.setdefault('mutation_reports', {})
        seen[label] = seen.get(label, 0) + 1
        if seen[label] > MAX_MUTATION_REPORTS:
            ctx.count('contract.input_unchanged.reports_suppressed')
            continue
        ctx.violation('%s changed its argument %s in place (%s); a query must leave its inputs alone, the next '
                      'call with the same object is evaluated at other values'
                      % (label, name if isinstance(name, str) else 'number %d' % name, _describe_change(a, before)),
                      contract='input-unchanged', function=label, argument=str(name))


def _install_contracts(xsf, cromermann):
    import functools
    orig_sf = xsf.Xray.scattering_factors
    orig_mr = xsf.mirror_reflectivity

    @functools.wraps(orig_sf)
    def scattering_factors(self, *args, **kw):
        out = orig_sf(self, *args, **kw)
        _post_scattering_factors(self, kw, out)
        return out

    @functools.wraps(orig_mr)
    def mirror_reflectivity(*args, **kw):
        out = orig_mr(*args, **kw)
        _post_mirror(out)
        return out

    # module / class attributes are rebound, so calls made inside the library (xray_sld ->
    # scattering_factors, index_of_refraction -> xray_sld, Xray.f0 -> cromermann.fxrayatq,
    # periodictable.xray_sld -> xsf.xray_sld) pass through the guards too
    xsf.Xray.scattering_factors = _guard('Xray.scattering_factors', scattering_factors)
    xsf.mirror_reflectivity = _guard('mirror_reflectivity', mirror_reflectivity)
    xsf.Xray.sld = _guard('Xray.sld', xsf.Xray.sld)
    xsf.Xray.f0 = _guard('Xray.f0', xsf.Xray.f0)
    xsf.xray_sld = _guard('xray_sld', xsf.xray_sld)
    xsf.index_of_refraction = _guard('index_of_refraction', xsf.index_of_refraction)
    xsf.xray_energy = _guard('xray_energy', xsf.xray_energy)
    xsf.xray_wavelength = _guard('xray_wavelength', xsf.xray_wavelength)
    cromermann.fxrayatq = _guard('cromermann.fxrayatq', cromermann.fxrayatq)
    cromermann.fxrayatstol = _guard('cromermann.fxrayatstol', cromermann.fxrayatstol)
    return orig_sf, orig_mr


def _inner(func):
    """The function behind util.require_keywords (functools.wraps keeps __wrapped__)."""
    while hasattr(func, '__wrapped__'):
        func = func.__wrapped__
    return func


def setup(ctx):
    import periodictable as pt
    from periodictable import xsf, cromermann
    from ..ref.xray import XrayModel, CromerMannTable
    xr = XrayModel()
    cm = CromerMannTable()
    pt.Fe.xray  # force the delayed loader so that Element.xray / Ion.xray are the real properties
    _state.update(ctx=ctx, xr=xr, cm=cm, pt=pt, xsf=xsf, cromermann=cromermann)
    orig_sf, orig_mr = _install_contracts(xsf, cromermann)
    reach = Reach()
    _state['anchors_missing'] = set()

    def watch(owner, attr, label, fn=None):
        """Reach counter on a library function looked up by name.  A private helper that is absent (renamed,
        split, inlined) only loses its counter: `anchor_missing.reach.<label>` waives the requirement on it."""
        if fn is None:
            fn = getattr(owner, attr, None)
        fn = _inner(getattr(fn, '__func__', fn)) if fn is not None else None
        if getattr(fn, '__code__', None) is None:
            _state['anchors_missing'].add(label)
            ctx.count('anchor_missing.reach.' + label)
            ctx.note('%s.%s not found as a Python function (refactored source?): reach counter %r is evidence only, '
                     'its requirement is waived' % (getattr(owner, '__name__', owner), attr, label))
            return
        reach.watch(fn, label)

    watch(xsf.Xray, 'scattering_factors', 'Xray.scattering_factors', fn=orig_sf)
    watch(xsf.Xray, '_gettable', 'Xray._gettable')                     # private: optional
    watch(xsf.Xray, 'sld', 'Xray.sld')
    watch(xsf.Xray, 'f0', 'Xray.f0')
    watch(xsf, 'xray_sld', 'xray_sld')
    watch(xsf, 'index_of_refraction', 'index_of_refraction')
    watch(xsf, 'mirror_reflectivity', 'mirror_reflectivity', fn=orig_mr)
    watch(xsf, 'xray_energy', 'xray_energy')
    watch(xsf, 'xray_wavelength', 'xray_wavelength')
    watch(cromermann, 'fxrayatstol', 'fxrayatstol')
    watch(getattr(cromermann, 'CromerMannFormula', None), 'atstol', 'CromerMannFormula.atstol')
    watch(cromermann, '_update_cmformulas', '_update_cmformulas')      # private: optional
    for text, label in (('numpy.interp(energy, xsf[0], xsf[1]', 'interp_f1_line'),
                        ('numpy.interp(energy, xsf[0], xsf[2]', 'interp_f2_line'),
                        ('energy = xray_energy(wavelength)', 'sf_wavelength_branch')):
        try:
            reach.watch_line_matching(_inner(orig_sf), text, label)
        except Exception:  # noqa - no source for the function: the line counter is evidence only
            ctx.note('source line %r not found in Xray.scattering_factors (edited tree?)' % text)
    _state['reach'] = reach.start()
    ctx.info['tables_read_by_reference'] = len(xr.symbols)
    ctx.info['cromer_mann_entries_read_by_reference'] = len(cm.entries)


def finish(ctx):
    reach = _state.get('reach')
    if reach is not None:
        reach.stop()
        reach.export(ctx)
    xr = _state['xr']
    ctx.info['nonmonotone_windows_keV'] = {xr.symbols[z]: [list(w) for w in xr.table(z).windows]
                                           for z in sorted(xr._tables) if xr.table(z).windows}
    if ctx.replay:
        return
    why = 'the workload must be observed entering the anchored mechanism'
    for label in ('Xray.scattering_factors', 'Xray._gettable', 'Xray.sld', 'Xray.f0', 'xray_sld',
                  'index_of_refraction', 'mirror_reflectivity', 'xray_energy', 'xray_wavelength',
                  'fxrayatstol', 'CromerMannFormula.atstol'):
        ctx.require('reach.' + label, 1, why)
    ctx.require('contract.scattering_factors', 1, 'the postcondition on Xray.scattering_factors must have been evaluated')
    ctx.require('contract.mirror_reflectivity', 1, 'the postcondition on mirror_reflectivity must have been evaluated')
    for label in GUARDED:
        ctx.require('contract.input_unchanged.' + label, 1,
                    'the input-unchanged guard on %s must have compared an array/list/dict argument' % label)
    ctx.require('eval.f2', 92 * 100, 'interpolation comparisons over all tables')
    ctx.require('eval.sld', 100, 'compound SLD comparisons')
    ctx.require('eval.f0.electron_count', 211, 'every Cromer-Mann entry must be evaluated at Q -> 0')
    ctx.require('tables.swept', 92, 'every tabulated element must be swept')
    ctx.require('compound.repeated_element.charge_states', 20,
                'compounds holding one element in two or more charge states (mixed valence, neutral + ion)')
    ctx.require('compound.repeated_element.isotopes', 20, 'compounds holding two isotopes of one element')
    ctx.require('eval.repeat_same_object', 1000, 'calls repeated with the same array object')
    ctx.require('reuse.f0_q_grid_calls', 300, 'one Q array handed to many f0 calls')
    for form in ROUTE_FORMS_ANY + ROUTE_FORMS_MULTI + ROUTE_FORMS_SINGLE:
        for kwname in ROUTE_KEYWORDS + (() if form in ('string', 'dict') + ROUTE_FORMS_MULTI else ('own',)):
            ctx.require('route.%s.%s' % (form, kwname), 3,
                        'every compound form must meet every density source (density=, natural_density=, its own)')
    ctx.require('route.cases.natural_ratio_differs_from_1', 20, 'density-route compounds with isotopes')
    ctx.require('route.cases.isotope_ion', 5, 'density-route compounds with isotope ions')


# --------------------------------------------------------------------------
# workload
# --------------------------------------------------------------------------
def _seed(ctx):
    return ctx.rng.getrandbits(48)


def generate(ctx):
    xr, cm, pt = _state['xr'], _state['cm'], _state['pt']
    if ctx.shard == 0:
        yield 'constants', {}
    i = 0
    for Z in sorted(xr.symbols):
        mine = ctx.mine(i)
        i += 1
        if not mine:
            continue
        yield 'factors', {'Z': Z, 'mode': 'nodes'}
        yield 'factors', {'Z': Z, 'mode': 'midpoints', 'sample': None if ctx.thorough() else 150, 'seed': _seed(ctx)}
        yield 'factors', {'Z': Z, 'mode': 'random', 'sample': ctx.scale(100, 400), 'seed': _seed(ctx)}
        yield 'factors', {'Z': Z, 'mode': 'edges', 'sample': None if ctx.thorough() else 40, 'seed': _seed(ctx)}
        yield 'factors', {'Z': Z, 'mode': 'outside'}
        el = pt.elements[Z]
        keys = [[Z, 0, q] for q in el.ions]
        rng = random.Random(_seed(ctx))
        isos = [A for A in el.isotopes if not (Z == 1 and A in (2, 3))]
        for A in rng.sample(isos, min(len(isos), ctx.scale(2, 6))):
            keys.append([Z, A, 0])
            if el.ions:
                keys.append([Z, A, rng.choice(el.ions)])
        yield 'ions', {'Z': Z, 'atoms': keys, 'seed': _seed(ctx), 'sample': ctx.scale(12, 40)}
        if Z == 1:   # the aliases D and T and their ions (one case; finding D28 lives here)
            yield 'ions', {'Z': 1, 'atoms': [[1, 2, 0], [1, 3, 0]], 'seed': _seed(ctx), 'sample': 12}
            yield 'ions', {'Z': 1, 'atoms': [[1, A, q] for A in (2, 3) for q in el.ions], 'seed': _seed(ctx),
                           'sample': 12}
        yield 'element_sld', {'Z': Z, 'seed': _seed(ctx), 'sample': ctx.scale(8, 40)}
    for j, sym in enumerate(cm.order):
        if ctx.mine(j):
            yield 'f0_entry', {'symbol': sym}
    for Z in range(0, 119):
        if ctx.mine(Z):
            yield 'f0_atoms', {'Z': Z, 'seed': _seed(ctx)}
    if ctx.mine(1):
        yield 'f0_atoms', {'Z': 1, 'dt': True, 'seed': _seed(ctx)}
    ncomp = ctx.scale(500, 2500)
    for n in range(ncomp):
        # ions of D and T trigger the listed finding D28: bounded minority (4 %)
        yield 'compound', gen_compound(ctx.rng, dt=(n % 25 == 7))
    for n in range(ctx.scale(100, 500)):
        yield 'mirror', gen_mirror(ctx.rng)
    for n in range(ctx.scale(40, 200)):
        yield 'density_route', gen_route(ctx.rng, single=(n % 3 == 1))


def _render(key, alias):
    pt = _state['pt']
    Z, A, q = key
    if Z == 1 and A in (2, 3) and alias:
        s = 'D' if A == 2 else 'T'
    else:
        s = pt.elements[Z].symbol + ('[%d]' % A if A else '')
    if q:
        s += '{%s%s}' % ('' if abs(q) == 1 and alias else '%d' % abs(q), '+' if q > 0 else '-')
    return s


def _count_text(n):
    if n == 1:
        return ''
    if float(n).is_integer():
        return '%d' % n
    return '%.3f' % n


REPEAT_SHARE = 0.15    # compounds / mirrors that hold one element in several charge states and/or isotopes
COUNTS = [1, 1, 2, 3, 4, 0.5]


def _count(rng):
    return rng.choice(COUNTS + [float('%.3f' % 10 ** rng.uniform(-2, 2))])


def _repeat_element(rng, atoms, dt):
    """Add one or two further forms of an element the compound already has: another charge state
    (neutral + ion, two ions: mixed-valence Fe{2+}Fe{3+}2O{2-}4), another isotope (H + D), an ion of
    another isotope, or - rarely - the very same atom again (two places of a formula string)."""
    pt = _state['pt']
    Z, A, q, _n = rng.choice(atoms)
    el = pt.elements[Z]
    for _ in range(rng.choice([1, 1, 1, 2])):
        kind = rng.choice(['charge', 'charge', 'charge', 'isotope', 'both', 'both', 'same'])
        A2, q2 = A, q
        if kind in ('charge', 'both') and el.ions:
            q2 = rng.choice([c for c in [0] + list(el.ions) if c != q])
        if kind in ('isotope', 'both') and el.isotopes:
            A2 = rng.choice([a for a in [0] + list(el.isotopes) if a != A] or [A])
        if Z == 1 and A2 in (2, 3) and not dt:     # ions of D and T only in the dt share of the cases
            q2 = 0
        atoms.insert(rng.randint(0, len(atoms)), [Z, A2, q2, _count(rng)])


def gen_atoms(rng, dt=False, nmax=5, repeat=None):
    pt, xr = _state['pt'], _state['xr']
    zs = rng.sample(sorted(xr.symbols), rng.randint(1, nmax))
    if dt and 1 not in zs:
        zs[0] = 1
    atoms = []
    for Z in zs:
        el = pt.elements[Z]
        A = q = 0
        if rng.random() < 0.35 and el.isotopes:
            A = rng.choice(el.isotopes)
        if rng.random() < 0.35 and el.ions:
            q = rng.choice(el.ions)
        if Z == 1:
            if dt:
                A, q = rng.choice((2, 3)), rng.choice(el.ions)
            elif A in (2, 3):
                q = 0
        atoms.append([Z, A, q, _count(rng)])
    if repeat is None:
        repeat = rng.random() < REPEAT_SHARE
    if repeat:
        _repeat_element(rng, atoms, dt)
    return atoms


def gen_energy(rng, atoms):
    """keV: mostly log-uniform over the documented range, some in the low-energy zone where f1 is
    missing, some on or next to a node or absorption edge of a constituent, some outside, some on the boundary."""
    xr = _state['xr']
    u = rng.random()
    tab = xr.table(rng.choice(atoms)[0])
    if u < 0.62:
        return 10 ** rng.uniform(math.log10(0.03), math.log10(30))
    if u < 0.72:
        return 10 ** rng.uniform(math.log10(tab.emin), math.log10(0.03))
    if u < 0.90:
        edges = tab.edges()
        j = rng.choice(edges) if edges and rng.random() < 0.7 else rng.randrange(tab.n - 1)
        e0, e1 = tab.E[j], tab.E[j + 1]
        return rng.choice([e0, e1, e0 + (e1 - e0) * rng.random(), math.nextafter(e0, 0), math.nextafter(e1, 99)])
    if u < 0.95:
        return rng.choice([tab.emin * rng.uniform(0.1, 0.999999), tab.emax * rng.uniform(1.000001, 10)])
    return rng.choice([0.01, 30.0])


def gen_compound(rng, dt=False):
    atoms = gen_atoms(rng, dt=dt)
    alias = rng.random() < 0.5
    case = {'atoms': atoms, 'form': rng.choice(['dict', 'dict', 'string']),
            'density': 10 ** rng.uniform(-3, 1.5), 'energy': gen_energy(rng, atoms),
            'k': 10 ** rng.uniform(-2, 2),
            'more': [10 ** rng.uniform(math.log10(0.03), math.log10(30)) for _ in range(rng.randint(1, 4))],
            'vecform': rng.choice(['list', 'tuple', 'array', 'array1', 'npfloat'])}
    if case['form'] == 'string':
        case['text'] = ''.join(_render(tuple(a[:3]), alias) + _count_text(a[3]) for a in atoms)
    return case


def gen_mirror(rng):
    atoms = gen_atoms(rng, nmax=3)
    ne = rng.randint(1, 5)
    energies = [gen_energy(rng, atoms) if rng.random() < 0.3 else 10 ** rng.uniform(math.log10(0.03), math.log10(30))
                for _ in range(ne)]
    angles = [0.0, 90.0] + [10 ** rng.uniform(-3, math.log10(90)) for _ in range(rng.randint(1, 8))]
    rng.shuffle(angles)
    return {'atoms': atoms, 'density': 10 ** rng.uniform(-2, 1.4), 'energies': energies, 'angles': angles,
            'roughness': rng.choice([0, 0, 1, 3, 10, 10 * rng.random()]), 'by': rng.choice(['energy', 'wavelength'])}


def _density_value(rng):
    """A density that a formula string can carry after '@' (fixed notation, no exponent)."""
    return float('%.4g' % 10 ** rng.uniform(-2, 1.4))


def gen_route(rng, single=False):
    """One compound (about a third are one-atom formulas, which have a default density), an energy, and three
    different densities: the one the Formula object is built with, one for density= and one for natural_density=.
    Isotopes and isotope ions are frequent so that the natural mass ratio matters."""
    pt = _state['pt']
    atoms = gen_atoms(rng, nmax=1 if single else 4, repeat=False if single else None)
    for a in atoms:
        el = pt.elements[a[0]]
        if not a[1] and el.isotopes and rng.random() < 0.4:
            a[1] = rng.choice(el.isotopes)
            if a[0] == 1 and a[1] in (2, 3):     # ions of D and T are finding D28's subject: not here
                a[2] = 0
    if single and rng.random() < 0.5:
        atoms[0][3] = 1
    own = _density_value(rng)
    rho = own
    while abs(rho - own) < 0.05 * own:
        rho = 10 ** rng.uniform(-3, 1.5)
    rhon = own
    while abs(rhon - own) < 0.05 * own or abs(rhon - rho) < 0.05 * rho:
        rhon = 10 ** rng.uniform(-3, 1.5)
    energy = gen_energy(rng, atoms) if rng.random() < 0.15 else 10 ** rng.uniform(math.log10(0.03), math.log10(30))
    return {'atoms': atoms, 'own': own, 'density': rho, 'natural_density': rhon, 'energy': energy,
            'alias': rng.random() < 0.5,
            'angles': [10 ** rng.uniform(-2, math.log10(90)) for _ in range(rng.randint(1, 4))],
            'roughness': rng.choice([0, 0, 2, 5 * rng.random()])}


# --------------------------------------------------------------------------
# helpers
# --------------------------------------------------------------------------
MAX_VIOLATIONS_PER_CASE = 3


class _Budget(object):
    """At most MAX_VIOLATIONS_PER_CASE reports per case (a broken table row would otherwise flood)."""

    def __init__(self, ctx):
        self.ctx, self.n = ctx, 0

    def violation(self, msg, **detail):
        self.n += 1
        if self.n <= MAX_VIOLATIONS_PER_CASE:
            self.ctx.violation(msg, **detail)

    @property
    def spent(self):
        return self.n >= MAX_VIOLATIONS_PER_CASE


def _isnan(x):
    try:
        return x != x
    except Exception:
        return False


def _same_bits(a, b):
    """Two results of the same call are equal element by element (NaN equals NaN)."""
    import numpy as np
    a, b = np.asarray(a), np.asarray(b)
    return a.shape == b.shape and bool(np.array_equal(a, b, equal_nan=True))


def _repeat_call(ctx, bud, text, first, again, **detail):
    """The same call with the same argument object, later in the case: same answer."""
    ctx.evaluated(1, 'repeat_same_object')
    firsts = first if isinstance(first, tuple) else (first,)
    agains = again if isinstance(again, tuple) else (again,)
    if len(firsts) != len(agains) or not all(_same_bits(a, b) for a, b in zip(firsts, agains)):
        bud.violation('%s: the same call with the same argument object gave %.300r the first time and %.300r '
                      'later in the case' % (text, first, again), kind='repeat', **detail)
        return False
    return True


def _refilled_call(ctx, bud, text, arr, first, call, **detail):
    """The caller's buffer refilled: the array object of an earlier call gets new contents (here the same
    values in reverse order) and is passed again; every function judged here works point by point, so the
    answer is the earlier one reversed.  The buffer is restored afterwards."""
    firsts = first if isinstance(first, tuple) else (first,)
    keep = arr.copy()
    arr[:] = keep[::-1]
    try:
        again = call(arr)
    finally:
        arr[:] = keep
    agains = again if isinstance(again, tuple) else (again,)
    ctx.evaluated(1, 'refilled_same_object')
    if len(firsts) != len(agains) or not all(_same_bits(a[::-1], b) for a, b in zip(firsts, agains)):
        bud.violation('%s: the array object of an earlier call, refilled in place with the same values in reverse '
                      'order, gave %.300r; the earlier result reversed is %.300r'
                      % (text, again, tuple(a[::-1] for a in firsts)), kind='refilled-buffer', **detail)


def _scribbled_call(ctx, bud, text, first, call, **detail):
    """The arrays an earlier call returned belong to the caller: scaled and shifted in place, they must not change what
    the same call (same argument object) answers afterwards."""
    import numpy as np
    first = call()          # a fresh answer: its arrays are the ones edited below
    firsts = first if isinstance(first, tuple) else (first,)
    keep = []
    touched = 0
    for a in firsts:
        if isinstance(a, np.ndarray) and a.ndim >= 1 and a.flags.writeable and a.dtype.kind == 'f':
            keep.append(a.copy())
            a *= 0.5
            a += 1.0
            touched += 1
        else:
            keep.append(a)
    if not touched:
        ctx.count('scribble.nothing_writable')
        return
    again = call()
    agains = again if isinstance(again, tuple) else (again,)
    ctx.evaluated(1, 'returned_arrays_edited')
    ctx.count('scribble.returned_arrays')
    if len(keep) != len(agains) or not all(_same_bits(a, b) for a, b in zip(keep, agains)):
        bud.violation('%s: after the caller edited the arrays it had been given (x*0.5 + 1, in place), the same call gave '
                      '%.300r; before the edit it gave %.300r' % (text, again, tuple(keep)), kind='returned-array-live',
                      **detail)


def _atom(key):
    from .. import atoms
    return atoms.lookup(_state['pt'].elements, tuple(key))


def _is_dt_ion(key):
    return key[0] == 1 and key[1] in (2, 3) and key[2] != 0


def _point(ctx, bud, Z, e, g1, g2, how, ulps=8, atom=None):
    """Compare one (f1, f2) pair returned for energy e with the reference interpolation."""
    tab = _state['xr'].table(Z)
    r = tab.interp(e, ulps=ulps)
    who = atom or _state['xr'].symbols[Z]
    if not r.inside:
        ctx.evaluated(1, 'outside_nan')
        if not (_isnan(g1) and _isnan(g2)):
            bud.violation('%s %s: energy %r keV is outside the tabulated range [%r, %r] but f1, f2 = %r, %r (not NaN)'
                          % (who, how, e, tab.emin, tab.emax, g1, g2), kind='not-nan-outside', Z=Z, energy=e)
        return
    if r.excluded:
        ctx.count('excluded.nonmonotone_window')
        return
    ctx.evaluated(1, 'f2')
    ctx.distinct_case(('seg', Z, r.segment))
    if _isnan(g2) or not abs(g2 - r.f2) <= r.tol2:
        bud.violation('%s %s: f2(%r keV) = %r, linear interpolation of rows %d,%d gives %r'
                      % (who, how, e, g2, r.segment, r.segment + 1, r.f2), kind='f2', Z=Z, energy=e,
                      got=g2, want=r.f2)
    else:
        ctx.observe('f2.err_over_bracket_scale', 1e-10 * abs(g2 - r.f2) / r.tol2)
    if r.f1_defined:
        ctx.evaluated(1, 'f1')
        if _isnan(g1) or not abs(g1 - r.f1) <= r.tol1:
            bud.violation('%s %s: f1(%r keV) = %r, linear interpolation of rows %d,%d gives %r'
                          % (who, how, e, g1, r.segment, r.segment + 1, r.f1), kind='f1', Z=Z, energy=e,
                          got=g1, want=r.f1)
        else:
            ctx.observe('f1.err_over_bracket_scale', 1e-10 * abs(g1 - r.f1) / r.tol1 if r.tol1 else 0.0)
    else:
        # a row of the pair (or the row itself) has no f1: '-9999' in the file is "not available", not a number to
        # interpolate with - clear of the nodes (where an ulp of unit conversion decides the segment) the answer is
        # "unknown" (NaN), never a value made from the marker
        j = r.segment
        clear = all(abs(e - tab.E[k]) > 16 * math.ulp(tab.E[k]) for k in (j, j + 1))
        at_missing_node = any(e == tab.E[k] and tab.f1[k] is None and
                              (k == 0 or tab.f1[k - 1] is None) and (k == tab.n - 1 or tab.f1[k + 1] is None)
                              for k in (j, j + 1))
        if clear or at_missing_node:
            ctx.evaluated(1, 'f1_missing_is_nan')
            if not _isnan(g1):
                bud.violation('%s %s: f1(%r keV) = %r although a row next to that energy (rows %d,%d: f1 %r, %r) has no '
                              'f1 (-9999 in the table file)' % (who, how, e, g1, j, j + 1, tab.f1[j], tab.f1[j + 1]),
                              kind='f1-missing-not-nan', Z=Z, energy=e, got=g1)
        else:
            ctx.count('f1.unconstrained_next_to_missing')


def _sweep(ctx, bud, Z, atom, energies, how, scalar=True, wavelength=False, buf=None):
    """Vector call, (optionally) one scalar call per energy, (optionally) the wavelength= route; the vector
    calls are made again at the end with the very same array objects.  buf: an ndarray of the right length
    that the caller hands to several sweeps (a user's preallocated energy buffer, refilled per atom)."""
    import numpy as np
    xr = _state['xr']
    name = str(atom)
    if buf is not None and buf.shape == (len(energies),):
        buf[:] = energies
        arr = buf
        ctx.count('reuse.energy_buffer_across_atoms')
    else:
        arr = np.array(energies, dtype=float)
    out = atom.xray.scattering_factors(energy=arr)
    if out[0] is None:
        return 'none'
    v1, v2 = out
    if np.shape(v1) != arr.shape or np.shape(v2) != arr.shape:
        bud.violation('%s %s: vector call of %d energies returned shapes %r, %r'
                      % (name, how, len(energies), np.shape(v1), np.shape(v2)), kind='shape')
        return 'shape'
    for e, a, b in zip(energies, v1.tolist(), v2.tolist()):
        _point(ctx, bud, Z, e, a, b, how + ' (vector call)', atom=name)
        if bud.spent:
            return 'spent'
    if scalar:
        for i, e in enumerate(energies):
            s1, s2 = atom.xray.scattering_factors(energy=e)
            if np.ndim(s1) != 0 or np.ndim(s2) != 0:
                bud.violation('%s %s: scalar energy %r returned non-scalars %r, %r' % (name, how, e, s1, s2),
                              kind='shape')
                return 'shape'
            _point(ctx, bud, Z, e, float(s1), float(s2), how + ' (scalar call)', atom=name)
            # scalar and vector calls agree (numpy.interp on a non-monotone abscissa is undefined and does
            # differ between one point and many: not judged inside an excluded window)
            if xr.table(Z).excluded(e):
                continue
            ctx.evaluated(1, 'scalar_vs_vector')
            for sv, vv, f in ((float(s1), float(v1[i]), 'f1'), (float(s2), float(v2[i]), 'f2')):
                if not ((sv != sv and vv != vv) or abs(sv - vv) <= 1e-12 * max(abs(sv), abs(vv))):
                    bud.violation('%s %s: %s(%r keV) is %r in a scalar call and %r in a vector call'
                                  % (name, how, f, e, sv, vv), kind='scalar-vs-vector', Z=Z, energy=e)
            if bud.spent:
                return 'spent'
    if wavelength:
        tab = xr.table(Z)
        es = [e for e in energies if e == e and 0 < e < math.inf and
              abs(e - tab.emin) > 1e-9 * tab.emin and abs(e - tab.emax) > 1e-9 * tab.emax]
        if es:
            wl = [xr.wavelength(e) for e in es]
            wlarr = np.array(wl)
            w1, w2 = atom.xray.scattering_factors(wavelength=wlarr)
            for e, a, b in zip(es, np.asarray(w1).tolist(), np.asarray(w2).tolist()):
                _point(ctx, bud, Z, e, a, b, how + ' (wavelength= %r A)' % xr.wavelength(e), ulps=64, atom=name)
                if bud.spent:
                    return 'spent'
            s1, s2 = atom.xray.scattering_factors(wavelength=wl[0])
            _point(ctx, bud, Z, es[0], float(s1), float(s2), how + ' (scalar wavelength=)', ulps=64, atom=name)
            _repeat_call(ctx, bud, '%s.xray.scattering_factors(wavelength=<array of %d>) %s' % (name, len(wl), how),
                         (w1, w2), atom.xray.scattering_factors(wavelength=wlarr), Z=Z)
    text = '%s.xray.scattering_factors(energy=<array of %d>) %s' % (name, len(energies), how)
    if _repeat_call(ctx, bud, text, (v1, v2), atom.xray.scattering_factors(energy=arr), Z=Z) and \
            not any(xr.table(Z).excluded(e) for e in energies):
        # (numpy.interp inside a non-monotone window depends on the neighbouring points: not judged)
        _refilled_call(ctx, bud, text, arr, (v1, v2), _EnergyCall(atom), Z=Z)
        _scribbled_call(ctx, bud, text, (v1, v2), lambda: atom.xray.scattering_factors(energy=arr), Z=Z)
    return 'ok'


class _EnergyCall(object):
    def __init__(self, atom):
        self.atom = atom

    def __call__(self, arr):
        return self.atom.xray.scattering_factors(energy=arr)


def _energies(tab, mode, sample, seed):
    """The deterministic list of energies of a factor case."""
    rng = random.Random(seed)
    E = tab.E
    if mode == 'nodes':
        return list(E)
    if mode == 'midpoints':
        js = list(range(tab.n - 1))
        if sample is not None and sample < len(js):
            js = sorted(rng.sample(js, sample))
        return [(E[j] + E[j + 1]) / 2 for j in js]
    if mode == 'random':
        lo, hi = math.log10(tab.emin), math.log10(tab.emax)
        return [10 ** rng.uniform(lo, hi) for _ in range(sample)] + \
               [E[j] + (E[j + 1] - E[j]) * rng.random() for j in (rng.randrange(tab.n - 1) for _ in range(sample))]
    if mode == 'edges':
        js = tab.edges()
        if sample is not None and sample < len(js):
            js = sorted(rng.sample(js, sample))
        out = []
        for j in js:
            e0, e1 = E[j], E[j + 1]
            d = e1 - e0
            out += [e0, e1, math.nextafter(e0, 0), math.nextafter(e0, 99), math.nextafter(e1, 0),
                    math.nextafter(e1, 99), e0 + d * 1e-9, e0 + d * 0.25, e0 + d * 0.5, e0 + d * (1 - 1e-9)]
            if j > 0:
                out.append((E[j - 1] + e0) / 2)
            if j < tab.n - 2:
                out.append((e1 + E[j + 2]) / 2)
        return [e for e in out if e > 0]
    if mode == 'outside':
        out = [tab.emin, tab.emax, tab.emin * (1 - 1e-9), tab.emax * (1 + 1e-9), tab.emin / 2, tab.emax * 2,
               tab.emin * 1e-3, 0.0, 1e3, 1e9, -1.0, -tab.emax, float('nan'), float('inf'), float('-inf'),
               math.nextafter(tab.emin, 99), math.nextafter(tab.emax, 0)]
        if tab.sharp_ends:
            out += [math.nextafter(tab.emin, 0), math.nextafter(tab.emax, 99)]
        for lo, hi in tab.windows:     # counted as excluded, never judged
            out += [lo, hi, (lo + hi) / 2]
        return out
    raise ValueError('unknown mode %r' % mode)


# --------------------------------------------------------------------------
# checks: interpolation
# --------------------------------------------------------------------------
def check_factors(ctx, case):
    xr, pt = _state['xr'], _state['pt']
    Z, mode = case['Z'], case['mode']
    tab = xr.table(Z)
    el = pt.elements[Z]
    bud = _Budget(ctx)
    energies = _energies(tab, mode, case.get('sample'), case.get('seed', 0))
    status = _sweep(ctx, bud, Z, el, energies, mode, scalar=True, wavelength=(mode in ('random', 'midpoints')))
    if status == 'none':
        ctx.violation('%s has a table file %s but scattering_factors returns (None, None)'
                      % (el, xr.symbols[Z].lower() + '.nff'), kind='no-table')
        return
    if mode == 'nodes':
        ctx.count('tables.swept')
        ctx.count('table.rows', tab.n)
        ctx.count('table.rows_missing_f1', tab.n_missing_f1)
        # the library's own table attribute holds the rows of the file (keV, NaN for missing)
        t = el.xray.sftable
        ctx.evaluated(1, 'sftable_shape')
        if t is None or t.shape != (3, tab.n):
            ctx.violation('%s.xray.sftable has shape %r, the file has %d rows'
                          % (el, None if t is None else t.shape, tab.n), kind='sftable')
            return
        # a tabulated f1 next to a missing one: asked for at the library's own node abscissa (sftable[0][k], so that
        # no unit conversion moves the energy off the node) the answer is the tabulated value, not "unknown" -
        # the quantifier includes the table nodes, and the row does carry a value
        import numpy as np
        for k in range(tab.n):
            if tab.f1[k] is None or not ((k > 0 and tab.f1[k - 1] is None) or (k < tab.n - 1 and tab.f1[k + 1] is None)):
                continue
            e = float(t[0][k])
            if not abs(e - tab.E[k]) <= 2 * math.ulp(tab.E[k]) or tab.excluded(e):
                ctx.count('f1.node_next_to_missing.not_judged')
                continue
            s1, _s2 = el.xray.scattering_factors(energy=e)
            v1, _v2 = el.xray.scattering_factors(energy=np.array([e, e]))
            ctx.evaluated(2, 'f1_node_next_to_missing')
            for how, g in (('scalar call', float(s1)), ('vector call', float(np.asarray(v1)[0]))):
                if _isnan(g) or not abs(g - tab.f1[k]) <= 1e-10 * abs(tab.f1[k]) + 1e-300:
                    bud.violation('%s nodes (%s): f1 at the table node %r keV (row %d, the first/last row with a tabulated '
                                  'f1) is %r, the row says %r' % (el, how, e, k, g, tab.f1[k]),
                                  kind='f1-node', Z=Z, energy=e, got=g, want=tab.f1[k])
                    break


def check_ions(ctx, case):
    """An ion's (and an isotope's) factors are those of its element's table."""
    xr = _state['xr']
    Z = case['Z']
    tab = xr.table(Z)
    rng = random.Random(case['seed'])
    bud = _Budget(ctx)
    buf = None
    for key in case['atoms']:
        key = tuple(key)
        n = case['sample']
        es = [rng.choice(tab.E) for _ in range(n // 3)] + \
             [10 ** rng.uniform(math.log10(tab.emin), math.log10(tab.emax)) for _ in range(n - n // 3)] + \
             [tab.emin, tab.emax, tab.emin * 0.99, tab.emax * 1.01]
        edges = tab.edges()
        for j in rng.sample(edges, min(3, len(edges))):    # absorption-edge neighbours
            es += [tab.E[j], (tab.E[j] + tab.E[j + 1]) / 2, tab.E[j + 1], math.nextafter(tab.E[j + 1], 99)]
        atom = _atom(key)
        if buf is None:
            import numpy as np
            buf = np.empty(len(es))
        status = _sweep(ctx, bud, Z, atom, es, 'ion/isotope', scalar=(key[2] != 0 and rng.random() < 0.3),
                        wavelength=rng.random() < 0.3, buf=buf)
        ctx.evaluated(1, 'ion_has_table')
        ctx.distinct_case(('ion', key))
        if status == 'none':
            detail = dict(kind='ion-no-table', symptom='no-xray-data', atom=list(key), dt_ion=_is_dt_ion(key))
            if _is_dt_ion(key):
                sib = _atom((1, 0, key[2]))
                s = sib.xray.scattering_factors(energy=8.0)
                detail['sibling'] = str(sib)
                detail['sibling_ok'] = bool(s[0] is not None and abs(float(s[1]) - tab.interp(8.0).f2)
                                            <= tab.interp(8.0).tol2)
            ctx.violation('%s.xray.scattering_factors returns (None, None) although its element %s has a table'
                          % (atom, xr.symbols[Z]), **detail)
        if bud.spent:
            return


def check_element_sld(ctx, case):
    """Xray.sld of a bare element: r_e N_A rho/M (f1, f2) with the tabulated density and atomic weight."""
    import numpy as np
    xr, pt = _state['xr'], _state['pt']
    Z = case['Z']
    tab = xr.table(Z)
    el = pt.elements[Z]
    rng = random.Random(case['seed'])
    rho_el = xr.masses.density.get(xr.symbols[Z])
    es = [10 ** rng.uniform(math.log10(0.03), math.log10(30)) for _ in range(case['sample'])] + \
         [rng.choice(tab.E) for _ in range(3)] + [tab.emin * 0.5, tab.emax * 1.5, tab.emin, tab.emax]
    targets = [el] + [el[A] for A in rng.sample(list(el.isotopes), min(2, len(el.isotopes)))]
    bud = _Budget(ctx)
    earr = np.array(es)      # one energy grid for the element and its isotopes, as a survey would use
    first = None
    for atom in targets:
        vec = atom.xray.sld(energy=earr)
        if first is None:
            first = vec
        for i, e in enumerate(es):
            got = atom.xray.sld(energy=e) if i % 2 == 0 else atom.xray.sld(wavelength=xr.wavelength(e))
            if rho_el is None:
                ctx.evaluated(1, 'element_sld.unknown_density')
                if got != (None, None):
                    bud.violation('%s has no tabulated density but xray.sld returns %r' % (atom, got), kind='element-sld')
                continue
            ref = xr.sld({(Z, 0, 0): 1}, rho_el, e, ulps=8 if i % 2 == 0 else 64)
            if i % 2 == 1 and (abs(e - tab.emin) <= 1e-9 * tab.emin or abs(e - tab.emax) <= 1e-9 * tab.emax):
                continue
            _cmp_sld(ctx, bud, got, ref, '%s.xray.sld(%s) at %r keV' % (atom, 'energy=' if i % 2 == 0 else 'wavelength=', e),
                     what='element_sld')
            if vec[0] is not None and i % 2 == 0:
                _cmp_sld(ctx, bud, (float(vec[0][i]), float(vec[1][i])), ref,
                         '%s.xray.sld(vector)[%d] at %r keV' % (atom, i, e), what='element_sld')
            if bud.spent:
                return
    if first[0] is not None:
        _repeat_call(ctx, bud, '%s.xray.sld(energy=<array of %d>)' % (el, len(es)), first, el.xray.sld(energy=earr), Z=Z)
    ctx.distinct_case(('element_sld', Z))


def _cmp_sld(ctx, bud, got, ref, text, what='sld', extra=1.0, **detail):
    """(rho, irho) returned by the library against an SldRef.  Returns True when judged and equal."""
    if got is None or got[0] is None:
        bud.violation('%s returned %r' % (text, got), kind=what + '.none', **detail)
        return False
    g1, g2 = float(got[0]), float(got[1])
    if not ref.inside:
        ctx.evaluated(1, what + '.outside_nan')
        if not (_isnan(g1) and _isnan(g2)):
            bud.violation('%s = (%r, %r): the energy is outside a constituent\'s tabulated range, expected NaN'
                          % (text, g1, g2), kind=what + '.not-nan-outside', **detail)
            return False
        return True
    if ref.excluded:
        ctx.count('excluded.nonmonotone_window')
        return True
    ok = True
    ctx.evaluated(1, what)
    tol2 = extra * ref.tol_irho + 1e-12 * abs(ref.irho)
    if _isnan(g2) or not abs(g2 - ref.irho) <= tol2:
        bud.violation('%s: imaginary SLD %r, r_e N_A rho/M sum(n f2) = %r' % (text, g2, ref.irho),
                      kind=what + '.irho', got=g2, want=ref.irho, **detail)
        ok = False
    else:
        ctx.observe(what + '.irho.relerr', abs(g2 - ref.irho) / max(abs(ref.irho), 1e-300))
    if ref.rho_defined:
        ctx.evaluated(1, what)
        tol1 = extra * ref.tol_rho + 1e-12 * abs(ref.rho)
        if _isnan(g1) or not abs(g1 - ref.rho) <= tol1:
            bud.violation('%s: real SLD %r, r_e N_A rho/M sum(n f1) = %r' % (text, g1, ref.rho),
                          kind=what + '.rho', got=g1, want=ref.rho, **detail)
            ok = False
        else:
            ctx.observe(what + '.rho.err_over_scale', abs(g1 - ref.rho) / max(ref.tol_rho / 1e-10, 1e-300)
                        if ref.tol_rho else 0.0)
    else:
        ctx.count('rho.unconstrained_next_to_missing_f1')
    return ok


# --------------------------------------------------------------------------
# checks: compounds, refraction, reflectivity
# --------------------------------------------------------------------------
def _comp_keys(atoms_):
    comp = {}
    for Z, A, q, n in atoms_:
        comp[(Z, A, q)] = comp.get((Z, A, q), 0) + n
    return comp


def _build(comp):
    """Library-side {atom: count} of a key composition."""
    return {_atom(k): n for k, n in comp.items()}


def _try(fn, *args, **kw):
    """(value, None) or (None, exception) for a call into the library."""
    try:
        return fn(*args, **kw), None
    except Exception as exc:  # the caller decides whether an exception is allowed
        return None, exc


def _vector(form, values):
    import numpy as np
    if form == 'list':
        return list(values)
    if form == 'tuple':
        return tuple(values)
    return np.array(values, dtype=float)


def _bin(e):
    return round(math.log10(e), 2) if e == e and 0 < e < math.inf else repr(e)


def _pair_close(a, b, tol_abs, rel=1e-12):
    if _isnan(a) or _isnan(b):
        return _isnan(a) and _isnan(b)
    return abs(a - b) <= tol_abs + rel * max(abs(a), abs(b))


def _dt_failure(ctx, case, comp, exc, what):
    """The library refused a compound that contains an ion of D or T: run the sibling with H ions."""
    xr, xsf = _state['xr'], _state['xsf']
    sib = {}
    for (Z, A, q), n in comp.items():
        k = (1, 0, q) if _is_dt_ion((Z, A, q)) else (Z, A, q)
        sib[k] = sib.get(k, 0) + n
    got, exc2 = _try(xsf.xray_sld, _build(sib), density=case['density'], energy=case['energy'])
    ok = False
    if exc2 is None:
        ref = xr.sld(sib, case['density'], case['energy'])
        quiet = _Budget(ctx)
        quiet.violation = lambda *a, **k: setattr(quiet, 'n', quiet.n + 1)   # harness-local: count, do not report
        ok = _cmp_sld(ctx, quiet, got, ref, 'sibling') and quiet.n == 0
    m = re.search(r'not available for (\S+)$', str(exc))
    ctx.violation('%s raises %s: %s for a compound with an ion of D/T (the same compound with H ions %s)'
                  % (what, type(exc).__name__, exc, 'is computed correctly' if ok else 'fails too'),
                  dt_ion=True, symptom='no-xray-data', exc_type=type(exc).__name__,
                  unavailable_atom=m.group(1) if m else None, sibling_ok=ok,
                  sibling=[list(k) + [n] for k, n in sib.items()])


def check_compound(ctx, case):
    import numpy as np
    xr, xsf = _state['xr'], _state['xsf']
    comp = _comp_keys(case['atoms'])
    rho, E = case['density'], case['energy']
    has_dt = any(_is_dt_ion(k) for k in comp)
    obj = case['text'] if case['form'] == 'string' else _build(comp)
    bud = _Budget(ctx)
    name = case.get('text') or '+'.join('%s*%g' % (_render(k, True), n) for k, n in comp.items())
    ref = xr.sld(comp, rho, E)
    forms = {}
    for k in comp:
        forms.setdefault(k[0], []).append(k)
    if any(len(v) > 1 for v in forms.values()):
        ctx.count('compound.repeated_element')
        if any(len({k[2] for k in v}) > 1 for v in forms.values()):
            ctx.count('compound.repeated_element.charge_states')
        if any(len({k[1] for k in v}) > 1 for v in forms.values()):
            ctx.count('compound.repeated_element.isotopes')
    if len(case['atoms']) > len(comp):
        ctx.count('compound.same_atom_twice')

    got0, exc = _try(xsf.xray_sld, obj, density=rho, energy=E)
    if exc is not None:
        if has_dt:
            return _dt_failure(ctx, case, comp, exc, 'xray_sld(%s, density=%r, energy=%r)' % (name, rho, E))
        raise exc
    if has_dt:
        ctx.count('dt_ion_compounds_computed')
    ctx.distinct_case(('compound', tuple(sorted(comp)), _bin(E)))
    ctx.count('compound.form.' + case['form'])
    ctx.count('compound.energy.' + ('outside' if not ref.inside else 'excluded' if ref.excluded else
                                    'rho_unconstrained' if not ref.rho_defined else 'judged'))
    _cmp_sld(ctx, bud, got0, ref, 'xray_sld(%s, density=%r, energy=%r)' % (name, rho, E))
    if np.ndim(got0[0]) != 0:
        bud.violation('xray_sld(%s) with a scalar energy returned a non-scalar %r' % (name, got0[0]), kind='shape')
    g0 = (float(got0[0]), float(got0[1]))
    # an atom with count zero, listed BEFORE the others, is not there (the sums are weighted by the counts)
    if case.get('zero_count', (len(comp) + int(1000 * rho)) % 5 == 0):
        present = set(k[0] for k in comp)
        zk = next(((z, 0, 0) for z in (6, 1, 13, 47, 5, 20) if z not in present), None)
        if zk is not None:
            rz = xr.table(zk[0]).interp(E)
            if not (rz.inside and rz.f1_defined and not rz.excluded):
                zk = None       # 0 x "unknown" may stay unknown: only atoms with tabulated factors at E are added
        if zk is not None:
            pt = _state['pt']
            f = pt.formula(obj)
            za = _atom(zk)
            for how, zobj in (('(0, %s) first in a nested structure' % za, [(0, za)] + list(f.structure)),
                              ('{%s: 0.0, ...}' % za, dict([(za, 0.0)] + list(f.atoms.items())))):
                gz, excz = _try(xsf.xray_sld, zobj, density=rho, energy=E)
                ctx.evaluated(1, 'zero_count')
                ctx.count('zero_count.calls')
                if excz is not None or not (_pair_close(float(gz[0]), g0[0], 0.0, 1e-12) and _pair_close(float(gz[1]), g0[1], 0.0, 1e-12)):
                    bud.violation('xray_sld(%s with %s, density=%r, energy=%r) = %r, without the zero-count atom %r'
                                  % (name, how, rho, E, gz if excz is None else '%s: %s' % (type(excz).__name__, excz), g0),
                                  kind='zero-count')
                    break
    # the package-level entry point is the same function
    top = _state['pt'].xray_sld(obj, density=rho, energy=E)
    ctx.evaluated(1, 'toplevel_alias')
    if not (_pair_close(float(top[0]), g0[0], 0.0, 0.0) and _pair_close(float(top[1]), g0[1], 0.0, 0.0)):
        bud.violation('periodictable.xray_sld and xsf.xray_sld differ for %s: %r vs %r' % (name, top, g0), kind='alias')
    judged = ref.inside and not ref.excluded
    boundary = any(abs(E - b) <= 1e-9 * b for k in comp for b in (xr.table(k[0]).emin, xr.table(k[0]).emax))

    # energy= and the equivalent wavelength=
    if E > 0 and E < math.inf and not boundary:
        wl = xr.wavelength(E)
        lw = float(xsf.xray_wavelength(E))
        ctx.evaluated(1, 'conversion')
        if not abs(lw - wl) <= 1e-14 * wl or not abs(float(xsf.xray_energy(wl)) - E) <= 4e-16 * E + 1e-14 * E:
            bud.violation('xray_wavelength(%r) = %r, h c / E = %r; xray_energy back gives %r'
                          % (E, lw, wl, float(xsf.xray_energy(wl))), kind='conversion')
        gw = xsf.xray_sld(obj, density=rho, wavelength=wl)
        _cmp_sld(ctx, bud, gw, xr.sld(comp, rho, E, ulps=64),
                 'xray_sld(%s, density=%r, wavelength=%r) [= %r keV]' % (name, rho, wl, E), what='sld_wavelength')

    # scalar and vector calls
    es = [E] + list(case['more'])
    form = case['vecform']
    if form == 'array1':
        arg, es = np.array([E]), [E]
    elif form == 'npfloat':
        arg, es = np.float64(E), [E]
    else:
        arg = _vector(form, es)
    vector_text = 'xray_sld(%s, density=%r, energy=<%s %r>)' % (name, rho, form, es)
    gv = xsf.xray_sld(obj, density=rho, energy=arg)
    ctx.count('compound.vecform.' + form)
    if form == 'npfloat':
        gv = (np.array([gv[0]]), np.array([gv[1]]))
    if np.shape(gv[0]) != (len(es),) or np.shape(gv[1]) != (len(es),):
        bud.violation('xray_sld(%s, energy=<%s of %d>) returned shapes %r, %r'
                      % (name, form, len(es), np.shape(gv[0]), np.shape(gv[1])), kind='shape')
    else:
        for i, e in enumerate(es):
            gi = (float(gv[0][i]), float(gv[1][i]))
            ri = xr.sld(comp, rho, e)
            _cmp_sld(ctx, bud, gi, ri, 'xray_sld(%s, density=%r, energy=<%s>)[%d] at %r keV' % (name, rho, form, i, e),
                     what='sld_vector')
            si = xsf.xray_sld(obj, density=rho, energy=e)
            ctx.evaluated(1, 'scalar_vs_vector')
            if ri.inside and not ri.excluded and not (
                    _pair_close(gi[1], float(si[1]), 0.0) and
                    (not ri.rho_defined or _pair_close(gi[0], float(si[0]), 1e-12 * ri.tol_rho / 1e-10))):
                bud.violation('xray_sld(%s) at %r keV: scalar call %r, component %d of the vector call %r'
                              % (name, e, si, i, gi), kind='scalar-vs-vector')

    # linear in density
    if judged:
        k = case['k']
        gk = xsf.xray_sld(obj, density=rho * k, energy=E)
        ctx.evaluated(1, 'density_linear')
        if not (_pair_close(float(gk[1]), k * g0[1], 0.0) and
                (not ref.rho_defined or _pair_close(float(gk[0]), k * g0[0], 0.0))):
            bud.violation('xray_sld(%s, energy=%r) is not linear in density: %r at %r, %r at %r (ratio %r)'
                          % (name, E, g0, rho, gk, rho * k, k), kind='density-linear')

    # isotope independence at equal natural density, with the reference's own mass ratio
    if judged and any(k[1] for k in comp):
        nat = {}
        for (Z, A, q), n in comp.items():
            nat[(Z, 0, q)] = nat.get((Z, 0, q), 0) + n
        m_iso, m_nat = xr.formula_mass(comp), xr.formula_mass(nat)
        gn = xsf.xray_sld(_build(nat), density=rho * m_nat / m_iso, energy=E)
        ctx.evaluated(1, 'isotope_independence')
        ctx.distinct_case(('isotopic', tuple(sorted(comp))))
        if not (_pair_close(float(gn[1]), g0[1], 2 * ref.tol_irho) and
                (not ref.rho_defined or _pair_close(float(gn[0]), g0[0], 2 * ref.tol_rho))):
            bud.violation('isotope independence: xray_sld(%s, density=%r) = %r but the natural-abundance compound at '
                          'density %r (same number density) gives %r' % (name, rho, g0, rho * m_nat / m_iso, gn),
                          kind='isotope-independence')
        # the user's route; with ions its mass ratio is C12's subject (finding D10): observed, not judged
        gu, exc = _try(xsf.xray_sld, obj, natural_density=rho * m_nat / m_iso, energy=E)
        charged = any(k[2] for k in comp)
        if exc is None and gu[0] is not None:
            same = _pair_close(float(gu[1]), g0[1], 2 * ref.tol_irho, rel=1e-10)
            if charged:
                ctx.count('observed.natural_density_route_with_ions.' + ('agrees' if same else 'differs'))
            else:
                ctx.evaluated(1, 'isotope_independence.natural_density_route')
                if not same:
                    bud.violation('xray_sld(%s, natural_density=%r) = %r differs from density=%r -> %r'
                                  % (name, rho * m_nat / m_iso, gu, rho, g0), kind='natural-density-route')
        elif not charged:
            raise exc

    # index of refraction n = 1 - lambda^2/(2 pi) (rho + i irho) 1e-6
    if judged and not boundary:
        wl = xr.wavelength(E)
        for route, kw in (('energy', {'energy': E}), ('wavelength', {'wavelength': wl})):
            nv = xsf.index_of_refraction(obj, density=rho, **kw)
            r = xr.sld(comp, rho, E, ulps=64)
            if not r.inside or r.excluded:
                continue
            if not r.rho_defined:   # rho is NaN next to a missing f1 and complex arithmetic spreads it to both parts
                ctx.count('refraction.unconstrained_next_to_missing_f1')
                continue
            delta, beta = xr.refraction(r.rho, r.irho, wl)
            f = wl ** 2 / (2 * math.pi) * 1e-6
            ctx.evaluated(1, 'refraction')
            nv = complex(nv)
            okb = abs(-nv.imag - beta) <= f * r.tol_irho + 1e-12 * abs(beta) + 2e-16
            okd = True
            if r.rho_defined:
                ctx.evaluated(1, 'refraction')
                okd = abs((1 - nv.real) - delta) <= f * r.tol_rho + 1e-12 * abs(delta) + 4e-16 * max(1.0, abs(delta))
                ctx.observe('refraction.delta.abserr', abs((1 - nv.real) - delta))
            if not (okb and okd):
                bud.violation('index_of_refraction(%s, density=%r, %s=%r) = %r, 1 - lambda^2/(2 pi)(rho + i irho)1e-6 = %r'
                              % (name, rho, route, kw[route], nv, complex(1 - delta, -beta)), kind='refraction')
    elif judged and boundary and all(xr.table(k[0]).sharp_ends for k in comp) and \
            any(E == b for k in comp for b in (xr.table(k[0]).emin, xr.table(k[0]).emax)):
        # exactly the first / last node of a constituent's table, given as energy=: the energy is a table node, inside
        # the range, and the caller's number is exact - the refraction index is the documented formula there too
        # (an implementation that goes energy -> wavelength -> energy must not drift off the table by an ulp)
        r = xr.sld(comp, rho, E, ulps=64)
        if r.inside and not r.excluded and r.rho_defined:
            wl = xr.wavelength(E)
            nv = complex(xsf.index_of_refraction(obj, density=rho, energy=E))
            delta, beta = xr.refraction(r.rho, r.irho, wl)
            f = wl ** 2 / (2 * math.pi) * 1e-6
            ctx.evaluated(2, 'refraction_at_end_node')
            ctx.count('refraction_at_end_node')
            if not (abs(-nv.imag - beta) <= f * r.tol_irho + 1e-12 * abs(beta) + 2e-16 and
                    abs((1 - nv.real) - delta) <= f * r.tol_rho + 1e-12 * abs(delta) + 4e-16 * max(1.0, abs(delta))):
                bud.violation('index_of_refraction(%s, density=%r, energy=%r) [the energy is the end node of a table] = %r, '
                              '1 - lambda^2/(2 pi)(rho + i irho)1e-6 = %r' % (name, rho, E, nv, complex(1 - delta, -beta)),
                              kind='refraction-at-end-node')
            refl = np.asarray(xsf.mirror_reflectivity(obj, density=rho, energy=np.array([E]), angle=np.array([0.1, 1.0])))
            ctx.evaluated(1, 'mirror_at_end_node')
            if not np.all((refl >= 0) & (refl <= 1)):
                bud.violation('mirror_reflectivity(%s, density=%r, energy=[%r]) [end node of a table] = %r, not in [0, 1]'
                              % (name, rho, E, refl.tolist()), kind='mirror-at-end-node')
    if judged and not boundary:
        if len(case['more']) > 0:
            # the array already given to xray_sld when there is one (one energy grid, several functions)
            ev = arg if form == 'array' else np.array([E] + list(case['more']))
            nvec = xsf.index_of_refraction(obj, density=rho, energy=ev)
            ctx.evaluated(1, 'refraction_vector')
            n0 = complex(xsf.index_of_refraction(obj, density=rho, energy=E))
            if np.shape(nvec) != ev.shape or not (
                    _pair_close(complex(nvec[0]).imag, n0.imag, 0.0) and
                    (not ref.rho_defined or _pair_close(complex(nvec[0]).real, n0.real, 0.0))):
                bud.violation('index_of_refraction(%s): vector call %r, scalar call %r' % (name, nvec, n0),
                              kind='scalar-vs-vector')
            # a python list is a "vector" for energy=; for wavelength= the library needs an array (observed only)
            _v, exc = _try(xsf.index_of_refraction, obj, density=rho, wavelength=[wl, wl])
            ctx.count('observed.refraction_wavelength_list.' + ('ok' if exc is None else type(exc).__name__))

    _compound_grids(ctx, bud, case, comp, obj, name, rho)
    if form != 'npfloat' and not bud.n:
        same = _repeat_call(ctx, bud, vector_text, gv, xsf.xray_sld(obj, density=rho, energy=arg))
        if same and form == 'array' and not any(xr.table(k[0]).excluded(e) for k in comp for e in es):
            _refilled_call(ctx, bud, vector_text, arg, gv, _SldCall(xsf, obj, rho))
            _scribbled_call(ctx, bud, vector_text, gv, lambda: xsf.xray_sld(obj, density=rho, energy=arg))


class _SldCall(object):
    def __init__(self, xsf, obj, rho):
        self.xsf, self.obj, self.rho = xsf, obj, rho

    def __call__(self, arr):
        return self.xsf.xray_sld(self.obj, density=self.rho, energy=arr)


# one energy array and one wavelength array per worker, handed to every compound (a user's grid looped over
# many materials); expected values come from the tuples
ENERGY_GRID = (0.0423, 0.2774, 0.9297, 1.4867, 5.4147, 8.0478, 17.4793, 29.2)


def _shared_grids():
    import numpy as np
    if 'egrid' not in _state:
        xr = _state['xr']
        _state['egrid'] = np.array(ENERGY_GRID)
        _state['wgrid'] = np.array([xr.wavelength(e) for e in ENERGY_GRID])
    return _state['egrid'], _state['wgrid']


def _compound_grids(ctx, bud, case, comp, obj, name, rho):
    """xray_sld and index_of_refraction of this compound on the worker's shared energy / wavelength arrays
    (the same ndarray objects for every compound and for both functions), against the reference."""
    import numpy as np
    xr, xsf = _state['xr'], _state['xsf']
    egrid, wgrid = _shared_grids()
    by_wavelength = len(case['more']) % 2 == 1
    arr, kwname, ulps = (wgrid, 'wavelength', 64) if by_wavelength else (egrid, 'energy', 8)
    ctx.count('reuse.compound_grid.' + kwname)
    text = 'xray_sld(%s, density=%r, %s=<shared array, %r keV>)' % (name, rho, kwname, list(ENERGY_GRID))
    gg = xsf.xray_sld(obj, density=rho, **{kwname: arr})
    if np.shape(gg[0]) != (len(ENERGY_GRID),) or np.shape(gg[1]) != (len(ENERGY_GRID),):
        bud.violation('%s returned shapes %r, %r' % (text, np.shape(gg[0]), np.shape(gg[1])), kind='shape')
        return
    refs = [xr.sld(comp, rho, e, ulps=ulps) for e in ENERGY_GRID]
    for i, (e, r) in enumerate(zip(ENERGY_GRID, refs)):
        _cmp_sld(ctx, bud, (float(gg[0][i]), float(gg[1][i])), r, '%s[%d] at %r keV' % (text, i, e), what='sld_grid')
        if bud.spent:
            return
    nvec = np.asarray(xsf.index_of_refraction(obj, density=rho, **{kwname: arr}))
    if nvec.shape != (len(ENERGY_GRID),):
        bud.violation('index_of_refraction(%s, %s=<shared array>) returned shape %r' % (name, kwname, nvec.shape),
                      kind='shape')
        return
    for i, (e, r) in enumerate(zip(ENERGY_GRID, refs)):
        if not (r.inside and not r.excluded and r.rho_defined):
            continue
        wl = xr.wavelength(e)
        delta, beta = xr.refraction(r.rho, r.irho, wl)
        f = wl ** 2 / (2 * math.pi) * 1e-6
        nv = complex(nvec[i])
        ctx.evaluated(2, 'refraction_grid')
        if not (abs(-nv.imag - beta) <= f * r.tol_irho + 1e-12 * abs(beta) + 2e-16 and
                abs((1 - nv.real) - delta) <= f * r.tol_rho + 1e-12 * abs(delta) + 4e-16 * max(1.0, abs(delta))):
            bud.violation('index_of_refraction(%s, density=%r, %s=<shared array>)[%d] at %r keV = %r, '
                          '1 - lambda^2/(2 pi)(rho + i irho)1e-6 = %r'
                          % (name, rho, kwname, i, e, nv, complex(1 - delta, -beta)), kind='refraction')
            return
    if not bud.n:
        _repeat_call(ctx, bud, text, gg, xsf.xray_sld(obj, density=rho, **{kwname: arr}))


# --------------------------------------------------------------------------
# checks: which density the calculators use
# --------------------------------------------------------------------------
def _fixed(x):
    """Fixed-notation text of a density for the '@' tag of a formula string."""
    s = ('%.10f' % x).rstrip('0')
    return s + '0' if s.endswith('.') else s


ROUTE_KEYWORDS = ('density', 'natural_density')
ROUTE_FORMS_ANY = ('string', 'dict', 'formula.tag', 'formula.tag_i', 'formula.tag_n', 'formula.kw_density',
                   'formula.kw_natural', 'formula.attribute', 'formula.copy')
ROUTE_FORMS_MULTI = ('formula.no_density', 'formula.no_density.parsed')
ROUTE_FORMS_SINGLE = ('formula.one_element_default', 'formula.one_element_default.parsed', 'atom')


def _route_forms(case, comp, text):
    """[(label, compound object, density the object carries by construction or None or 'default')].
    Every Formula is built through the public constructors only."""
    pt = _state['pt']
    own = case['own']
    R = _natural_ratio(comp)
    tag = _fixed(own)
    single = len(comp) == 1
    forms = [('string', text, None), ('dict', _build(comp), None),
             ('formula.tag', pt.formula(text + '@' + tag), own),
             ('formula.tag_i', pt.formula(text + '@' + tag + 'i'), own),
             ('formula.tag_n', pt.formula(text + '@' + tag + 'n'), own / R),
             ('formula.kw_density', pt.formula(_build(comp), density=own), own),
             ('formula.kw_natural', pt.formula(text, natural_density=own), own / R),
             ('formula.copy', pt.formula(pt.formula(_build(comp), density=own)), own)]
    f = pt.formula(_build(comp))
    f.density = own
    forms.append(('formula.attribute', f, own))
    if single:
        forms.append(('formula.one_element_default', pt.formula(_build(comp)), 'default'))
        forms.append(('formula.one_element_default.parsed', pt.formula(text), 'default'))
        (key, n), = comp.items()
        if n == 1:
            forms.append(('atom', _atom(key), 'default'))
    else:
        forms.append(('formula.no_density', pt.formula(_build(comp)), None))
        forms.append(('formula.no_density.parsed', pt.formula(text), None))
    return forms


def _natural_ratio(comp):
    """Mass the compound would have with every isotope replaced by its natural element (ion charges
    kept) over its actual mass, from the reference's own mass tables."""
    xr = _state['xr']
    nat = {}
    for (Z, _A, q), n in comp.items():
        nat[(Z, 0, q)] = nat.get((Z, 0, q), 0) + n
    return xr.formula_mass(nat) / xr.formula_mass(comp)


def _formula_picture(obj):
    """(density, {key: count}) of a Formula object, None for other compound forms."""
    from .. import atoms
    if not hasattr(obj, 'structure'):
        return None
    return obj.density, sorted((atoms.key(a), n) for a, n in obj.atoms.items())


def check_density_route(ctx, case):
    """Which density enters N = density N_A / M: an explicit density= is the density, an explicit
    natural_density= is converted with the natural mass ratio, and either wins over the density a Formula
    object already carries ('@' tag, density= / natural_density= at construction, attribute, copy, the
    one-element default); without a keyword the object's own density is used.  Judged on xray_sld and
    index_of_refraction against the reference and on mirror_reflectivity against the same call with a plain
    dict and density= (its formula is not part of the property, the density it uses is)."""
    import numpy as np
    xr, xsf = _state['xr'], _state['xsf']
    comp = _comp_keys(case['atoms'])
    E = case['energy']
    text = ''.join(_render(tuple(a[:3]), case['alias']) + _count_text(a[3]) for a in case['atoms'])
    R = _natural_ratio(comp)
    bud = _Budget(ctx)
    isotopic, charged = any(k[1] for k in comp), any(k[2] for k in comp)
    ctx.count('route.cases')
    if abs(R - 1) > 1e-9:
        ctx.count('route.cases.natural_ratio_differs_from_1')
    if any(k[1] and k[2] for k in comp):
        ctx.count('route.cases.isotope_ion')
    wl = xr.wavelength(E) if 0 < E < math.inf else None
    boundary = any(abs(E - b) <= 1e-9 * b for k in comp for b in (xr.table(k[0]).emin, xr.table(k[0]).emax))
    ang = np.array(case['angles'], dtype=float)
    earr = np.array([E])
    plain = _build(comp)
    effective = {'density': case['density'], 'natural_density': case['natural_density'] / R}
    mirror_base = {}

    def judge(label, obj, kwname, d_eff, kw, how):
        """One compound form with one density source; d_eff is the density the documented rules select."""
        ref = xr.sld(comp, d_eff, E)
        call = '%s, %s' % (how, ', '.join('%s=%r' % kv for kv in kw.items()))
        got = xsf.xray_sld(obj, energy=E, **kw)
        ctx.distinct_case(('route', label, kwname, isotopic, charged, len(comp) == 1))
        ctx.count('route.%s.%s' % (label, kwname))
        _cmp_sld(ctx, bud, got, ref, 'xray_sld(%s, energy=%r) [density in effect %r g/cm^3: %s]'
                 % (call, E, d_eff, _why(kwname, R)), what='route_sld', form=label, keyword=kwname)
        if bud.spent:
            return
        # the package-level periodictable.xray_sld is documented as the same calculation: same keywords, same numbers
        top = _state['pt'].xray_sld(obj, energy=E, **kw)
        ctx.evaluated(1, 'route_toplevel_alias')
        try:
            same = all(_same_bits(float(a), float(b)) or abs(float(a) - float(b)) <= 1e-14 * abs(float(b))
                       for a, b in zip(top, got)) and len(top) == len(got)
        except Exception:
            same = False
        if not same:
            bud.violation('periodictable.xray_sld(%s, energy=%r) = %r but xsf.xray_sld gives %r [density in effect %r '
                          'g/cm^3: %s]' % (call, E, top, got, d_eff, _why(kwname, R)),
                          kind='route_alias', form=label, keyword=kwname)
            return
        if wl is None or boundary:
            return
        # refraction, alternately by energy= and by wavelength=
        by_wl = (len(label) + len(kwname)) % 2 == 1
        r = xr.sld(comp, d_eff, E, ulps=64)
        if r.inside and not r.excluded and r.rho_defined:
            nv = complex(xsf.index_of_refraction(obj, **dict(kw, **({'wavelength': wl} if by_wl else {'energy': E}))))
            delta, beta = xr.refraction(r.rho, r.irho, wl)
            f = wl ** 2 / (2 * math.pi) * 1e-6
            ctx.evaluated(2, 'route_refraction')
            if not (abs(-nv.imag - beta) <= f * r.tol_irho + 1e-12 * abs(beta) + 2e-16 and
                    abs((1 - nv.real) - delta) <= f * r.tol_rho + 1e-12 * abs(delta) + 4e-16 * max(1.0, abs(delta))):
                bud.violation('index_of_refraction(%s, %s=%r) = %r, 1 - lambda^2/(2 pi)(rho + i irho)1e-6 at density '
                              '%r g/cm^3 (%s) = %r' % (call, 'wavelength' if by_wl else 'energy', wl if by_wl else E, nv,
                                                       d_eff, _why(kwname, R), complex(1 - delta, -beta)),
                              kind='route_refraction', form=label, keyword=kwname)
                return
        # reflectivity: the same numbers as a plain dict with density=<the density in effect>
        if kwname not in mirror_base:
            mirror_base[kwname] = np.asarray(xsf.mirror_reflectivity(plain, density=d_eff, energy=earr, angle=ang,
                                                                     roughness=case['roughness']))
        base = mirror_base[kwname]
        got = np.asarray(xsf.mirror_reflectivity(obj, energy=earr, angle=ang, roughness=case['roughness'], **kw))
        ctx.evaluated(1, 'route_mirror')
        if got.shape != base.shape or not np.allclose(got, base, rtol=1e-7, atol=1e-12, equal_nan=True):
            bud.violation('mirror_reflectivity(%s, energy=[%r], angle=%r, roughness=%r) = %r, but %r for the same '
                          'atoms as a dict with density=%r (%s)'
                          % (call, E, case['angles'], case['roughness'], got.ravel().tolist(), base.ravel().tolist(),
                             d_eff, _why(kwname, R)), kind='route_mirror', form=label, keyword=kwname)

    for label, obj, carried in _route_forms(case, comp, text):
        how = ('%r' % obj if isinstance(obj, str) else
               '{%s}' % text if label == 'dict' else '<%s of %s>' % (label, text))
        before = _formula_picture(obj)
        if before is not None:
            if before[0] is None and carried == 'default':
                ctx.count('route.one_element_without_tabulated_density')
                carried = None
            elif carried == 'default':
                carried = before[0]       # the public attribute; what the default is, is C12's subject
            how = '<%s of %s, own density %r>' % (label, text, before[0])
        elif carried == 'default':
            carried = _atom(next(iter(comp))).density
            how = '<atom %s, density %r>' % (obj, carried)
        for kwname in ROUTE_KEYWORDS:
            judge(label, obj, kwname, effective[kwname], {kwname: case[kwname]}, how)
            if bud.spent:
                return
        if carried is not None and not isinstance(obj, (str, dict)):
            judge(label, obj, 'own', carried, {}, how)
            mirror_base.pop('own', None)
        if before is not None:
            # a call the library refuses (the beam energy was forgotten), caught by the caller, must leave the
            # caller's Formula object as it was, too
            for kwname in ROUTE_KEYWORDS:
                _v, refused = _try(xsf.xray_sld, obj, **{kwname: case[kwname] * 3})
                ctx.count('route.refused_call.' + ('raised' if refused is not None else 'answered'))
            ctx.evaluated(1, 'route_formula_unchanged')
            after = _formula_picture(obj)
            if after != before:
                bud.violation('the Formula object %s handed to the x-ray calculators was changed by the calls: '
                              'density and atoms %r before, %r after' % (how, before, after),
                              kind='route_formula_changed', form=label)
        if bud.spent:
            return


def _why(kwname, R):
    if kwname == 'density':
        return 'the density= keyword'
    if kwname == 'natural_density':
        return 'the natural_density= keyword divided by the natural mass ratio %r' % R
    return 'the density the object carries, no keyword given'


def check_mirror(ctx, case):
    """Thick-mirror reflectivity lies in [0, 1] wherever the index of refraction is finite."""
    import numpy as np
    xr, xsf = _state['xr'], _state['xsf']
    comp = _comp_keys(case['atoms'])
    obj = _build(comp)
    rho = case['density']
    es = np.array(case['energies'], dtype=float)
    ang = np.array(case['angles'], dtype=float)
    sigma = case['roughness']
    kw = {'energy': es} if case['by'] == 'energy' else {'wavelength': xr.hc / es}
    R = xsf.mirror_reflectivity(obj, density=rho, angle=ang, roughness=sigma, **kw)
    nv = np.asarray(xsf.index_of_refraction(obj, density=rho, **kw))
    name = '+'.join('%s*%g' % (_render(k, True), n) for k, n in comp.items())
    ctx.evaluated(1, 'mirror.shape')
    if np.shape(R) != (len(ang), len(es)):
        ctx.violation('mirror_reflectivity(%s): %d angles x %d energies returned shape %r'
                      % (name, len(ang), len(es), np.shape(R)), kind='mirror.shape')
        return
    bud = _Budget(ctx)
    for j, e in enumerate(es.tolist()):
        if not np.isfinite(nv[j]):
            ctx.count('mirror.index_not_finite')
            continue
        ctx.distinct_case(('mirror', tuple(sorted(comp)), _bin(e)))
        col = R[:, j]
        ctx.evaluated(len(ang), 'mirror.range')
        bad = ~(np.isfinite(col) & (col >= 0) & (col <= 1 + 1e-12)) if not np.iscomplexobj(col) else np.ones(len(ang), bool)
        ctx.observe('mirror.R.max', float(np.nanmax(np.abs(col))))
        if bad.any():
            i = int(np.flatnonzero(bad)[0])
            bud.violation('mirror_reflectivity(%s, density=%r, %s, angle=%r deg, roughness=%r) = %r is not in [0, 1] '
                          '(index of refraction %r)' % (name, rho, 'energy=%r' % e, float(ang[i]), sigma, col[i], nv[j]),
                          kind='mirror.range')
    # observed only (the property states the range, not the formula): Fresnel reflectivity of a thick
    # mirror, s-polarisation, at zero roughness
    if sigma == 0 and not bud.n:
        with np.errstate(all='ignore'):
            th = np.radians(ang)[:, None]
            kz = np.sqrt(nv[None, :] ** 2 - np.cos(th) ** 2)
            fres = np.abs((np.sin(th) - kz) / (np.sin(th) + kz)) ** 2
            same = np.isclose(R, fres, rtol=1e-9, atol=1e-15) | ~np.isfinite(fres) | ~np.isfinite(R)
        ctx.count('observed.mirror.fresnel_s_pol.' + ('agrees' if same.all() else 'differs'))
    # scalar energy and scalar angle give the same number as the grid
    j = 0
    if np.isfinite(nv[j]) and not bud.n:
        kws = {'energy': float(es[j])} if case['by'] == 'energy' else {'wavelength': float(xr.hc / es[j])}
        r1 = np.asarray(xsf.mirror_reflectivity(obj, density=rho, angle=float(ang[0]), roughness=sigma, **kws))
        ctx.evaluated(1, 'mirror.scalar_vs_vector')
        if r1.size != 1 or not _pair_close(float(r1.ravel()[0]), float(R[0, j]), 1e-15, rel=1e-10):
            bud.violation('mirror_reflectivity(%s) scalar call %r, grid entry %r' % (name, r1, R[0, j]),
                          kind='scalar-vs-vector')
    # the same angle and energy / wavelength arrays once more (they went through index_of_refraction meanwhile)
    if not bud.n:
        if len({k[0] for k in comp}) < len(comp):
            ctx.count('mirror.repeated_element')
        _repeat_call(ctx, bud, 'mirror_reflectivity(%s, density=%r, angle=<array %r>, %s=<array %r>, roughness=%r)'
                     % (name, rho, case['angles'], case['by'], kw[case['by']].tolist(), sigma), R,
                     xsf.mirror_reflectivity(obj, density=rho, angle=ang, roughness=sigma, **kw))


# --------------------------------------------------------------------------
# checks: analytic form factor f0
# --------------------------------------------------------------------------
F0_QS = [0.0, 1e-6, 0.1, 1.0, 7.5, 20.0, 60.0, TWENTYFOUR_PI * (1 - 1e-12)]
F0_BEYOND = [TWENTYFOUR_PI * (1 + 1e-12), 76.0, 100.0, 1e3, 1e9]


def _qgrid():
    """ONE float64 Q array per worker, handed to every f0 route of every entry, atom and ion (a user's
    Q grid looped over the table).  The expected values come from the immutable list, never from it."""
    import numpy as np
    if 'Qgrid' not in _state:
        _state['Qgrid'] = np.array(F0_QS + F0_BEYOND)
        _state['Qgrid2'] = np.array([[0.0, 1.0], [2.0, 100.0]])
    return _state['Qgrid'], _state['Qgrid2']


def _f0_compare(ctx, bud, text, fn, entry, electrons=None):
    """fn(Q) is a library route to f0 for the coefficient entry `entry`."""
    import numpy as np
    cm = _state['cm']
    qs = F0_QS + F0_BEYOND
    qarr, qarr2 = _qgrid()
    ctx.count('reuse.f0_q_grid_calls')
    vec = np.asarray(fn(qarr))
    if vec.shape != (len(qs),):
        bud.violation('%s: %d Q values returned shape %r' % (text, len(qs), vec.shape), kind='f0.shape')
        return
    for Q, g in zip(qs, vec.tolist()):
        want = cm.f0(entry, Q)
        if Q > TWENTYFOUR_PI:
            ctx.evaluated(1, 'f0.nan_beyond')
            if not _isnan(g):
                bud.violation('%s: f0(Q=%r) = %r, not NaN beyond Q = 24 pi' % (text, Q, g), kind='f0.nan-beyond', Q=Q)
        else:
            ctx.evaluated(1, 'f0.value')
            if _isnan(g) or not abs(g - want) <= 1e-10 * abs(want) + 1e-12:
                bud.violation('%s: f0(Q=%r) = %r, c + sum a exp(-b (Q/4pi)^2) with the coefficients of %s gives %r'
                              % (text, Q, g, entry, want), kind='f0.value', Q=Q, got=g, want=want)
            else:
                ctx.observe('f0.relerr', abs(g - want) / abs(want))
    # every Q of the grid as a plain scalar too: the same number (or the same NaN) as in the vector call
    for Q, g in zip(qs, vec.tolist()):
        sc = fn(Q)
        ctx.evaluated(1, 'f0.scalar_vs_vector')
        if np.ndim(sc) != 0:
            bud.violation('%s: scalar Q = %r returned %r' % (text, Q, sc), kind='f0.shape')
            break
        sc = float(sc)
        if (_isnan(sc) != _isnan(g)) or (not _isnan(g) and not abs(sc - g) <= 1e-12 * abs(g) + 1e-300):
            bud.violation('%s: f0(Q=%r) is %r in a scalar call and %r in the vector call' % (text, Q, sc, g),
                          kind='f0.scalar-vs-vector', Q=Q)
            break
    if electrons is not None:
        for Q in (0.0, 1e-6):
            g = fn(Q)
            ctx.evaluated(1, 'f0.electron_count' if Q == 0.0 else 'f0.value')
            if np.ndim(g) != 0:
                bud.violation('%s: scalar Q returned %r' % (text, g), kind='f0.shape')
            elif not abs(float(g) - electrons) <= 0.1:
                bud.violation('%s: f0(Q=%r) = %r is not within 0.1 of the electron count %d'
                              % (text, Q, float(g), electrons), kind='f0.electron-count', got=float(g), want=electrons)
            else:
                ctx.observe('f0.electron_count.abserr', abs(float(g) - electrons))
    g2 = np.asarray(fn(qarr2))
    ctx.evaluated(1, 'f0.shape')
    if g2.shape != (2, 2) or not _isnan(float(g2[1, 1])) or _isnan(float(g2[1, 0])):
        bud.violation('%s: 2x2 Q array [[0, 1], [2, 100]] returned %r' % (text, g2), kind='f0.shape')
    elif not abs(float(g2[0, 1]) - cm.f0(entry, 1.0)) <= 1e-10 * abs(cm.f0(entry, 1.0)) + 1e-12:
        bud.violation('%s: 2x2 Q array [[0, 1], [2, 100]]: f0(Q=1) = %r, the coefficients of %s give %r'
                      % (text, float(g2[0, 1]), entry, cm.f0(entry, 1.0)), kind='f0.value', Q=1.0)
    _repeat_call(ctx, bud, text + ' with the Q grid %r' % (qs,), vec, fn(qarr))
    qtmp = np.array(qs)
    _refilled_call(ctx, bud, text + ' with the Q values %r' % (qs,), qtmp, np.asarray(fn(qtmp)), fn)
    got_q = fn(qtmp)
    _scribbled_call(ctx, bud, text + ' with the Q values %r' % (qs,), got_q if isinstance(got_q, tuple) else (got_q,),
                    lambda: (fn(qtmp),))


def check_f0_entry(ctx, case):
    """One of the 211 coefficient entries: electron count at Q -> 0, own evaluation, NaN beyond 24 pi;
    through cromermann.fxrayatq and through atom.xray.f0 when the table has that atom/ion."""
    cm, pt, cromermann = _state['cm'], _state['pt'], _state['cromermann']
    sym = case['symbol']
    el_sym, q, kind = cm.parse_symbol(sym)
    el = pt.elements.symbol(el_sym)
    bud = _Budget(ctx)
    ctx.evaluated(1, 'f0.entry_Z')
    if el.number != cm.Z[sym]:
        ctx.violation('coefficient entry %s is filed under Z=%d but %s has Z=%d' % (sym, cm.Z[sym], el_sym, el.number))
    electrons = el.number - q
    ctx.distinct_case(('f0_entry', sym))
    ctx.count('f0.entries.' + kind)
    _f0_compare(ctx, bud, 'cromermann.fxrayatq(%r, Q)' % sym, lambda Q: cromermann.fxrayatq(sym, Q), sym, electrons)
    if kind == 'valence':
        return
    if kind == 'ion':
        # the charge argument overrides / completes the symbol
        _f0_compare(ctx, bud, 'cromermann.fxrayatq(%r, Q, charge=%d)' % (el_sym, q),
                    lambda Q: cromermann.fxrayatq(el_sym, Q, charge=q), sym, electrons)
    if q == 0 or q in el.ions:
        atom = el.ion[q] if q else el
        _f0_compare(ctx, bud, '%s.xray.f0(Q)' % atom, atom.xray.f0, sym, electrons)
        ctx.count('f0.entries.reached_through_atom')
    else:
        ctx.count('f0.entries.ion_not_in_table')


def check_f0_atoms(ctx, case):
    """Every element and ion of the table: f0 uses exactly its own coefficient entry; atoms and ions
    without an entry raise (or return nothing) instead of borrowing a neighbour's."""
    import numpy as np
    cm, pt = _state['cm'], _state['pt']
    Z = case['Z']
    el = pt.elements[Z]
    rng = random.Random(case['seed'])
    keys = [(Z, 0, 0)] + [(Z, 0, q) for q in el.ions]
    isos = [A for A in el.isotopes if not (Z == 1 and A in (2, 3))]
    for A in rng.sample(isos, min(2, len(isos))):
        keys.append((Z, A, 0))
        if el.ions:
            keys.append((Z, A, rng.choice(el.ions)))
    if case.get('dt'):
        keys = [(1, A, q) for A in (2, 3) for q in [0] + list(el.ions)]
    bud = _Budget(ctx)
    for key in keys:
        atom = _atom(key)
        entry = cm.entry_for(el.symbol, key[2]) if Z > 0 else None
        ctx.distinct_case(('f0_atom', key))
        got, exc = _try(atom.xray.f0, _qgrid()[0])
        if entry is None:
            ctx.evaluated(1, 'f0.no_entry_rejected')
            ctx.count('f0.atoms_without_entry')
            if exc is not None:
                got, exc = _try(atom.xray.f0, _qgrid()[0])      # asked again after the refusal: still no borrowed values
            if exc is None and got is not None and np.isfinite(np.asarray(got, dtype=float)).any():
                bud.violation('%s has no coefficient entry but f0 returns %r (borrowed from another entry?)'
                              % (atom, got), kind='f0.borrowed', atom=list(key))
            continue
        ctx.count('f0.atoms_with_entry')
        if exc is not None:
            detail = dict(kind='f0.entry-not-found', symptom='no-f0-entry', atom=list(key), dt_ion=_is_dt_ion(key),
                          exc_type=type(exc).__name__)
            if _is_dt_ion(key):
                sib = _atom((1, 0, key[2]))
                s, exc2 = _try(sib.xray.f0, 0.0)
                detail['sibling'] = str(sib)
                detail['sibling_ok'] = bool(exc2 is None and abs(float(s) - cm.f0(entry, 0.0)) <= 1e-10)
            ctx.evaluated(1, 'f0.value')
            ctx.violation('%s.xray.f0 raises %s: %s although the coefficient file has the entry %s'
                          % (atom, type(exc).__name__, exc, entry), **detail)
            continue
        _f0_compare(ctx, bud, '%s.xray.f0(Q)' % atom, atom.xray.f0, entry, Z - key[2])
        if bud.spent:
            return
        if key[2] and (Z + key[2]) % 3 == 0:
            # the x-ray record of an ion through copy / deepcopy / pickle (kept in a user's container): still that ion's
            import copy
            import pickle
            for how, clone in (('copy.copy', copy.copy), ('copy.deepcopy', copy.deepcopy),
                               ('pickle round trip', lambda x: pickle.loads(pickle.dumps(x)))):
                ctx.count('clones.xray_record.' + how.split('.')[-1].split(' ')[0])
                try:
                    x2 = clone(atom.xray)
                except Exception:
                    ctx.count('clones.xray_record.refused')     # a record need not be copyable
                    continue
                _f0_compare(ctx, bud, '%s of %s.xray: f0(Q)' % (how, atom), x2.f0, entry, Z - key[2])
                if bud.spent:
                    return


def check_constants(ctx, case):
    """r_e, N_A, h, c are data for the reference; each must be a published CODATA value and
    h c = 12.398 keV A; the x-ray module must use those very objects."""
    from ..ref import xray as xref
    xsf = _state['xsf']
    ctx.evaluated(len(xref.CODATA), 'constants')
    for name, got, want in xref.pin_constants(1e-6):
        ctx.violation('periodictable.constants.%s = %r, expected %s' % (name, got, want), kind='constant')
    ctx.evaluated(2, 'constants')
    for fn in (xsf.xray_wavelength, xsf.xray_energy):
        got = float(fn(1.0))
        if not abs(got - xref.HC_KEV_ANGSTROM) <= 1e-6 * xref.HC_KEV_ANGSTROM:
            ctx.violation('%s(1.0) = %r, h c = %r keV A' % (fn.__name__, got, xref.HC_KEV_ANGSTROM), kind='constant')
    from periodictable import constants
    ctx.evaluated(4, 'constants')
    for name in ('electron_radius', 'avogadro_number', 'plancks_constant', 'speed_of_light'):
        if not hasattr(xsf, name):
            # how xsf gets at the constants (from-import or module attribute access) is its private business
            ctx.count('skipped.constants.not_a_module_global_of_xsf')
            continue
        if getattr(xsf, name) != getattr(constants, name):
            ctx.violation('periodictable.xsf.%s = %r but periodictable.constants.%s = %r'
                          % (name, getattr(xsf, name), name, getattr(constants, name)), kind='constant')
    ctx.distinct_case(('constants',))


CHECKS = {'factors': check_factors, 'ions': check_ions, 'element_sld': check_element_sld,
          'compound': check_compound, 'mirror': check_mirror, 'density_route': check_density_route, 'f0_entry': check_f0_entry,
          'f0_atoms': check_f0_atoms, 'constants': check_constants}


def classify(rec):
    """D28: an ion of D or T looks its x-ray table / f0 entry up under the alias symbol 'D'/'T'.
    Only: the case has such an ion, the symptom is 'no data for it', and the same case with the
    H ion of equal charge is computed correctly."""
    d = rec.get('detail') or {}
    if not (d.get('dt_ion') is True and d.get('sibling_ok') is True):
        return None
    # public symptoms only: which exception type / message reports the missing data is not fixed by the property
    if d.get('symptom') == 'no-xray-data':
        if rec.get('check') == 'compound':
            return 'c05.dt-ion-xray'
        if rec.get('check') == 'ions' and d.get('kind') == 'ion-no-table':
            return 'c05.dt-ion-xray'
    if d.get('symptom') == 'no-f0-entry' and rec.get('check') == 'f0_atoms':
        return 'c05.dt-ion-xray'
    return None
