"""C02 - composition arithmetic: atoms, mass, charge and mass fractions are additive, and
value-returning operators leave their operands unchanged."""
import numbers
from fractions import Fraction

RULE = ('random straight-line programs (3-12 statements) over formulas: leaves are an atom, a generated string, an '
        '{atom: count} dict, a nested (count, fragment) sequence, the empty formula, a copy formula(f) or an alias; '
        'operators f+g, n*f, f+=g; after every statement every live variable is compared with a shadow interpreter. '
        'Plus one sweep case per element over all of its atoms (element, ions, isotopes, isotope ions). '
        'distinct = distinct (operator sequence, leaf-kind sequence) signatures of programs and distinct swept elements; '
        'non-trivial = the program contains at least one operator')
SHARDS = {'quick': 8, 'thorough': 16}
TIMEOUT = {'quick': 900, 'thorough': 7200}
TECHNIQUE = ('runtime monitoring: random formula programs executed in lock step with a shadow interpreter (reference model over '
             '(Z, A, charge) keys with exact rational counts, independent mass table, alias map), icontract snapshot/ensure on '
             'Formula.__add__/__rmul__/__iadd__, class invariant on Formula.structure, postcondition on _count_atoms, '
             'sys.monitoring reach counters on the operator branches')
LEVEL_TEXT = ('Every statement of every generated program is executed through the real library; after each statement the atoms, '
              'mass, charge and mass fractions of all live variables are compared with a model that never calls the library '
              '(exact rational counts, masses re-read from the embedded tables, ion mass = tabulated mass less charge electron masses), '
              'operand snapshots (structure, density, name) are compared before/after, and contracts inside the operators fire on '
              'every internal call. Reach is by workload diversity: all 17.7k atoms in the sweep, multipliers 0, 1, ints, floats over '
              '12 decades and numpy scalars, all five initializer kinds, aliases and copies; held means held on the programs generated.'
              ' Added in rounds 4-7: blank-string leaves, formula(f, table=) copies, clone statements (copy / deepcopy / pickle), scribble statements (the caller edits f.atoms, f.mass_fraction, f.hill in place), every atom of every formula must be the object a table serves, whole-number multipliers with products beyond 2**63. Added in round 8: fractions.Fraction leaf counts and multipliers.')
LEVEL_NOTE = ('Trusted: pvmon/gen/programs.py (generator and shadow interpreter), pvmon/gen/formulas.py (string denotation), '
              'pvmon/ref/masses.py, CPython Fraction/float, icontract. Multipliers are bounded so that total counts stay below 1e13 '
              '(numpy.int64 overflow is numpy\'s behaviour, not the library\'s).')
ASSUMPTIONS = ['x += y is modelled with Python\'s in-place semantics: every variable bound to the same object sees the extension',
               'an atom present with count 0 and an absent atom denote the same composition',
               'mass fractions are not demanded when the total mass is 0 (0*f or the empty formula): the quotient is undefined',
               'total counts are kept below 1e13 and numpy.int32 counts are not generated, so that numpy integer arithmetic cannot wrap around (numpy behaviour, not the library\'s)']

_s = {}


# ---------------------------------------------------------------- contract errors
class ContractBroken(AssertionError):
    pass


class AddContractBroken(ContractBroken):
    pass


class RmulContractBroken(ContractBroken):
    pass


class IaddContractBroken(ContractBroken):
    pass


class StructureInvariantBroken(ContractBroken):
    pass


class CountAtomsBroken(ContractBroken):
    pass


def _contract_text(exc):
    """'<condition name>: <values>' from an icontract violation message (its first line is the source location)."""
    lines = [l.strip() for l in str(exc).split('\n') if l.strip()]
    if len(lines) > 1 and lines[0].startswith('File '):
        lines = lines[1:]
    return ' '.join(lines[:4])[:400]


# ---------------------------------------------------------------- helpers shared by contracts and checks
def _deep(structure):
    """Value snapshot of a structure: container kinds, counts, atom identities."""
    try:
        return ('L' if isinstance(structure, list) else 'T',) + tuple(
            (c, _deep(frag) if isinstance(frag, (list, tuple)) else id(frag)) for c, frag in structure)
    except Exception:
        return ('?', repr(structure)[:200])


_MISSING = object()


def _snap(f):
    """(structure identity, structure value, density, name) of a formula, read through its public attributes;
    None for anything that has no structure."""
    structure = getattr(f, 'structure', _MISSING)
    if structure is _MISSING:
        return None
    return (id(structure), _deep(structure), getattr(f, 'density', None), getattr(f, 'name', None))


def _lists_in(structure, out=None):
    """ids of the mutable (list) containers inside a structure."""
    if out is None:
        out = set()
    if isinstance(structure, list):
        out.add(id(structure))
    if isinstance(structure, (list, tuple)):
        for item in structure:
            if isinstance(item, (list, tuple)) and len(item) == 2 and isinstance(item[1], (list, tuple)):
                _lists_in(item[1], out)
            if isinstance(item, list):
                out.add(id(item))
    return out


def _fold_ids(seq, mult=1, out=None):
    """Top-down fold of a library structure: id(atom) -> count (independent of _count_atoms)."""
    if out is None:
        out = {}
    for count, fragment in seq:
        if isinstance(fragment, (list, tuple)):
            _fold_ids(fragment, mult * count, out)
        else:
            k = id(fragment)
            out[k] = out.get(k, 0) + mult * count
    return out


def _same_counts(got, want, rel=1e-11):
    for k in set(got) | set(want):
        g, w = got.get(k, 0), want.get(k, 0)
        if abs(g - w) > rel * abs(w):
            return False
    return True


def _well_formed(structure, isatom):
    if not isinstance(structure, (list, tuple)):
        return False
    for item in structure:
        if not isinstance(item, (list, tuple)) or len(item) != 2:
            return False
        count, fragment = item
        if not isinstance(count, numbers.Number):
            return False
        if isatom(fragment):
            continue
        if not _well_formed(fragment, isatom):
            return False
    return True


def _binary(orig):
    """Adapter with the fixed parameter names the contract conditions use: the operators are always called
    positionally, so the names the library gives their parameters are free to change."""
    def op(self, other):
        return orig(self, other)
    op.__name__ = getattr(orig, '__name__', 'op')
    op.__doc__ = getattr(orig, '__doc__', None)
    return op           # no __wrapped__: icontract must see the adapter's signature, not the library's


def attach_contracts(ctx, stats):
    """icontract snapshot/ensure on the three operators, invariant on Formula (public class and operators);
    postcondition on the PRIVATE _count_atoms as optional instrumentation."""
    import icontract
    from periodictable import formulas, core
    from ..gen.formulas import private, pairs_structure
    Formula = formulas.Formula
    isatom = core.isatom

    # -- __add__
    def old_add_self(self):
        return _snap(self)

    def old_add_other(other):
        return _snap(other)

    def add_leaves_operands_unchanged(self, other, OLD):
        stats['__add__'] += 1
        return OLD.add_self == _snap(self) and OLD.add_other == _snap(other)

    def add_returns_a_new_formula(self, other, result):
        return isinstance(result, Formula) and result is not self and result is not other

    def add_result_is_sum_of_operands(self, other, result):
        want = _fold_ids(self.structure)
        for k, v in _fold_ids(other.structure).items():
            want[k] = want.get(k, 0) + v
        return _same_counts(_fold_ids(result.structure), want)

    f = _binary(Formula.__add__)
    f = icontract.ensure(add_result_is_sum_of_operands, error=AddContractBroken)(f)
    f = icontract.ensure(add_returns_a_new_formula, error=AddContractBroken)(f)
    f = icontract.ensure(add_leaves_operands_unchanged, error=AddContractBroken)(f)
    f = icontract.snapshot(old_add_self, name='add_self')(f)
    f = icontract.snapshot(old_add_other, name='add_other')(f)
    Formula.__add__ = f

    # -- __rmul__
    def old_rmul_self(self):
        return _snap(self)

    def rmul_leaves_operand_unchanged(self, OLD):
        stats['__rmul__'] += 1
        return OLD.rmul_self == _snap(self)

    def rmul_returns_a_new_formula(self, result):
        return isinstance(result, Formula) and result is not self

    def rmul_result_is_multiple_of_operand(self, other, result):
        want = dict((k, other * v) for k, v in _fold_ids(self.structure).items())
        return _same_counts(_fold_ids(result.structure), want)

    f = _binary(Formula.__rmul__)
    f = icontract.ensure(rmul_result_is_multiple_of_operand, error=RmulContractBroken)(f)
    f = icontract.ensure(rmul_returns_a_new_formula, error=RmulContractBroken)(f)
    f = icontract.ensure(rmul_leaves_operand_unchanged, error=RmulContractBroken)(f)
    f = icontract.snapshot(old_rmul_self, name='rmul_self')(f)
    Formula.__rmul__ = f

    # -- __iadd__
    def old_iadd_other(other):
        return _snap(other)

    def old_iadd_sum(self, other):
        want = _fold_ids(self.structure)
        for k, v in _fold_ids(getattr(other, 'structure', ())).items():
            want[k] = want.get(k, 0) + v
        return want

    def iadd_leaves_right_operand_unchanged(self, other, OLD):
        stats['__iadd__'] += 1
        return other is self or OLD.iadd_other == _snap(other)

    def iadd_returns_self(self, result):
        return result is self

    def iadd_extends_self_by_other(self, OLD):
        return _same_counts(_fold_ids(self.structure), OLD.iadd_sum)

    f = _binary(Formula.__iadd__)
    f = icontract.ensure(iadd_extends_self_by_other, error=IaddContractBroken)(f)
    f = icontract.ensure(iadd_returns_self, error=IaddContractBroken)(f)
    f = icontract.ensure(iadd_leaves_right_operand_unchanged, error=IaddContractBroken)(f)
    f = icontract.snapshot(old_iadd_other, name='iadd_other')(f)
    f = icontract.snapshot(old_iadd_sum, name='iadd_sum')(f)
    Formula.__iadd__ = f

    # -- class invariant
    def structure_is_nesting_of_count_fragment_pairs(self):
        stats['invariant'] += 1
        return _well_formed(getattr(self, 'structure', ()), isatom)

    icontract.invariant(structure_is_nesting_of_count_fragment_pairs, error=StructureInvariantBroken)(Formula)

    # -- _count_atoms (private: optional; a call or a result of another form is passed through un-judged)
    orig = private(ctx, formulas, '_count_atoms', waived=['contract._count_atoms'])
    if orig is None or not callable(orig):
        return

    def count_atoms_matches_fold(seq, result):
        try:
            got = dict((id(a), c) for a, c in result.items())
            want = _fold_ids(seq)
        except Exception:
            stats['_count_atoms.unrecognised_call'] += 1
            return True
        stats['_count_atoms'] += 1
        return _same_counts(got, want)

    def judged(seq):
        return orig(seq)
    judged = icontract.ensure(count_atoms_matches_fold, error=CountAtomsBroken)(judged)

    def _count_atoms(*args, **kw):
        if len(args) == 1 and not kw and pairs_structure(args[0]):
            return judged(args[0])
        stats['_count_atoms.unrecognised_call'] += 1
        return orig(*args, **kw)
    _count_atoms.__wrapped__ = orig
    _count_atoms.__doc__ = getattr(orig, '__doc__', None)
    formulas._count_atoms = _count_atoms


SCALED_FACTOR = 1.25


def setup(ctx):
    from collections import Counter
    import periodictable as pt
    from periodictable import core, formulas, mass, density
    from ..ref.masses import MassModel
    from ..statemon import Reach
    from ..gen.formulas import watch_private, private_table_with_other_masses

    _s['model'] = MassModel()
    _s['me'] = pt.constants.electron_mass
    T = core.PeriodicTable('c02_private_%d' % ctx.shard)
    mass.init(T)
    density.init(T)
    # a second private table whose masses were all changed (x 1.25): atoms, and in particular ions,
    # of the wrong table show up as wrong masses.  (No public route gives a table other masses: when the private
    # attribute behind .mass cannot be written in this tree the table keeps the tabulated masses.)
    Ts, scaled = private_table_with_other_masses('c02_scaled_%d' % ctx.shard, lambda Z: SCALED_FACTOR)
    if not scaled:
        ctx.count('setup.scaled-table-unavailable')
        if not ctx.shard:
            ctx.note('the masses of a private table could not be changed through the private attribute behind '
                     '.mass (refactored source); the private_scaled cases run on a private table with the '
                     'tabulated masses')
    _s['tables'] = {'public': pt.elements, 'private': T, 'private_scaled': Ts}
    _s['scale'] = {'public': 1.0, 'private': 1.0, 'private_scaled': SCALED_FACTOR if scaled else 1.0}
    _s['cur_scale'] = 1.0

    reach = Reach()
    F = formulas.Formula
    reach.watch(F.__add__, 'Formula.__add__').watch(F.__iadd__, 'Formula.__iadd__').watch(F.__rmul__, 'Formula.__rmul__')
    # private helpers: optional reach counters (requirement waived when the name is gone)
    count_atoms = watch_private(ctx, reach, formulas, '_count_atoms', waived=['reach.count_atoms.nested'])
    watch_private(ctx, reach, formulas, '_immutable')
    watch_private(ctx, reach, formulas, '_convert_to_hill_notation')
    reach.watch(core.Ion.mass, 'Ion.mass').watch(F.mass_fraction, 'Formula.mass_fraction')
    reach.watch(F.mass, 'Formula.mass').watch(F.charge, 'Formula.charge')
    # source-line anchors (branch counters): evidence only when the text is not there (Reach.missing)
    lines = []
    for func, text, label in ((F.__rmul__, 'ret.structure = ((other*q, f), )', 'rmul.single-fragment-shortcut'),
                              (F.__rmul__, 'ret.structure = ((other, ret.structure), )', 'rmul.wrap-structure'),
                              (count_atoms, 'partial = _count_atoms(fragment)', 'count_atoms.nested')):
        lines.append(label)
        if func is None:
            continue            # already waived with the function itself
        try:
            reach.watch_line_matching(func, text, label)
        except Exception:       # no source text available for this function
            reach.missing.add(label)
    _s['reach'] = reach
    stats = _s['stats'] = Counter()
    attach_contracts(ctx, stats)
    reach.start()
    for name in ['Formula.__add__', 'Formula.__iadd__', 'Formula.__rmul__', '_count_atoms', '_immutable',
                 '_convert_to_hill_notation', 'Ion.mass', 'Formula.mass_fraction'] + lines:
        if not ctx.replay:
            ctx.require('reach.' + name, 1, 'the workload must enter this anchored mechanism')
    if not ctx.replay:
        for name in ('__add__', '__rmul__', '__iadd__', 'invariant', '_count_atoms'):
            ctx.require('contract.' + name, 1, 'this contract must have been evaluated')
        ctx.require('cases.private', 1, 'private-table share of the workload')
        ctx.require('huge.forms', 1, 'whole-number multipliers with a product beyond 2**63')
        for name in ('mul.zero', 'mul.one', 'mul.numpy', 'iadd.aliased', 'leaf.dict', 'leaf.seq', 'leaf.str', 'leaf.atom', 'leaf.blank-string', 'copy.table-other', 'clone.deepcopy', 'clone.pickle', 'clone.copy', 'scribble'):
            ctx.require('prog.' + name, 1, 'workload feature demanded by the property quantifier')


def finish(ctx):
    _s['reach'].stop()
    _s['reach'].export(ctx)
    from ..gen.formulas import waive_unjudged, waive_dead
    for k, v in _s['stats'].items():
        ctx.count('contract.' + k, v)
    waive_dead(ctx, '_count_atoms', ['contract._count_atoms', 'reach.count_atoms.nested'], 'reach.Formula.mass')
    waive_dead(ctx, '_immutable', [], 'prog.leaf.seq')
    waive_dead(ctx, '_convert_to_hill_notation', [], 'prog.leaf.dict')
    waive_unjudged(ctx, 'contract._count_atoms', _s['stats']['_count_atoms'],
                   _s['stats']['_count_atoms.unrecognised_call'], 'the private formulas._count_atoms')


# ---------------------------------------------------------------- oracle
def _compare(ctx, f, want, where, quiet=False):
    """Compare atoms, mass, charge, mass fractions of formula *f* with the model atoms *want*
    (key -> Fraction).  Returns a list of problem strings."""
    from ..atoms import key as akey
    m0, me = _s['model'], _s['me']
    scale = _s['cur_scale']

    class m(object):      # masses of the table the case runs on (tabulated mass x the table's scale)
        @staticmethod
        def atom_mass(k, me):
            return (m0.iso[(k[0], k[1])][0] if k[1] else m0.el[k[0]][0]) * scale - k[2] * me
    problems = []
    atoms = f.atoms
    got = {}
    from ..atoms import lookup as _lookup
    for a, c in atoms.items():
        k = akey(a)
        got[k] = got.get(k, 0) + c
        # every atom of a formula is the one object a table serves for it (also after copy / deepcopy / pickle)
        if not any(_lookup(Tx, k) is a for Tx in _s['tables'].values()):
            problems.append('%s: the atom %r of the formula is not the object any table serves for (Z, A, charge) = %r'
                            % (where, a, k))
            break
    quiet or ctx.evaluated(what='atoms')
    for k in set(got) | set(want):
        w = float(want.get(k, 0))
        g = got.get(k, 0)
        if not (abs(g - w) <= 1e-12 * abs(w)):
            problems.append('%s: count of %r is %r, model gives %r' % (where, k, g, w))
            break
        if w:
            quiet or ctx.observe('count.relerr', abs(g - w) / abs(w))
    fl = dict((k, float(c)) for k, c in want.items())
    wmass = sum(c * m.atom_mass(k, me) for k, c in fl.items())
    quiet or ctx.evaluated(what='mass')
    if not ctx.close(f.mass, wmass, rel=1e-12, name=None if quiet else 'mass.relerr'):
        problems.append('%s: mass %r, model gives %r' % (where, f.mass, wmass))
    wq = sum(c * k[2] for k, c in fl.items())
    absq = sum(abs(c * k[2]) for k, c in fl.items())
    quiet or ctx.evaluated(what='charge')
    gq = f.charge
    if not (abs(gq - wq) <= 1e-12 * absq):
        problems.append('%s: charge %r, model gives %r' % (where, gq, wq))
    if wmass > 0:
        quiet or ctx.evaluated(what='mass_fraction')
        mf = f.mass_fraction
        gmf = {}
        for a, v in mf.items():
            gmf[akey(a)] = gmf.get(akey(a), 0) + v
        bad = None
        for k in set(gmf) | set(fl):
            w = fl.get(k, 0.) * m.atom_mass(k, me) / wmass
            if not ctx.close(gmf.get(k, 0.), w, rel=1e-12, abs_=1e-300, name=None if quiet else 'mass_fraction.relerr'):
                bad = '%s: mass fraction of %r is %r, model gives %r' % (where, k, gmf.get(k, 0.), w)
                break
        total = sum(mf.values())
        if bad is None and not (abs(total - 1) <= 1e-12):
            bad = '%s: mass fractions sum to %r' % (where, total)
        if bad:
            problems.append(bad)
    else:
        quiet or ctx.count('mass_fraction.skipped-zero-mass')
    return problems


def _features(ctx, st):
    op = st['op']
    if op in ('atom', 'str', 'dict', 'seq', 'empty'):
        ctx.count('prog.leaf.' + op)
        if op == 'empty' and st.get('how') in ('blank', 'parse'):
            ctx.count('prog.leaf.blank-string')
    elif op == 'mul':
        kind, v = st['n']
        if v == 0:
            ctx.count('prog.mul.zero')
        elif v == 1:
            ctx.count('prog.mul.one')
        if kind.startswith('n'):
            ctx.count('prog.mul.numpy')
        if kind in ('f', 'nf64') and v not in (0, 1):
            ctx.count('prog.mul.float')
    else:
        ctx.count('prog.' + op)
        if op == 'clone':
            ctx.count('prog.clone.' + st.get('how', 'deepcopy'))
        if op == 'copy' and st.get('table') and (st['table'] == 'same' or _s['cur_scale'] == 1.0):
            ctx.count('prog.copy.table-' + st['table'])


def _run(ctx, prog, T, quiet=False):
    """Execute *prog* in lock step with the shadow interpreter; returns a list of problem dicts
    {'kind', 'msg', 'step', ...}.  Stops at the first statement that shows a problem other than a
    shared list structure (which is recorded, and the program goes on)."""
    from ..gen.programs import RealMachine, ShadowMachine
    # formula(f, table=<another table>) is driven between the public and the unscaled private table only: should a
    # tree convert the copy to the other table (the operand left alone), its masses are the same there
    tabs = _s['tables']
    other = tabs['private'] if T is tabs['public'] else (tabs['public'] if T is tabs['private'] else None)
    real, sh = RealMachine(T, other), ShadowMachine()
    dict_structures = set()
    soft = []
    for idx, st in enumerate(prog['stmts']):
        problems = []
        pre = [_snap(v) for v in real.vars]
        ids_before = [id(v) for v in real.vars]
        try:
            kind, res, operands = real.step(st)
        except ContractBroken as exc:
            return [{'kind': 'contract', 'step': idx, 'contract': type(exc).__name__,
                     'msg': 'statement %d (%s): contract violated inside the library: %s'
                            % (idx, st['op'], _contract_text(exc))}]
        except Exception as exc:
            return [{'kind': 'exception', 'step': idx, 'exc_type': type(exc).__name__,
                     'msg': 'statement %d (%s) raised %s: %s' % (idx, st['op'], type(exc).__name__, str(exc)[:300])}]
        sh.step(st)
        if not quiet:
            _features(ctx, st)
        if st['op'] == 'dict' and isinstance(res.structure, list):
            dict_structures.add(id(res.structure))
        # operands of value-returning operators are unchanged and the result is a new object
        if kind == 'value':
            if not quiet:
                ctx.evaluated(what='operands-unchanged')
            for o in operands:
                j = ids_before.index(id(o))
                if _snap(o) != pre[j]:
                    problems.append({'kind': 'operand-changed', 'step': idx,
                                     'msg': 'statement %d (%s): operand v%d changed: (structure, density, name) was %r, is %r'
                                            % (idx, st['op'], j, pre[j][1:], _snap(o)[1:])})
                if res is o:
                    problems.append({'kind': 'result-is-operand', 'step': idx,
                                     'msg': 'statement %d (%s): the result is the operand object v%d itself' % (idx, st['op'], j)})
                shared = _lists_in(res.structure) & _lists_in(o.structure)
                if shared and res is not o:
                    problems.append({'kind': 'shared-list', 'step': idx, 'op': st['op'],
                                     'from_dict_leaf': bool(shared <= dict_structures),
                                     'msg': 'statement %d (%s): the result shares a mutable list structure with operand v%d (%r)'
                                            % (idx, st['op'], j, o.structure if len(repr(o.structure)) < 200 else '...')})
        elif kind == 'inplace':
            if not quiet:
                ctx.evaluated(what='iadd-operands')
            a, b = operands
            if res is not a:
                problems.append({'kind': 'iadd-new-object', 'step': idx,
                                 'msg': 'statement %d: f += g did not return f itself' % idx})
            if b is not a:
                j = ids_before.index(id(b))
                if _snap(b) != pre[j]:
                    problems.append({'kind': 'operand-changed', 'step': idx,
                                     'msg': 'statement %d: f += g changed g (v%d)' % (idx, j)})
            elif not quiet:
                ctx.count('prog.iadd.aliased')
            if not quiet and len(sh.aliases(st['a'])) > 1:
                ctx.count('prog.iadd.aliased')
        # object identity among variables follows the alias map
        for i in range(len(real.vars)):
            for j in sh.aliases(i):
                if real.vars[i] is not real.vars[j]:
                    problems.append({'kind': 'alias', 'step': idx,
                                     'msg': 'statement %d: v%d and v%d should be one object' % (idx, i, j)})
        # ... and only the alias map: a constructor or operator never hands back an object it handed out before
        if kind in ('leaf', 'value'):
            new = len(real.vars) - 1
            for j in range(new):
                if real.vars[j] is real.vars[new]:
                    problems.append({'kind': 'unexpected-alias', 'step': idx,
                                     'msg': 'statement %d (%s): the new formula v%d is the object already bound to v%d'
                                            % (idx, st['op'], new, j)})
                    break
        # every live variable against the shadow interpreter
        if not [q for q in problems if q['kind'] != 'shared-list']:
            for i, f in enumerate(real.vars):
                try:
                    ps = _compare(ctx, f, sh.atoms(i), 'after statement %d (%s), v%d' % (idx, st['op'], i), quiet)
                except ContractBroken as exc:
                    ps = ['after statement %d (%s), v%d: contract violated inside the library: %s'
                          % (idx, st['op'], i, _contract_text(exc))]
                if ps:
                    problems.append({'kind': 'value', 'step': idx, 'var': i, 'msg': ps[0], 'all': ps[:4]})
                    break
        # a shared list is recorded but does not stop the program: later statements are still compared
        soft.extend(q for q in problems if q['kind'] == 'shared-list')
        hard = [q for q in problems if q['kind'] != 'shared-list']
        if hard:
            return hard + soft
    return soft


def _sibling_without_dicts(prog):
    """The same program with every {atom: count} leaf given as a flat tuple sequence instead."""
    out = []
    for st in prog['stmts']:
        if st['op'] == 'dict':
            st = dict(st, op='seq', struct=[[n, k] for k, n in st['items']], tuples=True)
            st.pop('items')
        out.append(st)
    return {'stmts': out}


def check_program(ctx, case):
    from ..gen.programs import signature, loads
    tname = case.get('table', 'public')
    T = _s['tables'][tname]
    _s['cur_scale'] = _s['scale'][tname]
    ctx.count('cases.' + tname)
    prog = loads(case['prog'])   # JSON text of the program (see programs.dumps)
    problems = _run(ctx, prog, T)
    if problems:
        p = problems[0]
        detail = dict((k, v) for k, v in p.items() if k != 'msg')
        detail['kinds'] = sorted(set(q['kind'] for q in problems))
        detail['statement'] = prog['stmts'][p['step']]
        if detail['kinds'] == ['shared-list']:
            detail['from_dict_leaf'] = all(q.get('from_dict_leaf') for q in problems)
            detail['sibling_ok'] = not _run(ctx, _sibling_without_dicts(prog), T, quiet=True)
        ctx.violation(p['msg'], **detail)
    sig = signature(prog)
    if sig[0]:
        ctx.distinct_case(('prog',) + sig)


def check_atom_sweep(ctx, case):
    """formula(a), n*formula(a), formula(a) + n*formula(a) for every atom of one element."""
    from periodictable import formulas
    from ..atoms import lookup
    from ..gen.programs import num, frac
    tname = case.get('table', 'public')
    T = _s['tables'][tname]
    _s['cur_scale'] = _s['scale'][tname]
    ctx.count('cases.' + tname)
    Z = case['Z']
    el = T[Z]
    n, nf = num(case['n']), frac(case['n'])
    keys = [(Z, 0, 0)] + [(Z, 0, q) for q in el.ions]
    for A in el.isotopes:
        keys.append((Z, A, 0))
        keys.extend((Z, A, q) for q in el.ions)
    for k in keys:
        a = lookup(T, k)
        try:
            f = formulas.formula(a)
            g = n * f
            h = f + g
            problems = (_compare(ctx, f, {k: Fraction(1)}, 'formula(%r)' % (a,))
                        or _compare(ctx, g, {k: nf}, '%r*formula(%r)' % (n, a))
                        or _compare(ctx, h, {k: 1 + nf}, 'formula(%r) + %r*formula(%r)' % (a, n, a)))
        except ContractBroken as exc:
            problems = ['contract violated inside the library: %s' % _contract_text(exc)]
        if problems:
            ctx.violation(problems[0], key=list(k), problems=problems[:3])
        ctx.count('sweep.atoms')
        if k[2]:
            ctx.count('sweep.ions')
    ctx.distinct_case(('sweep', tname, Z))


def check_huge(ctx, case):
    """Whole-number multipliers on nested groups whose product passes 2**63 (Python ints, no numpy scalar anywhere):
    the counts are the exact integer products, whichever way the formula is built."""
    import random
    from periodictable import formulas
    from ..atoms import lookup, render
    tname = case.get('table', 'public')
    T = _s['tables'][tname]
    _s['cur_scale'] = _s['scale'][tname]
    ctx.count('cases.' + tname)
    rng = random.Random(case['seed'])
    keys = [tuple(k) for k in case['keys']]
    inner = [int(c) for c in case['inner']]
    mults = [int(m) for m in case['mults']]
    extra, nextra = tuple(case['extra']), int(case['nextra'])
    total = 1
    for m in mults:
        total *= m
    want = {}
    for k, c in zip(keys, inner):
        want[k] = want.get(k, 0) + Fraction(c * total)
    want[extra] = want.get(extra, 0) + Fraction(nextra)
    text = ''.join(render(T, k, rng) + (str(c) if c != 1 else '') for k, c in zip(keys, inner))
    for m in mults:
        text = '(' + text + ')' + str(m)
    text += render(T, extra, rng) + (str(nextra) if nextra != 1 else '')
    seq = [(c, lookup(T, k)) for k, c in zip(keys, inner)]
    for m in mults:
        seq = [(m, seq)]
    seq = seq + [(nextra, lookup(T, extra))]
    builds = [('formula(%r)' % text, lambda: formulas.formula(text, table=T)),
              ('formula(<nested (count, fragment) sequence>)', lambda: formulas.formula(seq))]

    def by_arithmetic():
        f = formulas.formula([(c, lookup(T, k)) for k, c in zip(keys, inner)])
        for m in mults:
            f = m * f
        return f + formulas.formula([(nextra, lookup(T, extra))])
    builds.append(('%s*formula(...) + ...' % '*'.join(str(m) for m in reversed(mults)), by_arithmetic))
    for label, build in builds:
        ctx.count('huge.forms')
        try:
            f = build()
            problems = _compare(ctx, f, want, label)
            if not problems:
                from ..atoms import key as akey
                for a, c in f.atoms.items():
                    w = want[akey(a)]
                    if isinstance(c, int) and c != w:
                        problems.append('%s: count of %r is the integer %d, the product of the multipliers gives %d'
                                        % (label, a, c, w))
        except ContractBroken as exc:
            problems = ['%s: contract violated inside the library: %s' % (label, _contract_text(exc))]
        if problems:
            ctx.violation(problems[0], product=str(total), mults=[str(m) for m in mults], problems=problems[:3])
    ctx.distinct_case(('huge', len(mults), len(str(total))))


CHECKS = {'program': check_program, 'atom_sweep': check_atom_sweep, 'huge': check_huge}


# ---------------------------------------------------------------- workload
def generate(ctx):
    from ..gen.programs import ProgramGen, dumps
    rng = ctx.rng
    i = 0
    for tname in ('public', 'private', 'private_scaled'):
        for Z in range(1, 119):
            if tname != 'public' and Z % (2 if ctx.thorough() else 6):
                i += 1
                continue
            if ctx.mine(i):
                n = rng.choice([['i', 2], ['i', 3], ['f', 0.5], ['f', 10 ** rng.uniform(-6, 6)], ['ni64', 7], ['nf64', 2.5], ['i', 0]])
                yield 'atom_sweep', {'Z': Z, 'table': tname, 'n': n}
            i += 1
    # whole-number multipliers whose product passes 2**63 (and 2**64, 1e21, 1e30)
    for _ in range(ctx.scale(12, 60)):
        nm = rng.choice([1, 2, 2, 3, 3, 4])
        target = 10 ** rng.uniform(18.5, 31)
        mults = [max(2, int(round(target ** (1.0 / nm) * rng.uniform(0.5, 2)))) for _ in range(nm)]
        if rng.random() < 0.4:
            mults = [10 ** len(str(m)) for m in mults]
        tname = rng.choice(['public', 'public', 'private', 'private_scaled'])
        pool = gens_pool(rng, _s['tables'][tname])
        yield 'huge', {'table': tname, 'keys': [list(k) for k in pool[:-1]], 'inner': [rng.choice([1, 2, 3, 4]) for _ in pool[:-1]],
                       'mults': [str(m) for m in mults], 'extra': list(pool[-1]), 'nextra': rng.choice([1, 2, 5]),
                       'seed': rng.randrange(1 << 30)}
    gens = dict((t, ProgramGen(T, rng, protocols=True)) for t, T in _s['tables'].items())
    for _ in range(ctx.scale(400, 15000)):
        r = rng.random()
        tname = 'private' if r < 0.1 else ('private_scaled' if r < 0.2 else 'public')
        yield 'program', {'table': tname, 'prog': dumps(gens[tname].program())}


def gens_pool(rng, T):
    """2-4 distinct atom keys of table T (neutral elements and isotopes, some ions)."""
    from ..gen.programs import ProgramGen
    g = ProgramGen(T, rng)
    pool = []
    while len(pool) < rng.randint(2, 4):
        k = tuple(g.random_key())
        if k not in pool and k[0] > 0:
            pool.append(k)
    return pool


def classify(rec):
    d = rec.get('detail') or {}
    if rec.get('check') == 'program' and d.get('kinds') == ['shared-list'] and d.get('from_dict_leaf') is True \
            and d.get('sibling_ok') is True:
        # formula({atom: count}) keeps the list built by _convert_to_hill_notation as its structure (the mechanism of
        # D21); copy(self) in n*f and formula(f) then hand that same list to the result
        return 'c02.result-shares-list-structure'
    return None
