"""C16 - D2O contrast matching agrees with direct substitution of labile hydrogen.

Oracle: the compound is rebuilt by the check itself with a fraction d of its
labile hydrogens (H[1]) turned into D and the rest into natural H, at the cell
volume of the original (density scaled by the ratio of masses computed from the
independent mass-table reader), and sent through periodictable.neutron_sld; the
solvent is the molecule H(2-2d) D(2d) O at the molar volume of water at
0.9982 g/cm3.  D2O_sld must equal the volume-fraction weighted mean of the two
(real and imaginary parts), D2O_match must be the fraction at which solute and
solvent agree, and fasta.Molecule must report the same numbers.
In-process monitor: a wrapper on formulas._isotope_substitution (the body of
Formula.replace; in a tree without that private function: on the public
Formula.replace itself) checks that every substitution keeps the cell volume and
the number of atoms.  It and the entry counters on the helpers nsf._D2O_slds /
nsf.mix_values are optional instrumentation (skipped, noted and waived through
anchor_missing.* when a tree does not have or does not use them).
"""
import math

RULE = ('one case per (compound, density route, call form, wavelength): D2O_sld on a 3x3 grid of (volume '
        'fraction, D2O fraction) incl. 0 and 1, D2O_match and the v in {0, 1/2, 1} spread at the match point; '
        'one case per molecule of every table of periodictable.fasta and per random fasta.Molecule / Sequence '
        '(sld, Dsld, D2Omatch, D2Osld grid, D2O_sld on its labile formula at several wavelengths).  Random '
        'compounds: 1-6 atom kinds (biological elements, any element with neutron data, isotopes incl. '
        'energy-dependent absorbers), 0..n labile H[1] (integer or fractional), natural H and D already '
        'present, density 0.05-20 (8 % of the keyword densities 1e-12..1e4) given as density=, natural_density=, '
        '"@x", "@xn" or on a Formula / dict.  Argument forms of the compound: string, string with a density tag AND '
        'a density keyword, dict, Formula object carrying the density (no keyword), Formula object without density + '
        'keyword, Formula object WITH its own density (from "@x", "@xn", density=, natural_density= or the '
        'one-element default; built from a string or a dict; optionally n*formula) + density= / natural_density= '
        'keyword of another value; name= / table= keywords, fractions 0 and 1 as ints; half of the Formula objects '
        'are used once more after the caller assigned them a new density, and every Formula object is compared '
        'with its state before the calls.  Private table: compounds (string, or Formula object built on that table; density by '
        'keyword or tag) sent through D2O_sld / D2O_match with table=<a private PeriodicTable initialised with mass, density and '
        'neutron data after the public neutron data was loaded>; judged by the same oracle and against the public-table call.  '
        'distinct = distinct (composition, density route, call form, wavelength) tuples; a case is non-trivial '
        'when the compound has atoms and non-zero density (gap / masked table entries are evaluated, not counted)')
TECHNIQUE = ('runtime monitoring: reference-model monitor (own isotope substitution at constant cell volume with '
             'independently read masses, then the documented neutron_sld), metamorphic relations (linearity in '
             'volume fraction, invariance at the match point, nsf vs fasta routes), postcondition wrapper on '
             'formulas._isotope_substitution, sys.monitoring reach counters')
LEVEL_TEXT = ('Random compounds and every molecule of the fasta tables are pushed through D2O_sld, D2O_match and the '
              'fasta.Molecule attributes and compared with a substitution the check performs itself; the tables are '
              'swept completely, compounds, fractions and wavelengths are sampled.'
              " Added in rounds 5-7: pure-solute points judged on the solute's own scale, refused keyword calls on the judged compound.")
LEVEL_NOTE = ('Trusted: periodictable.neutron_sld for a given formula and density (judged by C03/C04), the mass reader '
              'pvmon/ref/masses.py, N_A from periodictable.constants, numpy.')
SHARDS = {'quick': 4, 'thorough': 16}
TIMEOUT = {'quick': 300, 'thorough': 2400}
ASSUMPTIONS = [
    'periodictable.neutron_sld(formula, density, wavelength) is taken as correct for a formula the check builds '
    'itself (it is the subject of C03/C04); real and imaginary SLD are linear in composition at fixed volume',
    'the solvent is H2O and D2O at the same molar volume, that of natural water at 0.9982 g/cm3 (20 C)',
    'the natural density of a formula holding H[1] / D / other isotopes is the density it would have with every '
    'isotope replaced by the natural element (formula grammar documentation)',
    'incoherent SLD is not compared (the documentation says it does not mix linearly)',
    'when solute and solvent have the same dependence on the D2O fraction (|denominator| < 1e-6 of the SLD scale, '
    'e.g. water itself) no match point exists and nothing is demanded of D2O_match / D2Omatch',
    'atomic masses from the independent reader pvmon/ref/masses.py',
    'a density= / natural_density= keyword of D2O_sld / D2O_match ("passed to formulas.formula when parsing the '
    'compound") is the density of that call: it takes precedence over a density the Formula object or the formula '
    'text already carries; the two keywords are never given together; natural_density converts by the ratio of '
    'isotopic to natural mass; D2O_sld / D2O_match leave a Formula object passed in unchanged',
    'a private core.PeriodicTable given mass.init, density.init and nsf.init serves the same data as the public table: with '
    'table=<that table> ("passed to formulas.formula when parsing the compound") D2O_sld / D2O_match of a string, or of a '
    'Formula object built on that table, give the numbers of the public-table call (labile H[1] exchanged all the same)',
]

TOL = 1e-9
H1, HN, HD = (1, 1, 0), (1, 0, 0), (1, 2, 0)
WATER_DENSITY = 0.9982

_state = {}


# ------------------------------------------------------------------ setup / monitors
def setup(ctx):
    import periodictable as pt
    from periodictable import nsf, fasta, formulas
    from ..ref.masses import MassModel
    from ..statemon import Reach
    _state['mm'] = MassModel()
    _state['NA'] = pt.constants.avogadro_number
    _state['ctx'] = ctx
    from collections import Counter
    _state['unread'] = Counter()
    from ..ref.neutron import private, watch_entry
    reach = Reach()
    # public entry points
    watch_entry(ctx, reach, nsf.D2O_sld, 'nsf.D2O_sld')
    watch_entry(ctx, reach, nsf.D2O_match, 'nsf.D2O_match')
    watch_entry(ctx, reach, getattr(fasta, 'D2Omatch', None), 'fasta.D2Omatch')
    watch_entry(ctx, reach, fasta.Molecule.D2Osld, 'Molecule.D2Osld')
    watch_entry(ctx, reach, fasta.Molecule.__init__, 'Molecule.__init__', requirements=[])
    # helpers behind them (private, or in no __all__ / documentation): optional evidence
    watch_entry(ctx, reach, private(ctx, nsf, '_D2O_slds', ['reach.nsf._D2O_slds']), 'nsf._D2O_slds')
    watch_entry(ctx, reach, private(ctx, nsf, 'mix_values', ['reach.nsf.mix_values']), 'nsf.mix_values')
    _attach_replace_contract(ctx, reach, formulas)
    reach.start()
    _state['reach'] = reach
    # molecules of the fasta tables: every module-level dict of Molecule objects
    tables = {}
    for name, obj in sorted(vars(fasta).items()):
        if isinstance(obj, dict) and obj and all(isinstance(v, fasta.Molecule) for v in obj.values()) \
                and name != 'CODE_TABLES' and not name.startswith('_'):      # public data tables only
            tables[name] = obj
    _state['tables'] = tables
    # atom pools
    bio = [(6, 0), (7, 0), (8, 0), (16, 0), (15, 0), (11, 0), (17, 0), (19, 0), (20, 0), (12, 0), (14, 0),
           (6, 13), (7, 15), (8, 18), (26, 0), (30, 0), (34, 0)]
    anyel = [(el.number, 0) for el in pt.elements if el.number > 1 and el.neutron.has_sld()]
    special = [(3, 6), (5, 10), (5, 0), (48, 0), (48, 113), (64, 0), (64, 155), (64, 157), (62, 149), (62, 0),
               (66, 164), (71, 176), (1, 3), (2, 3), (28, 58), (28, 62)]
    special = [(z, a) for z, a in special
               if (pt.elements[z][a] if a else pt.elements[z]).neutron.b_c is not None]
    _state['pools'] = (bio, anyel, special)
    # a private table with mass, density and neutron data, set up AFTER the public neutron data was touched
    if 'private' not in _state:
        from periodictable import core, mass as mass_mod, density as density_mod
        pt.elements.H.neutron.b_c, pt.elements.H.mass, pt.elements.H.density
        T = core.PeriodicTable('c16_private_%d' % ctx.shard)
        mass_mod.init(T)
        density_mod.init(T)
        nsf.init(T)
        _state['private'] = T


def _attach_replace_contract(ctx, reach, formulas):
    """Postcondition "a substitution keeps the cell volume and the number of atoms" on the body of Formula.replace.
    Its PRIVATE seat formulas._isotope_substitution is optional; in a tree without it the same postcondition is put
    on the public method Formula.replace(source, target, portion=1).  Calls whose arguments cannot be read as
    (compound, source, target, portion) are passed through un-judged and counted."""
    from ..ref.neutron import private, tolerant, watch_entry

    def judged(compound, source, target, portion, _call):
        before = None
        try:
            if compound.density:
                before = (_mass_of_formula(compound), compound.density, sum(compound.atoms.values()))
        except Exception:
            before = None
        result = _call()
        if before is not None:
            _replace_postcondition(before, result, source, target, portion)
        return result

    if getattr(formulas, '_pvmon_c16_replace', False):
        return
    formulas._pvmon_c16_replace = True
    original = private(ctx, formulas, '_isotope_substitution', ['reach.formulas._isotope_substitution'])
    if original is not None:
        watch_entry(ctx, reach, original, 'formulas._isotope_substitution')
        formulas._isotope_substitution = tolerant(original, ('compound', 'source', 'target', 'portion'), judged,
                                                  _state['unread'], 'contract.replace_postcondition')
        _state['replace_seat'] = 'formulas._isotope_substitution'
        return
    method = getattr(formulas.Formula, 'replace', None)
    if method is None:
        from ..ref.neutron import anchor_missing
        anchor_missing(ctx, 'Formula.replace', ['contract.replace_postcondition'])
        _state['replace_seat'] = None
        return
    formulas.Formula.replace = tolerant(method, ('self', 'source', 'target', 'portion'), judged, _state['unread'],
                                        'contract.replace_postcondition')
    _state['replace_seat'] = 'Formula.replace'
    ctx.note('replace() postcondition attached to the public method Formula.replace')


def _replace_postcondition(before, result, source, target, portion):
    ctx = _state['ctx']
    m0, rho0, n0 = before
    ctx.count('contract.replace_postcondition')
    ctx.evaluated(what='replace-keeps-volume')
    try:
        m1, rho1, n1 = _mass_of_formula(result), result.density, sum(result.atoms.values())
    except Exception as exc:
        ctx.violation('replace(%s -> %s, %r): result cannot be inspected: %r' % (source, target, portion, exc),
                      field='replace')
        return
    if not rho1 or not ctx.close(m1 / rho1, m0 / rho0, rel=1e-11, name='replace.volume.relerr'):
        ctx.violation('replace(%s -> %s, portion %r) changed the cell volume: mass/density %r -> %r'
                      % (source, target, portion, m0 / rho0, (m1 / rho1) if rho1 else None),
                      field='replace-volume', portion=portion)
    if not ctx.close(n1, n0, rel=1e-11):
        ctx.violation('replace(%s -> %s, portion %r) changed the number of atoms: %r -> %r'
                      % (source, target, portion, n0, n1), field='replace-count', portion=portion)


def finish(ctx):
    reach = _state.get('reach')
    if reach:
        reach.stop()
        reach.export(ctx)
    # helpers behind the public entry points: evidence only when this tree does not go through them
    from ..ref.neutron import anchor_missing, waive_if_bypassed
    for name, v in _state.get('unread', {}).items():
        ctx.count(name, v)
    for label in ('nsf._D2O_slds', 'nsf.mix_values', 'formulas._isotope_substitution'):
        waive_if_bypassed(ctx, 'reach.' + label, 'reach.nsf.D2O_sld', 'entry counter of the helper %s' % label)
    waive_if_bypassed(ctx, 'reach.fasta.D2Omatch', 'reach.Molecule.D2Osld', 'entry counter of fasta.D2Omatch (called by Molecule.__init__ on the pinned tree)')
    unread = ctx.counters.get('contract.replace_postcondition.unrecognised_call', 0)
    if unread and not ctx.counters.get('contract.replace_postcondition', 0):
        anchor_missing(ctx, 'replace() postcondition (seat: %s)' % _state.get('replace_seat'),
                       ['contract.replace_postcondition'],
                       why='met %d calls whose arguments it does not recognise and none it does' % unread)
    else:
        waive_if_bypassed(ctx, 'contract.replace_postcondition', 'reach.nsf.D2O_sld',
                          'replace() postcondition (seat: %s)' % _state.get('replace_seat'))
    for label in ('nsf._D2O_slds', 'nsf.mix_values', 'nsf.D2O_sld', 'nsf.D2O_match', 'fasta.D2Omatch',
                  'Molecule.D2Osld', 'formulas._isotope_substitution'):
        ctx.require('reach.' + label, 10, 'the workload must reach %s' % label)
    ctx.require('contract.replace_postcondition', 100, 'the replace() postcondition must have been evaluated')
    ctx.require('eval.table-molecule', len(_state.get('table_keys', [])) or 1,
                'every molecule of the fasta tables must be evaluated')
    ctx.require('labile.zero', 5, 'compounds without labile hydrogen must be covered')
    ctx.require('labile.some', 5, 'compounds with labile hydrogen must be covered')
    ctx.require('has.D', 5, 'compounds already holding deuterium must be covered')
    for arg in ('string', 'string+keyword', 'dict+keyword', 'formula', 'formula[None]+density',
                'formula[None]+natural_density', 'formula[default]+density', 'formula[default]+natural_density',
                'string[@]+density', 'string[@n]+natural_density'):
        ctx.require('arg.' + arg, 2, 'argument form %s of D2O_sld / D2O_match not exercised' % arg)
    for o in ('@', '@n', 'density', 'natural_density'):
        for r in ('density', 'natural_density'):
            ctx.require('arg.formula[%s]+%s' % (o, r), 5,
                        'Formula object carrying a density (%s) with the %s= keyword not exercised' % (o, r))
    ctx.require('arg.scaled_formula_object', 5, 'n*formula objects not exercised')
    ctx.require('arg.formula_object_density_reassigned', 20, 'no Formula object used again after a new density was assigned')
    ctx.require('density.extreme', 10, 'no very small / very large density')
    for form in ('string', 'formula'):
        ctx.require('arg.private_table.' + form, 2, 'table=<private table> with the compound as %s not exercised' % form)
    ctx.require('private_table.labile.some', 5, 'table=<private table> never met a compound with labile hydrogen')


# ------------------------------------------------------------------ model helpers
def _mass_key(k, labile_as=None):
    mm = _state['mm']
    if labile_as is not None and k == H1:
        k = labile_as
    Z, A, _q = k
    return mm.iso[(Z, A)][0] if A else mm.el[Z][0]


def _mass(atoms, labile_as=None):
    return math.fsum(n * _mass_key(k, labile_as) for k, n in atoms.items())


def _natural_mass(atoms):
    mm = _state['mm']
    return math.fsum(n * mm.el[k[0]][0] for k, n in atoms.items())


def _keys_of(f):
    from .. import atoms as A
    out = {}
    for a, n in f.atoms.items():
        k = A.key(a)
        out[k] = out.get(k, 0) + n
    return out


def _mass_of_formula(f):
    keys = _keys_of(f)
    mm = _state['mm']
    import periodictable as pt
    me = pt.constants.electron_mass
    return math.fsum(n * mm.atom_mass(k, me) for k, n in keys.items())


def _lib_atoms(atoms):
    import periodictable as pt
    out = {}
    for (Z, A, _q), n in atoms.items():
        a = pt.elements[Z][A] if A else pt.elements[Z]
        out[a] = out.get(a, 0) + n
    return out


def _substituted(atoms, d):
    """fraction d of H[1] -> D, the rest -> natural H"""
    sub = {k: n for k, n in atoms.items() if k != H1}
    nl = atoms.get(H1, 0)
    if nl:
        if d != 0:
            sub[HD] = sub.get(HD, 0) + nl * d
        if d != 1:
            sub[HN] = sub.get(HN, 0) + nl * (1 - d)
    return {k: n for k, n in sub.items() if n != 0}


def _wl_kw(case):
    import numpy as np
    kw = {}
    if case.get('wavelength') is not None:
        w = case['wavelength']
        kw['wavelength'] = np.array(w, float) if isinstance(w, list) else w
    if case.get('energy') is not None:
        kw['energy'] = case['energy']
    return kw


def _sld2(atoms, density, wlkw):
    """(real, imag) of the library's neutron_sld for a formula built here."""
    import numpy as np
    import periodictable as pt
    if not atoms or not density:
        return np.float64(0.0), np.float64(0.0)
    # {atom: count} + density=: the plainest documented call; no Formula object that could carry a density of its
    # own (a one-element formula would) takes part in the oracle
    res = pt.neutron_sld(_lib_atoms(atoms), density=density, **wlkw)
    return np.asarray(res[0], float), np.asarray(res[1], float)


def _solvent(d, wlkw):
    atoms = {}
    if d != 1:
        atoms[HN] = 2 * (1 - d)
    if d != 0:
        atoms[HD] = 2 * d
    atoms[(8, 0, 0)] = 1
    rho = WATER_DENSITY * _mass(atoms) / _mass({HN: 2, (8, 0, 0): 1})
    return _sld2(atoms, rho, wlkw)


class Model(object):
    """Reference SLDs of one compound (atoms by key, density of the labile formula)."""

    def __init__(self, atoms, density, wlkw):
        self.atoms, self.rho, self.wlkw = atoms, density, wlkw
        self.m0 = _mass(atoms)
        self.cache = {}
        self.corner = {(1, 0): self.solute(0), (1, 1): self.solute(1),
                       (0, 0): self.solvent(0), (0, 1): self.solvent(1)}
        import numpy as np
        self.scale = [max(float(np.max(np.abs(c[j]))) for c in self.corner.values()) for j in (0, 1)]

    def solute(self, d):
        if ('u', d) not in self.cache:
            sub = _substituted(self.atoms, d)
            rho = self.rho * _mass(sub) / self.m0 if self.m0 else 0.0
            self.cache[('u', d)] = _sld2(sub, rho, self.wlkw)
        return self.cache[('u', d)]

    def solvent(self, d):
        if ('v', d) not in self.cache:
            self.cache[('v', d)] = _solvent(d, self.wlkw)
        return self.cache[('v', d)]

    def solution(self, v, d):
        u, s = self.solute(d), self.solvent(d)
        return tuple(v * u[j] + (1 - v) * s[j] for j in (0, 1))

    def match(self):
        """(d*, sld at d*, conditioning scale/|den|) from the four corners (real parts), or None if degenerate."""
        import numpy as np
        Hs, Ds = self.corner[(1, 0)][0], self.corner[(1, 1)][0]
        W0, W1 = self.corner[(0, 0)][0], self.corner[(0, 1)][0]
        den = Ds - Hs + W0 - W1
        scale = max(self.scale[0], 1e-300)
        if float(np.min(np.abs(den))) < 1e-6 * scale:
            return None
        dstar = (W0 - Hs) / den
        return dstar, Hs + dstar * (Ds - Hs), scale / float(np.min(np.abs(den)))


def _agree(ctx, got, want, scale, name, factor=1.0):
    """|got - want| <= TOL * factor * scale, elementwise; records the worst error relative to scale."""
    import numpy as np
    g, w = np.asarray(got, float), np.asarray(want, float)
    if g.shape != w.shape:
        try:
            g, w = np.broadcast_arrays(g, w)
        except ValueError:
            return False
    if np.any(np.isnan(g) != np.isnan(w)):
        return False
    err = np.nan_to_num(np.abs(g - w), nan=0.0)
    worst = float(np.max(err)) if err.size else 0.0
    s = max(scale, 1e-300)
    ctx.observe(name, worst / s / factor)
    return worst <= TOL * factor * s


# ------------------------------------------------------------------ case generation
def _count(rng):
    r = rng.random()
    if r < 0.6:
        return float(rng.randint(1, 40)), None
    x = 10 ** rng.uniform(-1.5, 1.7)
    text = '%.4g' % x
    return float(text), text


def _spell(k, rng):
    import periodictable as pt
    Z, A, _q = k
    if Z == 1 and A == 2:
        return 'D' if rng.random() < 0.8 else 'H[2]'
    if Z == 1 and A == 3:
        return 'T' if rng.random() < 0.5 else 'H[3]'
    return pt.elements[Z].symbol + ('[%d]' % A if A else '')


def _compound_case(ctx):
    rng = ctx.rng
    bio, anyel, special = _state['pools']
    parts = []       # [Z, A, count, count text or None] in written order
    lone = rng.random() < 0.07       # one kind of atom only: a Formula object then has the element's density
    for _ in range(1 if lone else rng.randint(1, 5)):
        r = rng.random()
        z, a = rng.choice(bio) if r < 0.7 else rng.choice(anyel) if r < 0.9 else rng.choice(special)
        c, t = _count(rng)
        parts.append([z, a, c, t])
    if rng.random() < 0.6 and not lone:
        c, t = _count(rng)
        parts.insert(rng.randint(0, len(parts)), [1, 0, c, t])
    if rng.random() < 0.35 and not lone:
        c, t = _count(rng)
        parts.insert(rng.randint(0, len(parts)), [1, 2, c, t])
    r = rng.random()
    if lone and r < 0.3:
        parts = [[1, 1, float(rng.choice([1, 2, 4])), None]]           # nothing but labile hydrogen
    elif r < 0.7 and not lone:
        nparts = 1 if rng.random() < 0.8 else 2
        for _ in range(nparts):
            c, t = _count(rng) if rng.random() < 0.3 else (float(rng.choice([1, 1, 2, 3, 4, 6, 10, 25])), None)
            parts.insert(rng.randint(0, len(parts)), [1, 1, c, t])
    text = ''
    for z, a, c, t in parts:
        sym = _spell((z, a, 0), rng)
        if t is None:
            t = '' if (c == 1 and rng.random() < 0.7) else '%d' % c
        text += sym + t
    dens = float('%.5g' % (10 ** rng.uniform(-1.3, 1.3)))
    single = len({(z, a) for z, a, _c, _t in parts}) == 1
    form = rng.choices(['string', 'formula', 'dict'], [0.2, 0.7, 0.1] if single else [0.5, 0.4, 0.1])[0]
    own = None
    r = rng.random()
    if form == 'dict':
        route = rng.choice(['density', 'natural_density'])
    elif form == 'string':
        route = rng.choice(['density', 'natural_density', '@', '@n'])
        if r < 0.12:
            # a density tag in the text AND a keyword: the explicit keyword is the density of the call
            own = {'route': rng.choice(['@', '@n'])}
            route = rng.choice(['density', 'natural_density'])
    elif r < 0.3:
        route = rng.choice(['density', 'natural_density', '@', '@n'])     # carried by the object, no keyword
    else:
        # a Formula OBJECT (without density / with its own density) AND a density keyword in the call
        route = rng.choice(['density', 'natural_density'] if single else ['density', 'natural_density', 'natural_density'])
        if r < 0.45 and not single:
            own = {'route': None}
        else:
            own = {'route': rng.choice(['@', '@n', 'density', 'natural_density']
                                       + (['default', 'default', 'default', 'default'] if single else []))}
        own['build'] = 'dict' if own['route'] not in ('@', '@n') and rng.random() < 0.25 else 'string'
        if rng.random() < 0.2:
            own['scale'] = rng.choice([2, 3, 0.5, 1000, 0.001, 1])      # the object is n*formula(...)
    if own is not None and own['route'] not in (None, 'default'):
        # the density the object / the text carries differs from the one asked for in the call
        own['density'] = float('%.5g' % (10 ** rng.uniform(-1.3, 1.3)))
    if route in ('density', 'natural_density') and rng.random() < 0.08:
        dens = float('%.5g' % (10 ** rng.uniform(-12, 4)))               # residual gas .. neutron-star crust
    case = {'kind': 'compound', 'parts': [[z, a, c] for z, a, c, _t in parts], 'text': text,
            'density': dens, 'route': route, 'form': form,
            'positional': rng.random() < 0.5}
    if own is not None:
        case['own'] = own
    if form == 'formula' and rng.random() < 0.5:
        # afterwards the caller assigns another density to his object and asks again, without keyword
        case['reassign'] = float('%.5g' % (10 ** rng.uniform(-1.3, 1.3)))
    if rng.random() < 0.3:
        case['int_fractions'] = True         # 0 and 1 of the grid passed as Python ints
    if rng.random() < 0.1:
        case['extra_kw'] = rng.choice(['name', 'table', 'name+table'])
    _add_wavelength(case, rng)
    ds = [0.0, 1.0, float('%.4g' % rng.random())]
    vs = [0.0, 1.0, rng.choice([0.5, float('%.4g' % rng.random())])]
    case['grid'] = [[v, d] for v in vs for d in ds]
    return case


def _private_case(ctx):
    """A compound case for the private table: string, or Formula object built on that table; the density by
    keyword or by tag; no second density, no other extras."""
    rng = ctx.rng
    c = _compound_case(ctx)
    for name in ('own', 'reassign', 'extra_kw'):
        c.pop(name, None)
    c['kind'] = 'private'
    c['form'] = 'string' if rng.random() < 0.65 else 'formula'
    d, v = c['grid'][2][1], c['grid'][8][0]
    c['grid'] = [[1.0, d], [v, d], [1.0, 1.0], [0.0, 1.0]]
    return c


def _add_wavelength(case, rng):
    r = rng.random()
    if r < 0.15:
        pass                         # library default wavelength
    elif r < 0.80:
        case['wavelength'] = float('%.5g' % (10 ** rng.uniform(-1.0, 1.5)))
    elif r < 0.90:
        case['energy'] = float('%.5g' % (10 ** rng.uniform(-1.0, 3.0)))
    else:
        n = rng.choice([1, 2, 4])
        case['wavelength'] = [float('%.5g' % (10 ** rng.uniform(-1.0, 1.5))) for _ in range(n)]


def _molecule_case(ctx):
    rng = ctx.rng
    c = _compound_case(ctx)
    while any(z == 1 and a == 3 for z, a, _c in c['parts']):
        c = _compound_case(ctx)      # fasta.Molecule re-reads T as labile hydrogen (deprecated spelling)
    case = {'kind': 'molecule', 'parts': c['parts'], 'text': c['text'], 'charge': rng.choice([0, 0, 1, -1, 2])}
    if rng.random() < 0.6:
        # cell volume of a plausible density
        case['cell_volume'] = float('%.5g' % (10 ** rng.uniform(1.0, 3.5)))
    else:
        case['density'] = c['density']
    vs = [0.0, 1.0, float('%.4g' % rng.random())]
    ds = [0.0, 1.0, float('%.4g' % rng.random())]
    case['grid'] = [[v, d] for v in vs for d in ds]
    case['wavelengths'] = [float('%.5g' % (10 ** rng.uniform(-1.0, 1.5)))]
    return case


def _sequence_case(ctx):
    from periodictable import fasta
    rng = ctx.rng
    typ = rng.choice(['aa', 'dna', 'rna'])
    codes = sorted(fasta.CODE_TABLES[typ])
    L = rng.choice([1, 2, 5, 20, 80])
    raw = ''.join(rng.choice(codes) for _ in range(L))
    vs = [0.0, 1.0, float('%.4g' % rng.random())]
    ds = [0.0, 1.0, float('%.4g' % rng.random())]
    return {'kind': 'sequence', 'type': typ, 'raw': raw, 'grid': [[v, d] for v in vs for d in ds],
            'wavelengths': [float('%.5g' % (10 ** rng.uniform(-1.0, 1.5)))]}


def generate(ctx):
    i = 0
    keys = []
    for tname, table in sorted(_state['tables'].items()):
        for key in sorted(table):
            keys.append((tname, key))
    _state['table_keys'] = keys
    for tname, key in keys:
        if ctx.mine(i):
            rng = ctx.rng
            vs = [0.0, 1.0, 0.5, float('%.4g' % rng.random())]
            ds = [0.0, 1.0, 0.3, float('%.4g' % rng.random())]
            yield 'molecule', {'kind': 'table', 'table': tname, 'key': key,
                               'grid': [[v, d] for v in vs for d in ds],
                               'wavelengths': [0.5, 1.798, 4.75, float('%.5g' % (10 ** rng.uniform(-1.0, 1.5)))]}
        i += 1
    for _ in range(ctx.scale(400, 1500)):
        yield 'compound', _compound_case(ctx)
    for _ in range(ctx.scale(100, 400)):
        yield 'molecule', _molecule_case(ctx)
    for _ in range(ctx.scale(60, 220)):
        yield 'private', _private_case(ctx)
    for _ in range(ctx.scale(40, 150)):
        yield 'molecule', _sequence_case(ctx)


# ------------------------------------------------------------------ checks
def _denote(parts):
    atoms = {}
    for z, a, c in parts:
        k = (z, a, 0)
        atoms[k] = atoms.get(k, 0) + c
    return atoms


def _model_density(atoms, value, route):
    """density of the labile formula for the way it was specified"""
    if route in ('density', '@'):
        return value
    return value * _mass(atoms) / _natural_mass(atoms)


def _library_compound(case, atoms, table=None):
    """(compound argument, extra keywords) as the case prescribes; a Formula object is built on *table*
    (cases without a second density only) when one is given."""
    import periodictable as pt
    text, route, form, dens = case['text'], case['route'], case['form'], case['density']
    kw = {}
    own = case.get('own')
    if own is not None:
        # the call names the density by keyword; the text / the object may carry another one
        kw[route] = dens
        oroute, okw, s = own['route'], {}, text
        if oroute == '@':
            s = '%s@%r' % (text, own['density'])
        elif oroute == '@n':
            s = '%s@%rn' % (text, own['density'])
        elif oroute in ('density', 'natural_density'):
            okw[oroute] = own['density']
        if form == 'string':
            return s, kw
        f = pt.formula(_lib_atoms(atoms) if own.get('build') == 'dict' else s, **okw)
        if 'scale' in own:
            f = own['scale'] * f
        return f, kw
    if form == 'dict':
        comp = _lib_atoms(atoms)
        kw[route] = dens
        return comp, kw
    if route == '@':
        s = '%s@%r' % (text, dens)
    elif route == '@n':
        s = '%s@%rn' % (text, dens)
    else:
        s = text
        kw[route] = dens
    if form == 'formula':
        if table is not None:
            return pt.formula(s, table=table, **kw), {}
        return pt.formula(s, **kw), {}
    return s, kw


def _check_grid(ctx, call, model, grid, what, **detail):
    """call(v, d) -> (real, imag, ...) of the library for every grid point vs the model."""
    ok = True
    for v, d in grid:
        got = call(v, d)
        want = model.solution(v, d)
        for j, part in ((0, 'real'), (1, 'imag')):
            ctx.evaluated(what='D2O_sld.' + part + ('.v1' if v == 1 else '.v0' if v == 0 else '.mid'))
            if v == 1:
                # pure solute: the answer is the substituted compound itself, whatever the solvent is - judged
                # against the solute's own magnitude (a residual-gas solute of 1e-12 g/cm^3 must not drown in the
                # rounding of a solvent twelve orders of magnitude denser)
                import numpy as np
                scale = max(float(np.max(np.abs(model.solute(dd)[j]))) for dd in (0, 1, d))
                good = _agree(ctx, got[j], want[j], scale, 'D2O_sld.%s.v1.err_over_solute' % part)
            else:
                good = _agree(ctx, got[j], want[j], model.scale[j], 'D2O_sld.%s.err_over_scale' % part)
            if not good:
                where = ('solute with fraction d of H[1] -> D at constant volume' if v == 1 else
                         'H2O/D2O solvent mixture' if v == 0 else 'volume-fraction weighted mean')
                ctx.violation('%s: %s SLD at volume fraction %r, D2O fraction %r is %r, %s gives %r'
                              % (what, part, v, d, got[j], where, want[j]),
                              field='D2O_sld.' + part, v=v, d=d, vclass=(1 if v == 1 else 0 if v == 0 else 'mid'),
                              **detail)
                ok = False
    return ok


def _check_match(ctx, ds, sld, sld_at, model, what, **detail):
    """ds: reported match fraction; sld: reported SLD at the match point (or None);
    sld_at(v, d) -> real SLD of the solution through the library."""
    import numpy as np
    m = model.match()
    if m is None:
        ctx.count('match.degenerate')
        return
    dstar, sld_star, cond = m
    ctx.count('match.outside_0_1' if (np.any(np.asarray(dstar) < 0) or np.any(np.asarray(dstar) > 1))
              else 'match.inside_0_1')
    big = max(1.0, float(np.max(np.abs(dstar))))
    ctx.evaluated(what='match.fraction')
    if not _agree(ctx, ds, dstar, big, 'match.fraction.err_over_cond', factor=max(1.0, cond)):
        ctx.violation('%s: match fraction %r, solute and solvent SLD agree at %r' % (what, ds, dstar),
                      field='match.fraction', **detail)
    if sld_at is not None:
        vals = [np.asarray(sld_at(v, ds), float) for v in (0.0, 0.5, 1.0)]
        spread = float(np.max(np.max(vals, axis=0) - np.min(vals, axis=0)))
        ctx.evaluated(what='match.spread')
        ctx.observe('match.spread_over_scale', spread / (model.scale[0] * big))
        if spread > TOL * model.scale[0] * big:
            ctx.violation('%s: at the reported match fraction %r the real SLD for v = 0, 1/2, 1 is %r'
                          % (what, ds, [x.tolist() for x in vals]), field='match.spread', **detail)
        if sld is not None:
            ctx.evaluated(what='match.sld')
            if not _agree(ctx, sld, vals[2], model.scale[0] * big, 'match.sld.err_over_scale') or \
                    not _agree(ctx, sld, sld_star, model.scale[0] * big, 'match.sld.err_over_scale',
                               factor=max(1.0, cond)):
                ctx.violation('%s: reported SLD at the match point %r, solution SLD there %r (model %r)'
                              % (what, sld, vals[2].tolist(), np.asarray(sld_star).tolist()),
                              field='match.sld', **detail)


def _features(ctx, atoms, rho):
    nl = atoms.get(H1, 0)
    ctx.count('labile.some' if nl else 'labile.zero')
    if HD in atoms:
        ctx.count('has.D')
    if HN in atoms:
        ctx.count('has.natural_H')
    return bool(atoms) and bool(rho)


def check_compound(ctx, case):
    from periodictable import nsf
    atoms = _denote(case['parts'])
    rho = _model_density(atoms, case['density'], case['route'])
    wlkw = _wl_kw(case)
    model = Model(atoms, rho, wlkw)
    comp, kw = _library_compound(case, atoms)
    kw.update(wlkw)
    own = case.get('own')
    if 'name' in case.get('extra_kw', ''):
        kw['name'] = 'sample'
    if 'table' in case.get('extra_kw', ''):
        import periodictable as pt
        kw['table'] = pt.elements
    if own is None:
        what = 'D2O_sld(%s%s)' % (case['text'], ', ' + case['route'] + '=%r' % case['density'])
        arg = case['form'] + ('+keyword' if case['form'] != 'formula' and case['route'] in ('density', 'natural_density')
                              else '')
    else:
        carried = ('no density' if own['route'] is None else 'the density of its only element' if own['route'] == 'default'
                   else '%s %r' % (own['route'], own['density']))
        what = ('D2O_sld(%s%s carrying %s, %s=%r)'
                % ('%r*' % own['scale'] if 'scale' in own else '', 'string %s' % case['text'] if case['form'] == 'string'
                   else 'Formula object of %s' % case['text'], carried, case['route'], case['density']))
        arg = '%s[%s]+%s' % (case['form'], own['route'], case['route'])
        if 'scale' in own:
            ctx.count('arg.scaled_formula_object')
    ctx.count('arg.' + arg)
    if case['density'] < 1e-3 or case['density'] > 100:
        ctx.count('density.extreme')
    snapshot = (comp.structure, comp.density, comp.name) if hasattr(comp, 'structure') else None
    if _features(ctx, atoms, rho):
        ctx.distinct_case((tuple(sorted(atoms.items())), case['route'], case['form'], case['density'],
                           repr(case.get('wavelength')), case.get('energy')))
    ctx.count('form.' + case['form'])
    ctx.count('route.' + case['route'])
    ctx.count('wl.' + ('vector' if isinstance(case.get('wavelength'), list) else 'energy' if 'energy' in case
                       else 'default' if 'wavelength' not in case else 'scalar'))

    def call(v, d):
        if case.get('int_fractions'):
            v = int(v) if v in (0, 1) else v
            d = int(d) if d in (0, 1) else d
        if case['positional']:
            return nsf.D2O_sld(comp, v, d, **dict(kw))
        return nsf.D2O_sld(comp, volume_fraction=v, D2O_fraction=d, **dict(kw))
    feat = dict(nl=atoms.get(H1, 0), hasD=HD in atoms, route=case['route'], form=case['form'], arg=arg)
    if len(case['text']) % 3 == 0:
        # requests the library refuses for this very compound (a keyword of the other function, an unknown one),
        # caught by the caller, before the judged ones
        for bad in (lambda: nsf.D2O_match(comp, volume_fraction=0.1, **dict(kw)),
                    lambda: nsf.D2O_sld(comp, D2O_fraction=0.3, fraction=0.2, **dict(kw)),
                    lambda: nsf.D2O_sld(comp, 0.5, 0.5, 0.5, **dict(kw))):
            try:
                bad()
                ctx.count('refused_call.answered')
            except Exception:
                ctx.count('refused_call.refused')
    _check_grid(ctx, call, model, case['grid'], what, **feat)
    # defaults: volume_fraction=1, D2O_fraction=0
    got = nsf.D2O_sld(comp, **dict(kw))
    want = model.solution(1.0, 0.0)
    ctx.evaluated(2, 'D2O_sld.defaults')
    if not (_agree(ctx, got[0], want[0], model.scale[0], 'D2O_sld.real.err_over_scale')
            and _agree(ctx, got[1], want[1], model.scale[1], 'D2O_sld.imag.err_over_scale')):
        ctx.violation('%s with default fractions is %r, the natural-H form gives %r' % (what, got[:2], want),
                      field='D2O_sld.defaults', **feat)
    ds, sld = nsf.D2O_match(comp, **dict(kw))
    _check_match(ctx, ds, sld, lambda v, d: nsf.D2O_sld(comp, v, d, **dict(kw))[0], model,
                 'D2O_match' + what[len('D2O_sld'):], **feat)
    if snapshot is not None:
        # the caller's Formula object is an input: the same object must serve the next call as it served this one
        ctx.evaluated(what='argument-unchanged')
        now = (comp.structure, comp.density, comp.name)
        if now != snapshot:
            ctx.violation('%s: the Formula object passed in was modified: (structure, density, name) %r -> %r'
                          % (what, snapshot, now), field='argument-modified', **feat)
    if snapshot is not None and case.get('reassign'):
        # the same object again after the caller gave it another density: nothing computed before may stick to it
        rho2 = case['reassign']
        comp.density = rho2
        model2 = Model(atoms, rho2, wlkw)
        v, d = 1.0, case['grid'][2][1]
        got = nsf.D2O_sld(comp, v, d, **wlkw)
        want = model2.solution(v, d)
        ctx.count('arg.formula_object_density_reassigned')
        ctx.evaluated(2, 'D2O_sld.reassigned')
        if not (_agree(ctx, got[0], want[0], model2.scale[0], 'D2O_sld.real.err_over_scale')
                and _agree(ctx, got[1], want[1], model2.scale[1], 'D2O_sld.imag.err_over_scale')):
            ctx.violation('D2O_sld(Formula object of %s after its density was set to %r, used before as %s): SLD at '
                          'volume fraction 1, D2O fraction %r is %r, substitution at constant volume gives %r'
                          % (case['text'], rho2, what, d, got[:2], want), field='D2O_sld.reassigned', v=v, d=d, **feat)


def _build_molecule(case):
    """(Molecule, atoms by key, density of its labile formula per the model)."""
    from periodictable import fasta
    NA = _state['NA']
    if case['kind'] == 'table':
        M = _state['tables'][case['table']][case['key']]
        atoms = _keys_of(M.labile_formula)
        V = M.cell_volume
        rho = 1e24 * _mass(atoms) / (NA * V) if V else 0.0
        return M, atoms, rho, '%s[%r]' % (case['table'], case['key'])
    if case['kind'] == 'sequence':
        M = fasta.Sequence('s', case['raw'], type=case['type'])
        atoms = _keys_of(M.labile_formula)
        V = M.cell_volume
        rho = 1e24 * _mass(atoms) / (NA * V) if V else 0.0
        return M, atoms, rho, 'Sequence(%r, %s)' % (case['raw'][:40], case['type'])
    atoms = _denote(case['parts'])
    if 'cell_volume' in case:
        M = fasta.Molecule('m', case['text'], cell_volume=case['cell_volume'], charge=case['charge'])
        rho = 1e24 * _mass(atoms) / (NA * case['cell_volume'])
        return M, atoms, rho, 'Molecule(%s, cell_volume=%r)' % (case['text'], case['cell_volume'])
    M = fasta.Molecule('m', case['text'], density=case['density'], charge=case['charge'])
    rho = case['density'] * _mass(atoms) / _natural_mass(atoms)
    return M, atoms, rho, 'Molecule(%s, density=%r)' % (case['text'], case['density'])


def check_molecule(ctx, case):
    from periodictable import nsf
    M, atoms, rho, what = _build_molecule(case)
    if case['kind'] == 'table':
        ctx.evaluated(what='table-molecule')
    nontrivial = _features(ctx, atoms, rho)
    if nontrivial:
        ctx.distinct_case(('mol', case['kind'], tuple(sorted(atoms.items())), repr(rho)))
    else:
        ctx.count('molecule.empty')
    feat = dict(nl=atoms.get(H1, 0), hasD=HD in atoms, kind=case['kind'])
    model = Model(atoms, rho, {})          # the class works at the library's default wavelength
    s0, s1 = model.scale
    # sld / Dsld are the H and D forms
    for field, d in (('sld', 0.0), ('Dsld', 1.0)):
        ctx.evaluated(what='Molecule.' + field)
        want = model.solute(d)[0]
        if not _agree(ctx, getattr(M, field), want, s0, 'Molecule.sld.err_over_scale'):
            ctx.violation('%s.%s is %r, the %s form at the same cell volume has real SLD %r'
                          % (what, field, getattr(M, field), 'D' if d else 'natural-H', want),
                          field='Molecule.' + field, **feat)
    # D2Osld(v, d) is the real part of D2O_sld of the labile formula
    labile = M.labile_formula
    for v, d in case['grid']:
        got = M.D2Osld(v, d) if int(d * 1000) % 2 == 0 else M.D2Osld(volume_fraction=v, D2O_fraction=d)
        want = model.solution(v, d)[0]
        lib = nsf.D2O_sld(labile, volume_fraction=v, D2O_fraction=d)[0]
        ctx.evaluated(2, 'Molecule.D2Osld')
        if not _agree(ctx, got, want, s0, 'Molecule.D2Osld.err_over_scale'):
            ctx.violation('%s.D2Osld(%r, %r) is %r, substitution at constant volume / solvent mixture gives %r'
                          % (what, v, d, got, want), field='Molecule.D2Osld', v=v, d=d,
                          vclass=(1 if v == 1 else 0 if v == 0 else 'mid'), **feat)
        elif not _agree(ctx, got, lib, s0, 'Molecule.D2Osld.err_over_scale'):
            ctx.violation('%s.D2Osld(%r, %r) is %r, D2O_sld of its labile formula gives %r'
                          % (what, v, d, got, lib), field='Molecule.D2Osld.vs.nsf', v=v, d=d, **feat)
    # defaults of D2Osld: pure solute in H2O
    ctx.evaluated(what='Molecule.D2Osld')
    if not _agree(ctx, M.D2Osld(), model.solute(0.0)[0], s0, 'Molecule.D2Osld.err_over_scale'):
        ctx.violation('%s.D2Osld() is %r, the natural-H form has %r' % (what, M.D2Osld(), model.solute(0.0)[0]),
                      field='Molecule.D2Osld.defaults', **feat)
    # match point, as a percentage
    m = model.match()
    if m is None:
        ctx.count('match.degenerate')
    else:
        _check_match(ctx, M.D2Omatch / 100.0, None, M.D2Osld, model, what + '.D2Omatch/100', **feat)
        dlib, sldlib = nsf.D2O_match(labile)
        ctx.evaluated(what='Molecule.D2Omatch.vs.nsf')
        big = max(1.0, abs(float(m[0])))
        if not _agree(ctx, M.D2Omatch, 100.0 * dlib, 100.0 * big, 'Molecule.D2Omatch.err', factor=max(1.0, m[2])):
            ctx.violation('%s.D2Omatch is %r %%, D2O_match of its labile formula gives fraction %r'
                          % (what, M.D2Omatch, dlib), field='Molecule.D2Omatch.vs.nsf', **feat)
    # D2O_sld / D2O_match on the labile formula at other wavelengths (real and imaginary)
    for wl in case.get('wavelengths', []):
        wlkw = {'wavelength': wl}
        mw = Model(atoms, rho, wlkw)
        _check_grid(ctx, lambda v, d: nsf.D2O_sld(labile, v, d, wavelength=wl), mw, case['grid'][:9],
                    'D2O_sld(labile formula of %s, wavelength=%r)' % (what, wl), **feat)
        ds, sld = nsf.D2O_match(labile, wavelength=wl)
        _check_match(ctx, ds, sld, lambda v, d: nsf.D2O_sld(labile, v, d, wavelength=wl)[0], mw,
                     'D2O_match(labile formula of %s, wavelength=%r)' % (what, wl), **feat)


def check_private(ctx, case):
    """table=<private table>: the same oracle as check_compound (the private table serves the same data), and the
    numbers of the public-table call."""
    import numpy as np
    from periodictable import nsf
    T = _state['private']
    atoms = _denote(case['parts'])
    rho = _model_density(atoms, case['density'], case['route'])
    wlkw = _wl_kw(case)
    model = Model(atoms, rho, wlkw)
    comp, kw = _library_compound(case, atoms, table=T)
    pub, _kw = _library_compound(case, atoms)
    kw.update(wlkw)
    kwp = dict(kw, table=T)
    how = 'string %s' % case['text'] if case['form'] == 'string' else 'Formula object built on that table from %s' % case['text']
    what = 'D2O_sld(%s, %s=%r, table=<private table>)' % (how, case['route'], case['density'])
    arg = 'private_table.' + case['form']
    ctx.count('arg.' + arg)
    ctx.count('private_table.labile.some' if atoms.get(H1, 0) else 'private_table.labile.zero')
    if bool(atoms) and bool(rho):
        ctx.distinct_case(('private', tuple(sorted(atoms.items())), case['route'], case['form'], case['density'],
                           repr(case.get('wavelength')), case.get('energy')))
    feat = dict(nl=atoms.get(H1, 0), hasD=HD in atoms, route=case['route'], form=case['form'], arg=arg)
    seen = []

    def call(v, d):
        if case.get('int_fractions'):
            v = int(v) if v in (0, 1) else v
            d = int(d) if d in (0, 1) else d
        if case['positional']:
            r = nsf.D2O_sld(comp, v, d, **dict(kwp))
        else:
            r = nsf.D2O_sld(comp, volume_fraction=v, D2O_fraction=d, **dict(kwp))
        seen.append((v, d, r))
        return r
    _check_grid(ctx, call, model, case['grid'], what, **feat)
    got = nsf.D2O_sld(comp, **dict(kwp))
    seen.append((None, None, got))
    want = model.solution(1.0, 0.0)
    ctx.evaluated(2, 'D2O_sld.defaults')
    if not (_agree(ctx, got[0], want[0], model.scale[0], 'D2O_sld.real.err_over_scale')
            and _agree(ctx, got[1], want[1], model.scale[1], 'D2O_sld.imag.err_over_scale')):
        ctx.violation('%s with default fractions is %r, the natural-H form gives %r' % (what, got[:2], want),
                      field='D2O_sld.defaults', **feat)
    # the public table holds the same data: same numbers
    for v, d, prv in seen:
        ref = nsf.D2O_sld(pub, **dict(kw)) if v is None else nsf.D2O_sld(pub, v, d, **dict(kw))
        for j, part in ((0, 'real'), (1, 'imag')):
            ctx.evaluated(what='private-vs-public.' + part)
            if not _agree(ctx, prv[j], ref[j], model.scale[j], 'private_vs_public.%s.err_over_scale' % part):
                ctx.violation('%s: %s SLD at volume fraction %r, D2O fraction %r is %r, the same call with the public table '
                              'gives %r' % (what, part, v, d, prv[j], ref[j]), field='private-vs-public.' + part,
                              v=v, d=d, **feat)
    ds, sld = nsf.D2O_match(comp, **dict(kwp))
    mwhat = 'D2O_match' + what[len('D2O_sld'):]
    _check_match(ctx, ds, sld, lambda v, d: nsf.D2O_sld(comp, v, d, **dict(kwp))[0], model, mwhat, **feat)
    m = model.match()
    if m is not None:
        dpub, sldpub = nsf.D2O_match(pub, **dict(kw))
        big = max(1.0, float(np.max(np.abs(m[0]))))
        ctx.evaluated(2, 'private-vs-public.match')
        if not (_agree(ctx, ds, dpub, big, 'private_vs_public.match.err', factor=max(1.0, m[2]))
                and _agree(ctx, sld, sldpub, model.scale[0] * big, 'private_vs_public.match.err', factor=max(1.0, m[2]))):
            ctx.violation('%s gives (fraction, SLD) %r, the same call with the public table %r'
                          % (mwhat, (ds, sld), (dpub, sldpub)), field='private-vs-public.match', **feat)


CHECKS = {'compound': check_compound, 'molecule': check_molecule, 'private': check_private}


def classify(rec):
    return None
