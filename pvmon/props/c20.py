"""C20 - ancillary tables are served to exactly the element or ion they belong to.

Exhaustive sweep: all 119 elements x the five ancillary tables (covalent radius,
crystal structure, K emission lines, magnetic form factors per charge state,
Cromer-Mann x-ray form factors), on the public table and on private tables whose
groups are initialised after the public group has been touched.  The oracle is the
independent reader pvmon.ref.ancillary (regular expressions over the embedded data,
own evaluation of the documented form-factor expressions)."""
import math
import random
import traceback

from ..statemon import Reach

RULE = ('one case per (table variant, element Z): the five ancillary tables are read through the public '
        'attributes of the element and of every ion in element.ions and compared with an independent re-read '
        'of the embedded data (entries) or required to be None / missing / KeyError (no entry); one case per '
        'Cromer-Mann entry name (211) through getCMformula/fxrayatq; one case per (variant, loader). '
        'distinct = distinct (variant, table, element-or-ion, entry|no-entry) tuples; all are non-trivial: each '
        'either compares tabulated numbers / evaluates a form factor on the Q grid, or asserts that no '
        "neighbour's data is served")
EXHAUSTIVE = True
TECHNIQUE = ('runtime monitoring: exhaustive sweep of the live tables against an independent re-read of the embedded '
             'data and an own evaluation of the documented form-factor equations (reference-model monitor), '
             'sys.monitoring reach counters on the five loaders and the form-factor kernels')
LEVEL_TEXT = ('Every element (Z = 0..118) and every ion charge listed for it is read through the public attributes on the '
              'public table and on private tables created at several points of a process history, and compared with an '
              'independent regular-expression reader of the five embedded tables; form factors are evaluated on a grid of '
              '200 Q values in [0, 30] (thorough tier: plus 300 seeded uniform / log-uniform values) against an own '
              'evaluation of the stated expression. The sweep is exhaustive over table rows and elements, so the only '
              'sampling is over process histories (quick: fresh and reloaded private table; thorough: also late, '
              'after-mutation and interleaved tables) and over Q.'
              ' Added in round 5: every Cromer-Mann entry evaluated on a 70 000+ vector and a 351x200 image of its Q grid. Added in round 8: f0 of isotopes and isotope ions (lightest, heaviest, D, T) in every charge state; every magnetic and Cromer-Mann function asked with eight dtypes, python ints, tuples, read-only / reversed / strided views and narrow numpy scalars on whole-number Q.')
LEVEL_NOTE = ('Trusted: the regex reader pvmon/ref/ancillary.py, CPython float parsing and math.exp, the embedded strings / '
              'data file as specification (list position = Z for crystal structures, first numbered row for spin states).')
SHARDS = {'quick': 2, 'thorough': 4}
ASSUMPTIONS = ['the embedded strings, the crystal_structures list in the module source (position = Z) and xsf/f0_WaasKirf.dat '
               'are the specification (their literature values are not checked; the #Sym comments of the crystal list are not '
               'trusted: slot 65 is labelled Th)',
               'independent reader pvmon/ref/ancillary.py (regular expressions, math.exp)',
               'the spectral-line table has two columns, K_alpha (already the documented Ka1/Ka2 average) and K_beta1; there '
               'are no separate Ka1/Ka2 columns to average',
               'Z = 0 receives its radius from a literal in the loader (the 97th radius of the quantifier); the check reads '
               'that literal from the module source; when no such literal is found there the radius of Z = 0 is not judged',
               'when crystal_structure.py does not spell the list as one literal slot per line, the public module list '
               'crystal_structure.crystal_structures (position = Z) is the specification instead; the evidence notes the route',
               'higher orders j2/j4/j6 carry the documented extra factor s^2; J is evaluated with the plain expression and '
               'has no requirement at Q = 0',
               'an ion reading an element-keyed table (radius, structure, emission lines) may report its own element\'s entry '
               'or None / no attribute',
               'private tables are initialised only after the corresponding public group was touched (the other order is '
               'property C10)']

GROUPS = ('radius', 'structure', 'lines', 'magnetic', 'f0')
EXTRA_STEPS = {'private_late': ('history',), 'private_reload': ('scramble',), 'private_after_mutation': ('scramble',)}
ORDERS = {'j0': 0, 'J': 0, 'j2': 2, 'j4': 4, 'j6': 6}
RTOL = 1e-12        # times the sum of |terms| of the expression (rounding of a 4- or 6-term sum)
J0_TOL = 0.005      # "within the 0.5 % of its fit"
ABSENT_EXC = (AttributeError, KeyError)

_state = {}
_counter = [0]


# ---------------------------------------------------------------------------
# building the tables
# ---------------------------------------------------------------------------

def _variants(ctx):
    v = ['public', 'private_fresh', 'private_reload']
    if ctx.thorough():
        v += ['private_late', 'private_after_mutation', 'private_interleaved_a',
              'private_interleaved_b']
    return v


def _name(ctx, tag):
    _counter[0] += 1
    return 'c20_%s_%d_%d' % (tag, ctx.shard, _counter[0])


def _guard(variant, group, fn):
    """Run a loader step; an exception is kept and reported by the 'loader' case."""
    try:
        fn()
    except Exception as exc:  # noqa - reported as a violation by check_loader
        _state['load_errors'].setdefault((variant, group), []).append(
            '%s: %s\n%s' % (type(exc).__name__, exc, traceback.format_exc()[-1200:]))


def _public_touch(group):
    import periodictable as pt
    el = pt.elements[26]
    if group == 'radius':
        el.covalent_radius
    elif group == 'structure':
        el.crystal_structure
    elif group == 'lines':
        el.K_alpha
    elif group == 'magnetic':
        el.magnetic_ff
    elif group == 'f0':
        el.xray.f0(0.0)


def _private_init(T, group, reload=False):
    from periodictable import covalent_radius, crystal_structure, xsf, magnetic_ff
    if group == 'radius':
        covalent_radius.init(T, reload=reload)
    elif group == 'structure':
        crystal_structure.init(T, reload=reload)
    elif group == 'lines':
        xsf.init_spectral_lines(T)      # has no guard and no reload flag: calling it again reloads
    elif group == 'magnetic':
        magnetic_ff.init(T, reload=reload)
    elif group == 'f0':
        xsf.init(T, reload=reload)


def _fresh(ctx, variant, tag):
    from periodictable import core
    T = core.PeriodicTable(_name(ctx, tag))
    for g in GROUPS:
        _guard(variant, g, lambda g=g: _private_init(T, g))
    return T


def _scramble(T, model):
    """Overwrite (by rebinding, never in place) every tabulated ancillary value of a private table."""
    for el in T:
        Z, sym = el.number, el.symbol
        if Z in model.radius:
            el.covalent_radius = 9.87
            el.covalent_radius_uncertainty = 6.54
        if model.structure.get(Z) is not None:
            el.crystal_structure = {'symmetry': 'scrambled', 'a': -1.0}
        if sym in model.lines:
            el.K_alpha = 99.0
            el.K_beta1 = 98.0
        for q in model.magnetic_charges(sym):
            ff = el.magnetic_ff[q]
            for jn in model.magnetic[(sym, q)]:
                setattr(ff, jn, (7.0, 7.0, 7.0, 7.0, 7.0, 7.0, 7.0))


def _history(ctx):
    """Use of the public table between table creations (thorough tier)."""
    import periodictable as pt
    for el in (pt.Fe, pt.Cu, pt.elements[0], pt.Og):
        el.mass, el.density, el.neutron, el.xray
    pt.Fe[56].neutron_activation
    pt.neutron_sld('H2O', density=1, wavelength=4)
    pt.xray_sld('SiO2', density=2.2, energy=8.0)
    pt.formula('Fe{2+}2O3').mass


def _build(ctx):
    from periodictable import covalent_radius, crystal_structure, xsf, magnetic_ff, cromermann
    from ..ref.ancillary import Ancillary, q_grid
    import periodictable as pt
    import numpy
    model = _state.get('model')
    if model is None:
        model = _state['model'] = Ancillary()
        grid = q_grid(200, 30.0)
        _state['grid'] = grid
        _state['Q'] = numpy.array(grid)
        _state['np'] = numpy
        _state['load_errors'] = {}
        _state['grids'] = {}
        _state['tables'] = {}
    tables = _state['tables']

    reach = _state.get('reach')
    if reach is None:
        for group, (route, text) in sorted(model.routes.items()):
            ctx.note('reference reader, %s: %s route - %s' % (group, route, text))
            ctx.count('reference.route.%s.%s' % (group, route))
        ctx.info['reference_routes'] = {g: r[0] for g, r in model.routes.items()}
        reach = Reach()
        _state['anchors'] = set()
        _state['loader_fn'] = {}
        for owner, attr, label in (
                (covalent_radius, 'init', 'covalent_radius.init'),
                (crystal_structure, 'init', 'crystal_structure.init'),
                (xsf, 'init_spectral_lines', 'xsf.init_spectral_lines'),
                (magnetic_ff, 'init', 'magnetic_ff.init'),
                (cromermann, '_update_cmformulas', 'cromermann._update_cmformulas'),     # private: optional
                (magnetic_ff, 'formfactor_0', 'magnetic_ff.formfactor_0'),
                (magnetic_ff, 'formfactor_n', 'magnetic_ff.formfactor_n'),
                (getattr(cromermann, 'CromerMannFormula', None), 'atstol', 'cromermann.atstol')):
            fn = getattr(owner, attr, None)
            if getattr(fn, '__code__', None) is None:
                # renamed / restructured: the counter is evidence only, its requirement is waived
                ctx.count('anchor_missing.reach.' + label)
                ctx.note('%s not found as a Python function (refactored source?): reach counter is evidence only, '
                         'requirement waived; the served values are compared exhaustively anyway' % label)
                continue
            reach.watch(fn, label)
            _state['anchors'].add(label)
            _state['loader_fn'][label] = fn
        # row-level line counters are best effort: a changed source line only loses the counter
        for flabel, text, label in (
                ('covalent_radius.init', 'table[Z].covalent_radius =', 'rows.covalent_radius'),
                ('crystal_structure.init', 'table[Z].crystal_structure =', 'rows.crystal_structure'),
                ('xsf.init_spectral_lines', 'el.K_beta1 =', 'rows.spectral_lines'),
                ('magnetic_ff.init', 'setattr(el.magnetic_ff[charge]', 'rows.magnetic_ff'),
                ('cromermann._update_cmformulas', '_cmformulas[cmf.symbol] =', 'rows.cromermann')):
            func = _state['loader_fn'].get(flabel)
            try:
                if func is None:
                    raise LookupError(flabel)
                reach.watch_line_matching(func, text, label)
                _state.setdefault('row_counters', []).append(label)
            except Exception:  # noqa
                ctx.count('anchor_missing.reach.' + label)
                ctx.note('row counter %s not attached (function or source line not found)' % label)
        reach.start()
        _state['reach'] = reach

    if 'public' not in tables:
        tables['public'] = pt.elements
        from periodictable import core
        T = core.PeriodicTable(_name(ctx, 'fresh'))
        first = {}
        for g, label in zip(GROUPS, ('covalent_radius.init', 'crystal_structure.init', 'xsf.init_spectral_lines',
                                     'magnetic_ff.init', 'cromermann._update_cmformulas')):
            before = reach.counts[label]
            _guard('public', g, lambda g=g: _public_touch(g))
            first[g] = (reach.counts[label] - before) if label in _state['anchors'] else None
            # the public group has been touched once: now (and only now) the private group is initialised
            _guard('private_fresh', g, lambda g=g: _private_init(T, g))
        tables['private_fresh'] = T
        ctx.info['public_loader_runs_at_first_touch'] = first
        # None = the loader of that group is not observable by name (private helper renamed): not judged here
        if all(n >= 1 for n in first.values() if n is not None):
            ctx.count('reach.public_first_touch_loaded_all_five')
        # reload after every value was overwritten must restore the tabulated values
        T3 = _fresh(ctx, 'private_reload', 'reload')
        _guard('private_reload', 'scramble', lambda: _scramble(T3, model))
        for g in GROUPS:
            _guard('private_reload', g, lambda g=g: _private_init(T3, g, reload=True))
        tables['private_reload'] = T3
    if ctx.thorough() and 'private_late' not in tables:
        _guard('private_late', 'history', lambda: _history(ctx))
        tables['private_late'] = _fresh(ctx, 'private_late', 'late')
        # a table created after another private table was overwritten
        T4a = _fresh(ctx, 'private_after_mutation', 'mut')
        _guard('private_after_mutation', 'scramble', lambda: _scramble(T4a, model))
        tables['private_after_mutation'] = _fresh(ctx, 'private_after_mutation', 'aftermut')
        # two tables initialised group by group in reverse order, interleaved
        from periodictable import core
        T5a = core.PeriodicTable(_name(ctx, 'ilva'))
        T5b = core.PeriodicTable(_name(ctx, 'ilvb'))
        for g in reversed(GROUPS):
            _guard('private_interleaved_a', g, lambda g=g: _private_init(T5a, g))
            _guard('private_interleaved_b', g, lambda g=g: _private_init(T5b, g))
        tables['private_interleaved_a'] = T5a
        tables['private_interleaved_b'] = T5b


def setup(ctx):
    _build(ctx)
    ctx.require('reach.covalent_radius.init', 2, 'public first-touch load and private init of the covalent radii')
    ctx.require('reach.crystal_structure.init', 2, 'public first-touch load and private init of the crystal structures')
    ctx.require('reach.xsf.init_spectral_lines', 2, 'public first-touch load and private init of the emission lines')
    ctx.require('reach.magnetic_ff.init', 2, 'public first-touch load and private init of the magnetic form factors')
    ctx.require('reach.cromermann._update_cmformulas', 1, 'the Cromer-Mann file must be parsed while observed')
    ctx.require('reach.public_first_touch_loaded_all_five', 1,
                'each public group must be loaded by its first touch inside setup (before the private init)')
    m = _state['model']
    rows = {'rows.covalent_radius': 2 * len(m.radius), 'rows.crystal_structure': 2 * len(m.structure),
            'rows.spectral_lines': 2 * len(m.lines), 'rows.magnetic_ff': 2 * m.magnetic_entries,
            'rows.cromermann': len(m.cm)}
    # how often a correct loader executes its storing statement is not fixed by the property (rows may be stored
    # by another statement after a refactoring): the expected counts are evidence, the requirement is "reached"
    ctx.info['row_counter_expected'] = {label: rows[label] for label in _state.get('row_counters', [])}
    for label in _state.get('row_counters', []):
        ctx.require('reach.' + label, 1,
                    'the loader must be observed storing rows of its table (public + private); the number the '
                    'reference reader found is in row_counter_expected')
    ctx.require('reach.magnetic_ff.formfactor_0', 1, 'j0/J evaluations must go through formfactor_0')
    ctx.require('reach.magnetic_ff.formfactor_n', 1, 'j2/j4/j6 evaluations must go through formfactor_n')
    ctx.require('reach.cromermann.atstol', 1, 'f0 evaluations must go through CromerMannFormula.atstol')
    ctx.require('cm.large_array_calls', 1, 'f0 must have been asked for arrays of tens of thousands of Q values')


def _table(ctx, name):
    if name not in _state['tables']:
        ctx.tier = 'thorough'       # replay of a thorough-tier variant in a quick-tier context
        _build(ctx)
    return _state['tables'][name]


def _with_qseed(ctx, case):
    if ctx.thorough():
        case['qseed'] = ctx.seed
    return case


def generate(ctx):
    i = 0
    for variant in _variants(ctx):
        for g in GROUPS + EXTRA_STEPS.get(variant, ()):
            if ctx.mine(i):
                yield 'loader', {'table': variant, 'group': g}
            i += 1
    for variant in _variants(ctx):
        for Z in range(0, 119):
            if ctx.mine(i):
                yield 'element', _with_qseed(ctx, {'table': variant, 'Z': Z})
            i += 1
    for name in sorted(_state['model'].cm):
        if ctx.mine(i):
            yield 'cm_entry', _with_qseed(ctx, {'name': name})
        i += 1
    if ctx.shard == 0:
        yield 'coverage', {}


def finish(ctx):
    reach = _state.get('reach')
    if reach is not None:
        reach.stop()
        reach.export(ctx)


# ---------------------------------------------------------------------------
# helpers
# ---------------------------------------------------------------------------

def _get(obj, attr):
    """('value', v) or ('absent', exception name) - AttributeError/KeyError only."""
    try:
        return 'value', getattr(obj, attr)
    except ABSENT_EXC as exc:
        return 'absent', type(exc).__name__


def _is_absent(state):
    return state[0] == 'absent' or state[1] is None


def _atoms(el):
    """(route, charge, atom): the element and every ion listed for it."""
    out = [('element', 0, el)]
    for q in el.ions:
        out.append(('ion', q, el.ion[q]))
    return out


def _isotope_ions(ctx, tname, el):
    """(route, charge, atom) for atoms that carry BOTH an isotope and a charge (round 8): the lightest and the
    heaviest isotope of the element, for hydrogen also the D and T objects of the table, in every charge state the
    element lists and uncharged.  X-ray data do not depend on the isotope, so these atoms must be served the entry
    of the element in that charge state - or nothing where the file has no such entry."""
    out = []
    isos = []
    try:
        nums = list(el.isotopes)
    except Exception:  # noqa
        nums = []
    for A in ([nums[0], nums[-1]] if len(nums) > 1 else nums):
        isos.append(('isotope', el[A]))
    if el.number == 1:
        T = _table(ctx, tname)
        isos += [('D', T.D), ('T', T.T)]
    for lab, iso in isos:
        out.append((lab, 0, iso))
        for q in el.ions:
            try:
                out.append((lab + '-ion', q, iso.ion[q]))
            except Exception as exc:  # noqa
                ctx.violation('%s.ion[%d] cannot be built (%s: %s); the element lists this charge'
                              % (iso, q, type(exc).__name__, exc), group='f0', route=lab + '-ion', charge=q)
    return out


def _grid(case):
    """(Q values, numpy vector, cache key): the 200-point grid over [0, 30]; cases that carry a 'qseed'
    (thorough tier) add 150 uniform and 150 log-uniform points drawn from that seed."""
    qseed = case.get('qseed')
    grids = _state['grids']
    if qseed not in grids:
        g = list(_state['grid'])
        if qseed is not None:
            rng = random.Random(1000003 * int(qseed) + 20)
            g += [rng.uniform(0.0, 30.0) for _ in range(150)]
            g += [10 ** rng.uniform(-9.0, math.log10(30.0)) for _ in range(150)]
        grids[qseed] = (g, _state['np'].array(g), qseed)
    return grids[qseed]


def _vector_ok(ctx, got, ref, name):
    """got (array-like) against ref [(value, sum|terms|)]; returns index of the worst failing point or None."""
    np = _state['np']
    got = np.asarray(got, dtype=float)
    want = np.array([r[0] for r in ref])
    mag = np.array([r[1] for r in ref])
    if got.shape != want.shape:
        return -1
    err = np.abs(got - want)
    ok = err <= RTOL * mag
    with np.errstate(divide='ignore', invalid='ignore'):
        rel = np.where(mag > 0, err / np.where(mag > 0, mag, 1.0), err)
    if rel.size:
        ctx.observe(name, float(np.nanmax(rel)) if not np.all(np.isnan(rel)) else 0.0)
    ctx.evaluated(int(want.size), 'formfactor-point')
    if bool(ok.all()):
        return None
    bad = np.where(~ok)[0]
    return int(bad[0])


IGRID = (0, 1, 2, 5, 11, 12, 15, 16, 17, 23, 30)      # whole-number Q values inside [0, 30]
F32_RTOL = 2e-5     # a float32 argument may be processed in single precision (eps = 6e-8, exponents up to ~100)


def _number_kinds(ctx, fn, ref_of, what, fields):
    """Round 8: the same function asked with other kinds of numbers - small integer dtypes (whose squares do not fit
    the dtype), python ints, float32, reversed / strided / read-only views - must give the stated expression."""
    np = _state['np']
    ref = ref_of(list(IGRID), 'igrid')
    calls = []
    for dt in ('uint8', 'int8', 'int16', 'int32', 'int64', 'uint16', 'float32', 'float64'):
        calls.append(('%s array' % dt, np.array(IGRID, dtype=dt), RTOL if dt != 'float32' else F32_RTOL))
    calls.append(('python ints', list(IGRID), RTOL))
    calls.append(('tuple of ints', tuple(IGRID), RTOL))
    ro = np.array(IGRID, dtype=float)
    ro.setflags(write=False)
    calls.append(('read-only array', ro, RTOL))
    for label, arg, tol in calls:
        try:
            v = np.asarray(fn(arg), dtype=float)
        except Exception as exc:  # noqa
            ctx.violation('%s(%s) raises %s: %s' % (what, label, type(exc).__name__, exc), **fields)
            continue
        ctx.evaluated(len(IGRID), 'formfactor-number-kind')
        if v.shape != (len(IGRID),) or not all(abs(v[i] - ref[i][0]) <= tol * ref[i][1] for i in range(len(IGRID))):
            ctx.violation('%s(%s) = %r differs from the stated expression %r'
                          % (what, label, v.tolist(), [r[0] for r in ref]), **fields)
    # views: reversed and strided
    base = np.array([x for Q in IGRID for x in (float(Q), -1.0)])
    for label, arg, idx in (('reversed view', np.array(IGRID, dtype=float)[::-1], list(range(len(IGRID)))[::-1]),
                            ('strided view', base[::2], list(range(len(IGRID))))):
        v = np.asarray(fn(arg), dtype=float)
        ctx.evaluated(len(IGRID), 'formfactor-number-kind')
        if v.shape != (len(IGRID),) or not all(abs(v[k] - ref[i][0]) <= RTOL * ref[i][1] for k, i in enumerate(idx)):
            ctx.violation('%s(%s) differs from the stated expression' % (what, label), **fields)
    # scalars of small kinds: Q*Q = 256, 289 do not fit uint8; 144 does not fit int8
    for label, arg, i in (('numpy.uint8(16)', np.uint8(16), IGRID.index(16)), ('numpy.uint8(17)', np.uint8(17), IGRID.index(17)),
                          ('numpy.int8(12)', np.int8(12), IGRID.index(12)), ('numpy.int16(30)', np.int16(30), IGRID.index(30)),
                          ('python int 23', 23, IGRID.index(23)), ('True', True, IGRID.index(1))):
        try:
            v = float(fn(arg))
        except Exception as exc:  # noqa
            ctx.violation('%s(%s) raises %s: %s' % (what, label, type(exc).__name__, exc), **fields)
            continue
        ctx.evaluated(1, 'formfactor-number-kind')
        if not abs(v - ref[i][0]) <= RTOL * ref[i][1]:
            ctx.violation('%s(%s) = %r, stated expression gives %r' % (what, label, v, ref[i][0]), **fields)


def _scalar_ok(got, ref):
    try:
        g = float(got)
    except Exception:  # noqa
        return False
    return abs(g - ref[0]) <= RTOL * ref[1]


# ---------------------------------------------------------------------------
# the element sweep
# ---------------------------------------------------------------------------

def check_element(ctx, case):
    tname, Z = case['table'], case['Z']
    T = _table(ctx, tname)
    el = T[Z]
    if el.number != Z:
        ctx.violation('table[%d] is element number %r' % (Z, el.number), group='identity')
        return
    atoms = _atoms(el)
    _radius(ctx, tname, el, atoms)
    _structure(ctx, tname, el, atoms)
    _lines(ctx, tname, el, atoms)
    G = _grid(case)
    _magnetic(ctx, tname, el, atoms, G)
    _f0(ctx, tname, el, atoms, G)


def _like_radius(m, value):
    hits = ['Z=%d %s' % (z, v[0]) for z, v in m.radius.items() if v[1] == value]
    hits += ['alternate %s (Z=%d)' % (lab, z) for z, lab, r, _ in m.radius_alternates if r == value]
    return hits[:6]


def _radius(ctx, tname, el, atoms):
    m = _state['model']
    Z = el.number
    entry = m.radius.get(Z)
    if Z == 0 and m.neutron_radius is not None:
        entry = ('n (loader literal)', m.neutron_radius, None)
    elif Z == 0 and entry is None:
        # the radius of the neutron is a literal inside the loader; the reference could not read it from the source
        # and no public data holds it: not judged (a Cordero row for Z = 0 would be judged like any other)
        ctx.count('skipped.radius.neutron_literal_unreadable')
        return
    for route, q, atom in atoms:
        r = _get(atom, 'covalent_radius')
        u = _get(atom, 'covalent_radius_uncertainty')
        ctx.evaluated(2, 'radius' if route == 'element' else 'radius-ion')
        if route == 'ion' and _is_absent(r) and _is_absent(u):
            continue        # an ion may report nothing
        if entry is None:
            if route == 'element':
                ctx.distinct_case((tname, 'radius', Z, 'no-entry'))
            if not _is_absent(r) or not _is_absent(u):
                ctx.violation('%s has no Cordero row but covalent_radius=%r uncertainty=%r'
                              % (atom, r[1], u[1]), group='radius', route=route, entry=False,
                              looks_like=_like_radius(m, r[1]))
            continue
        label, want_r, want_u = entry
        if route == 'element':
            ctx.distinct_case((tname, 'radius', Z, 'entry'))
        if r[0] != 'value' or r[1] != want_r:
            ctx.violation('covalent_radius of %s is %r, Cordero row %s gives %r'
                          % (atom, r[1], label, want_r), group='radius', route=route, entry=True,
                          looks_like=_like_radius(m, r[1]) if r[0] == 'value' else [])
        if want_u is None:
            if not _is_absent(u):
                ctx.violation('covalent_radius_uncertainty of %s is %r without a table row' % (atom, u[1]),
                              group='radius', route=route, entry=False)
        elif u[0] != 'value' or u[1] is None or not ctx.close(u[1], want_u, rel=1e-12, abs_=0.0,
                                                              name='radius_uncertainty.relerr'):
            ctx.violation('covalent_radius_uncertainty of %s is %r, Cordero row %s gives %r'
                          % (atom, u[1], label, want_u), group='radius', route=route, entry=True)


def _structure(ctx, tname, el, atoms):
    m = _state['model']
    Z = el.number
    want = m.structure.get(Z)
    for route, q, atom in atoms:
        s = _get(atom, 'crystal_structure')
        ctx.evaluated(1, 'structure' if route == 'element' else 'structure-ion')
        if route == 'element':
            ctx.distinct_case((tname, 'structure', Z, 'entry' if want is not None else 'no-entry'))
        if _is_absent(s):
            if want is not None and route == 'element':
                ctx.violation('crystal_structure of %s is missing (%s), slot %d holds %r' % (atom, s[1], Z, want),
                              group='structure', route=route, entry=True)
            continue
        if want is None or not isinstance(s[1], dict) or dict(s[1]) != want:
            like = ['slot %d' % z for z, v in m.structure.items() if v is not None and v == s[1]][:6]
            ctx.violation('crystal_structure of %s is %r, slot %d holds %r' % (atom, s[1], Z, want),
                          group='structure', route=route, entry=want is not None, looks_like=like)


def _lines(ctx, tname, el, atoms):
    m = _state['model']
    want = m.lines.get(el.symbol)
    for route, q, atom in atoms:
        for k, attr in enumerate(('K_alpha', 'K_beta1')):
            s = _get(atom, attr)
            ctx.evaluated(1, 'lines' if route == 'element' else 'lines-ion')
            if _is_absent(s):
                if want is not None and route == 'element':
                    ctx.violation('%s of %s is missing (%s), the table row gives %r' % (attr, atom, s[1], want[k]),
                                  group='lines', route=route, entry=True, attr=attr)
                continue
            if want is None or s[1] != want[k]:
                like = ['%s column %d' % (sym, j) for sym, v in m.lines.items() for j in (0, 1) if v[j] == s[1]][:6]
                ctx.violation('%s of %s is %r, the table row gives %r' % (attr, atom, s[1], want[k] if want else None),
                              group='lines', route=route, entry=want is not None, attr=attr, looks_like=like)
    ctx.distinct_case((tname, 'lines', el.number, 'entry' if want is not None else 'no-entry'))


def _like_magnetic(m, coeff):
    try:
        coeff = tuple(coeff)
    except TypeError:
        return []
    return ['%s%d %s' % (s, q, jn) for (s, q), d in m.magnetic.items() for jn, vs in d.items() if coeff in vs][:6]


def _magnetic(ctx, tname, el, atoms, G):
    m = _state['model']
    sym = el.symbol
    charges = m.magnetic_charges(sym)
    st = _get(el, 'magnetic_ff')
    ctx.evaluated(1, 'magnetic-keys')
    if not charges:
        ctx.distinct_case((tname, 'magnetic', el.number, 'no-entry'))
        if not _is_absent(st) and len(st[1]) > 0:
            ctx.violation('%s has no CFML entry but magnetic_ff holds charges %r' % (el, sorted(st[1])),
                          group='magnetic', entry=False,
                          looks_like=[x for q in st[1] for jn in ORDERS
                                      for x in _like_magnetic(m, getattr(st[1][q], jn, None))][:6])
        if _is_absent(st):
            return
    elif _is_absent(st):
        ctx.violation('magnetic_ff of %s is missing (%s); CFML lists charges %r' % (el, st[1], charges),
                      group='magnetic', entry=True)
        return
    else:
        have = sorted(st[1])
        if have != charges:
            ctx.violation('magnetic_ff of %s has charges %r, CFML lists %r' % (el, have, charges),
                          group='magnetic', entry=True, extra=sorted(set(have) - set(charges)),
                          missing=sorted(set(charges) - set(have)))
    # every charge state of the element, of its ion list and of the table, by both routes
    routes = {0: [('element', el)]}
    for route, q, atom in atoms:
        if route == 'ion':
            routes.setdefault(q, [('element', el)]).append(('ion', atom))
    for q in charges:
        routes.setdefault(q, [('element', el)])
    for q in sorted(routes):
        entry = m.magnetic.get((sym, q))
        if entry is not None or charges:
            ctx.distinct_case((tname, 'magnetic', el.number, q, 'entry' if entry is not None else 'no-entry'))
        for route, atom in routes[q]:
            d = _get(atom, 'magnetic_ff')
            ctx.evaluated(1, 'magnetic-state')
            if _is_absent(d):
                ff = None
            else:
                try:
                    ff = d[1][q]
                except KeyError:
                    ff = None
            if entry is None:
                if ff is not None:
                    ctx.violation('%s charge %+d has no CFML entry but magnetic_ff[%d] (via %s) holds %r'
                                  % (sym, q, q, route, sorted(getattr(ff, '__dict__', {}))), group='magnetic', route=route,
                                  entry=False, charge=q,
                                  looks_like=[x for jn in ORDERS for x in _like_magnetic(m, getattr(ff, jn, None))][:6])
                continue
            if ff is None:
                ctx.violation('magnetic_ff[%d] of %s (via %s) is missing; CFML has %r'
                              % (q, sym, route, sorted(entry)), group='magnetic', route=route, entry=True, charge=q)
                continue
            _magnetic_state(ctx, sym, q, route, ff, entry, G)


def _magnetic_state(ctx, sym, q, route, ff, entry, G):
    m = _state['model']
    np = _state['np']
    grid, Q, gkey = G
    tag = '%s%+d (via %s)' % (sym, q, route)
    for jn, order in ORDERS.items():
        c = _get(ff, jn)
        ctx.evaluated(1, 'magnetic-coefficients')
        fn = getattr(ff, jn + '_Q')
        if jn not in entry:
            # no such coefficient set for this state: nothing may be served
            if not _is_absent(c):
                ctx.violation('%s has no %s set in CFML but .%s = %r' % (tag, jn, jn, c[1]), group='magnetic',
                              route=route, entry=False, charge=q, jn=jn, looks_like=_like_magnetic(m, c[1]))
            ctx.evaluated(1, 'magnetic-missing-set-call')
            try:
                v = fn(1.0)
            except (AttributeError, KeyError, TypeError):
                v = None        # TypeError: unpacking a None coefficient set
            if v is not None:
                ctx.violation('%s has no %s set in CFML but %s_Q(1.0) returns %r' % (tag, jn, jn, v),
                              group='magnetic', route=route, entry=False, charge=q, jn=jn)
            continue
        want = entry[jn]
        try:
            got = tuple(c[1]) if c[0] == 'value' and c[1] is not None else None
        except TypeError:
            got = c[1]
        if got not in want:
            ctx.violation('%s .%s is %r, CFML gives %r' % (tag, jn, c[1], want[0]), group='magnetic', route=route,
                          entry=True, charge=q, jn=jn, looks_like=_like_magnetic(m, got))
            continue
        ref = m.magnetic_ref(got, order, grid, gkey)
        # the whole grid as a numpy vector
        bad = _vector_ok(ctx, fn(Q), ref, 'magnetic_%s.err_over_terms' % ('plain' if order == 0 else 'scaled'))
        if bad is not None:
            ctx.violation('%s %s_Q(Q) differs from the stated expression at grid point %d (Q=%r): got %r, own %r'
                          % (tag, jn, bad, grid[bad] if bad >= 0 else None,
                             np.asarray(fn(Q)).ravel()[bad] if bad >= 0 else np.shape(fn(Q)),
                             ref[bad][0] if bad >= 0 else len(ref)),
                          group='magnetic', route=route, entry=True, charge=q, jn=jn, kind='expression')
            continue
        # other call shapes: python list, python float, numpy scalar, length-1 vector
        idx = (0, 1, 66, 133, 199)
        lst = fn([grid[i] for i in idx])
        ctx.evaluated(len(idx), 'formfactor-shape')
        if np.shape(lst) != (len(idx),) or not all(_scalar_ok(lst[k], ref[i]) for k, i in enumerate(idx)):
            ctx.violation('%s %s_Q(list) = %r differs from the vector call' % (tag, jn, lst), group='magnetic',
                          route=route, charge=q, jn=jn, kind='shape')
        for i in (0, 77, 199):
            for arg in (grid[i], np.float64(grid[i]), np.array([grid[i]])):
                v = fn(arg)
                ctx.evaluated(1, 'formfactor-shape')
                if np.shape(v) != np.shape(arg) or not _scalar_ok(np.asarray(v).ravel()[0], ref[i]):
                    ctx.violation('%s %s_Q(%r) = %r, own evaluation %r' % (tag, jn, arg, v, ref[i][0]),
                                  group='magnetic', route=route, charge=q, jn=jn, kind='shape')
        _number_kinds(ctx, fn, lambda g, k: m.magnetic_ref(got, order, g, k), '%s %s_Q' % (tag, jn),
                      dict(group='magnetic', route=route, charge=q, jn=jn, kind='number-kind'))
        # Q = 0
        for zero in (0, 0.0):
            v0 = fn(zero)
            ctx.evaluated(1, 'magnetic-Q0')
            if jn == 'j0':
                dev = abs(float(v0) - 1.0)
                ctx.observe('j0_at_0.deviation_from_1', dev)
                if not dev <= J0_TOL:
                    ctx.violation('%s <j0>(0) = %r, more than 0.5 %% from 1' % (tag, v0), group='magnetic',
                                  route=route, charge=q, jn=jn, kind='Q0')
            elif order:
                if not float(v0) == 0.0:
                    ctx.violation('%s <%s>(0) = %r, not 0' % (tag, jn, v0), group='magnetic', route=route,
                                  charge=q, jn=jn, kind='Q0')
        if jn == 'j0':
            # M is documented as another name of j0
            ctx.evaluated(2, 'magnetic-M')
            if tuple(ff.M) != got:
                ctx.violation('%s .M is %r, .j0 is %r' % (tag, ff.M, got), group='magnetic', route=route, charge=q,
                              jn='M')
            if _vector_ok(ctx, ff.M_Q(Q), ref, 'magnetic_plain.err_over_terms') is not None:
                ctx.violation('%s M_Q(Q) differs from the <j0> expression' % tag, group='magnetic', route=route,
                              charge=q, jn='M', kind='expression')


def _like_cm(ctx, got):
    """Names of Cromer-Mann entries whose own evaluation reproduces *got* on the grid."""
    m = _state['model']
    np = _state['np']
    out = []
    try:
        g = np.asarray(got, dtype=float)
        for name in m.cm:
            ref = m.cm_ref(name, _state['grid'])
            if g.ndim == 1 and g.shape[0] >= len(ref) and all(abs(g[i] - ref[i][0]) <= 1e-9 * ref[i][1] for i in (0, 50, 199)):
                out.append(name)
    except Exception:  # noqa
        pass
    return out[:6]


def _f0(ctx, tname, el, atoms, G):
    m = _state['model']
    np = _state['np']
    grid, Q, gkey = G
    for route, q, atom in list(atoms) + _isotope_ions(ctx, tname, el):
        name = m.cm_name(el.symbol, q)
        entry = m.cm.get(name)
        ctx.evaluated(1, 'f0-presence')
        ctx.distinct_case((tname, 'f0', el.number, q, 'entry' if entry is not None else 'no-entry'))
        try:
            x = atom.xray
            got = x.f0(Q) if x is not None else None
        except ABSENT_EXC:
            got = None
        if entry is None:
            if got is not None:
                ctx.violation('%s has no Cromer-Mann entry %r but xray.f0 returns values (f0(0)=%r)'
                              % (atom, name, np.asarray(got).ravel()[0]), group='f0', route=route, entry=False,
                              charge=q, looks_like=_like_cm(ctx, got))
            continue
        if got is None:
            ctx.violation('%s: xray.f0 is not available although the file has entry %r' % (atom, name),
                          group='f0', route=route, entry=True, charge=q)
            continue
        if entry[0] != el.number:
            ctx.violation('Cromer-Mann entry %r is filed under Z=%d, %s has Z=%d' % (name, entry[0], el, el.number),
                          group='f0', route=route, entry=True, charge=q, kind='Z')
        ref = m.cm_ref(name, grid, gkey)
        bad = _vector_ok(ctx, got, ref, 'f0.err_over_terms')
        if bad is not None:
            ctx.violation('f0 of %s differs from the Cromer-Mann expression of entry %r at grid point %d (Q=%r): '
                          'got %r, own %r' % (atom, name, bad, grid[bad] if bad >= 0 else None,
                                              np.asarray(got).ravel()[bad] if bad >= 0 else np.shape(got),
                                              ref[bad][0] if bad >= 0 else len(ref)),
                          group='f0', route=route, entry=True, charge=q, kind='expression',
                          looks_like=_like_cm(ctx, got))
            continue
        idx = (0, 1, 66, 133, 199)      # as many points as the formula has Gaussians
        lst = atom.xray.f0([grid[i] for i in idx])
        ctx.evaluated(len(idx), 'formfactor-shape')
        if np.shape(lst) != (len(idx),) or not all(_scalar_ok(lst[k], ref[i]) for k, i in enumerate(idx)):
            ctx.violation('f0(list of 5) of %s = %r differs from the vector call' % (atom, lst), group='f0',
                          route=route, charge=q, kind='shape')
        _number_kinds(ctx, atom.xray.f0, lambda g, k: m.cm_ref(name, g, k), 'f0 of %s' % atom,
                      dict(group='f0', route=route, charge=q, kind='number-kind'))
        for i in (0, 77, 199):
            for arg in (grid[i], [grid[i]]):
                v = atom.xray.f0(arg)
                ctx.evaluated(1, 'formfactor-shape')
                if np.shape(v) != np.shape(arg) or not _scalar_ok(np.asarray(v).ravel()[0], ref[i]):
                    ctx.violation('f0(%r) of %s = %r, own evaluation %r' % (arg, atom, v, ref[i][0]), group='f0',
                                  route=route, charge=q, kind='shape')


# ---------------------------------------------------------------------------
# Cromer-Mann entries by name, loaders, coverage
# ---------------------------------------------------------------------------

def check_cm_entry(ctx, case):
    from periodictable import cromermann
    m = _state['model']
    np = _state['np']
    grid, Q, gkey = _grid(case)
    name = case['name']
    entry = m.cm.get(name)
    if entry is None:
        ctx.harness_error('replayed Cromer-Mann name %r is not in the data file' % name)
        return
    Zfile, a, c, b = entry
    ctx.distinct_case(('cm', name))
    ctx.evaluated(4, 'cm-coefficients')
    try:
        cmf = cromermann.getCMformula(name)
    except KeyError:
        ctx.violation('getCMformula(%r) raises KeyError; the file has this entry' % name, group='cm')
        return
    if cmf.symbol != name:
        ctx.violation('getCMformula(%r).symbol is %r' % (name, cmf.symbol), group='cm', field='symbol')
    for field, got, want in (('a', [float(v) for v in cmf.a], a), ('b', [float(v) for v in cmf.b], b),
                             ('c', float(cmf.c), c)):
        if got != want:
            ctx.violation('getCMformula(%r).%s is %r, file columns %s give %r' % (name, field, got, field, want),
                          group='cm', field=field,
                          same_multiset=sorted([float(v) for v in cmf.a] + [float(v) for v in cmf.b] + [float(cmf.c)])
                          == sorted(a + b + [c]))
    ref = m.cm_ref(name, grid, gkey)
    calls = [('fxrayatq(%r, Q)' % name, lambda: cromermann.fxrayatq(name, Q)),
             ('atstol(Q/4pi)', lambda: cmf.atstol(Q / (4 * np.pi)))]
    split = m.cm_split(name)
    if split is not None:
        sym, q = split
        calls.append(('fxrayatq(%r, Q, charge=%d)' % (sym, q), lambda: cromermann.fxrayatq(sym, Q, charge=q)))
        if abs(q) == 1:
            short = sym + ('+' if q > 0 else '-')
            calls.append(('fxrayatq(%r, Q)' % short, lambda: cromermann.fxrayatq(short, Q)))
        # documented: an explicit charge overrides any valence suffix of the symbol
        other = sym + ('3-' if q > 0 else '2+')
        calls.append(('fxrayatq(%r, Q, charge=%d)' % (other, q), lambda: cromermann.fxrayatq(other, Q, charge=q)))
        if sym in m.cm:
            ctx.evaluated(1, 'cm-charge-0-overrides-suffix')
            got0 = cromermann.fxrayatq(name, Q, charge=0)
            bad0 = _vector_ok(ctx, got0, m.cm_ref(sym, grid, gkey), 'f0.err_over_terms')
            if bad0 is not None:
                ctx.violation('fxrayatq(%r, Q, charge=0) is not the neutral %s entry (the explicit charge overrides the '
                              'suffix): differs at grid point %d' % (name, sym, bad0), group='cm', field='charge-override',
                              looks_like=_like_cm(ctx, got0))
        # the symbol's element carries the Z of the file
        import periodictable as pt
        ctx.evaluated(1, 'cm-Z')
        try:
            Zel = pt.elements.symbol(sym).number
        except ValueError:
            Zel = None
        if Zel != Zfile:
            ctx.violation('Cromer-Mann entry %r is filed under Z=%d but %s is element %r' % (name, Zfile, sym, Zel),
                          group='cm', field='Z')
    for text, call in calls:
        got = call()
        bad = _vector_ok(ctx, got, ref, 'f0.err_over_terms')
        if bad is not None:
            ctx.violation('%s differs from the Cromer-Mann expression at grid point %d: got %r, own %r'
                          % (text, bad, np.asarray(got).ravel()[bad] if bad >= 0 else np.shape(got),
                             ref[bad][0] if bad >= 0 else len(ref)), group='cm', field='expression',
                          looks_like=_like_cm(ctx, got))
    # the same Q values as a very long vector and as a detector image (hundreds of thousands of pixels): every element
    # is the value the short vector call gives for that Q, and the shape is the shape of the argument
    short = np.asarray(cromermann.fxrayatq(name, Q), dtype=float)
    if short.shape == np.shape(Q) and short.size:
        reps = 70000 // short.size + 1 + ((case.get('qseed') or 0) % 3) * 40
        for label, big in (('a vector of %d Q values' % (reps * short.size), np.tile(Q, reps)),
                           ('a %d x %d image of Q values' % (reps, short.size), np.tile(Q, (reps, 1)))):
            ctx.evaluated(1, 'cm-large-array')
            ctx.count('cm.large_array_calls')
            got = np.asarray(cromermann.fxrayatq(name, big), dtype=float)
            want = np.tile(short, reps) if big.ndim == 1 else np.tile(short, (reps, 1))
            if got.shape != big.shape:
                ctx.violation('fxrayatq(%r, <%s>) has shape %r' % (name, label, got.shape), group='cm', field='large-array')
            elif not np.allclose(got, want, rtol=1e-12, atol=0, equal_nan=True):
                k = int(np.argmax(~np.isclose(got, want, rtol=1e-12, atol=0, equal_nan=True)))
                ctx.violation('fxrayatq(%r, <%s>) differs from the short vector call: element %d is %r, the same Q alone '
                              'gives %r' % (name, label, k, got.ravel()[k], want.ravel()[k]), group='cm', field='large-array')
    ctx.observe('f0_at_0_minus_electrons', abs(ref[0][0] - (Zfile - (split[1] if split else 0))))


def check_loader(ctx, case):
    """The loader step of this (table variant, group) ran without raising."""
    key = (case['table'], case['group'])
    _table(ctx, case['table'])
    ctx.evaluated(1, 'loader')
    for text in _state['load_errors'].get(key, []):
        ctx.violation('loading %s on table variant %s raised %s' % (key[1], key[0], text.split('\n')[0]),
                      group=key[1], traceback=text[-1200:], kind='loader-exception')


def check_coverage(ctx, case):
    """Every row of every table belongs to an element (or ion) that the sweep visits."""
    import periodictable as pt
    from periodictable import cromermann
    m = _state['model']
    ctx.evaluated(6, 'coverage')
    zs = set(range(0, 119))
    if {el.number for el in pt.elements} != zs:
        ctx.violation('the table does not hold exactly the elements 0..118')
    syms = {el.symbol: el for el in pt.elements}
    bad = [z for z in m.radius if z not in zs] + [z for z in m.structure if z not in zs]
    bad += [s for s in m.lines if s not in syms]
    bad += ['%s%+d' % k for k in m.magnetic if k[0] not in syms]
    for name in m.cm:
        sp = m.cm_split(name)
        if sp is not None and sp[0] not in syms:
            bad.append(name)
    if bad:
        ctx.violation('table rows outside the swept domain: %r' % bad[:10])
    unreached = ['%s%+d' % k for k in m.magnetic if k[0] in syms and k[1] != 0 and k[1] not in syms[k[0]].ions]
    unreached_cm = [n for n in m.cm if m.cm_split(n) and m.cm_split(n)[0] in syms and m.cm_split(n)[1] != 0
                    and m.cm_split(n)[1] not in syms[m.cm_split(n)[0]].ions]
    # the dictionary of formulas holds exactly the entries of the file
    cromermann.getCMformula('H')
    have = set(getattr(cromermann, '_cmformulas', {}))
    if have and have != set(m.cm):
        ctx.violation('cromermann holds entries %r that differ from the file' % sorted(have ^ set(m.cm))[:10])
    ctx.info['rows_read_by_reference'] = {
        'cordero_numbered_rows': len(m.radius), 'cordero_alternate_spin_rows': len(m.radius_alternates),
        'radii_including_neutron_literal': len(m.radius) + (1 if m.neutron_radius is not None else 0),
        'crystal_structure_slots': len(m.structure),
        'crystal_structure_slots_with_data': sum(1 for v in m.structure.values() if v is not None),
        'emission_rows': len(m.lines), 'magnetic_charge_states': len(m.magnetic),
        'magnetic_coefficient_sets': m.magnetic_entries, 'cromer_mann_entries': len(m.cm)}
    ctx.info['reference_observations'] = {
        'cfml_duplicate_assignments': [list(d) for d in m.magnetic_duplicates],
        'cordero_label_vs_symbol': [(z, v[0], pt.elements[z].symbol) for z, v in sorted(m.radius.items())
                                    if not v[0].startswith(pt.elements[z].symbol)],
        'crystal_comment_vs_symbol': [(z, lab, pt.elements[z].symbol) for z, lab in sorted(m.structure_label.items())
                                      if lab != pt.elements[z].symbol],
        'magnetic_states_not_in_element_ions (reached by element route only)': unreached,
        'cromer_mann_names_not_element_or_listed_ion (reached by name only)':
            unreached_cm + [n for n in m.cm if m.cm_split(n) is None]}
    expected = {'radii_including_neutron_literal': 97, 'crystal_structure_slots': 104, 'emission_rows': 91,
                'magnetic_charge_states': 98, 'cromer_mann_entries': 211}
    for k, n in expected.items():
        if ctx.info['rows_read_by_reference'][k] != n:
            ctx.note('reference reader found %d %s, the property text counts %d'
                     % (ctx.info['rows_read_by_reference'][k], k, n))


CHECKS = {'element': check_element, 'cm_entry': check_cm_entry, 'loader': check_loader, 'coverage': check_coverage}


def classify(rec):
    return None
