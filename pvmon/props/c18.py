"""C18 - biomolecule sequences are the sum of their residues.

Reference model: pvmon.ref.fasta_ref reads the residue tables from the *source
text* of periodictable/fasta.py (literal rows) and sums them in exact rational
arithmetic; masses come from the independent mass-table reader.  Metamorphic
relations: permutations of a multiset of codes, spaces, '*' suffixes, the
'aa:'/'dna:'/'rna:' formula prefixes, FASTA files written to a scratch
directory and read back through read_fasta / Sequence.load / Sequence.loadall.
"""
import io
import os
import shutil

RULE = ('cases: (a) every code of the three code tables (live entry vs the source-text reading, what an '
        'ambiguity code stands for, transcription pin of the residue rows, direct calls of the averaging '
        'helper); (b) code strings over each table - all single codes, code pairs, homopolymers, random '
        'strings of length 0..200 (quick) / 0..5000 (thorough) over full / unambiguous-only / ambiguity-only / '
        'few-letter alphabets, decorated with spaces and a "*" followed by arbitrary text - compared with '
        'the sum over residues, with a permutation of the same multiset and with the prefix route (all of them on '
        'the default table; the systematic strings and a third of the random ones also with table=<a private table '
        'of the worker>, whose result must hold the same atoms, labile H[1] included, all taken from that table); '
        '(c) generated FASTA files (preamble text, blank lines, empty records, CRLF, missing final newline, '
        'every typed extension and untyped ones), each read as an open file, a StringIO and as the same lines '
        '(newline-terminated and bare) in a list, tuple, deque, re-iterable object, generator and list '
        'iterator, with identical expected records.  distinct = distinct (type, multiset of codes) of '
        'sequences holding at least one code, distinct (table, code) rows, distinct (extension, record-shape) '
        'files; the empty string, all-space strings and strings starting with "*" are evaluated but not '
        'counted as non-trivial')
TECHNIQUE = ('runtime monitoring: reference-model monitor (sum over residues from an independent reading of the '
             'table source, exact rationals) on every constructed Sequence, metamorphic relations (permutation, '
             'spaces, "*" suffix, formula prefix, file round trip), sys.monitoring reach counters on the anchored '
             'functions')
LEVEL_TEXT = ('Randomly generated and systematically enumerated code strings (every code, every ordered pair in the '
              'thorough tier) are pushed through Sequence, the formula prefixes and the FASTA readers and compared '
              'with a reference that re-reads the residue tables from the module source and sums them itself; '
              'sampling, not proof, over the infinite set of strings.'
              ' Added in rounds 5-7: sequences of 1000-20000 residues, refused sequences before the judged one, clones of Sequence objects.')
LEVEL_NOTE = ('Trusted: the ast/regex table reader and the 20-line formula reader in pvmon/ref/fasta_ref.py, the mass '
              'reader pvmon/ref/masses.py, the IUPAC meaning of the ambiguity codes and the transcription of the '
              'residue rows carried by the reference, CPython fractions, the file system under /verif/out.')
SHARDS = {'quick': 4, 'thorough': 16}
TIMEOUT = {'quick': 300, 'thorough': 2400}
ASSUMPTIONS = [
    'the literal rows of the tables in periodictable/fasta.py are the specification of each residue '
    '(formula with H[1] for labile hydrogen, volume in A^3, trailing +/- = unit charge)',
    'what an ambiguity code stands for is the IUPAC-IUB definition (B=D|N, Z=E|Q, J=I|L, X=any of the 20; '
    'R=A|G, Y=C|T, K=G|T, M=A|C, S=C|G, W=A|T, B=not A, D=not C, H=not G, V=not T, N=any, X and - = nothing); '
    'U is T in both nucleotide tables (the RNA table stores uridine under T)',
    'the residue rows equal the transcription in pvmon/ref/fasta_ref.PINNED (Perkins 1985 values as embedded '
    'in the pinned tree); a deliberate data update upstream would have to update that transcription',
    'density in g/cm^3 = 1e24 * mass / (N_A * cell volume in A^3); the density of a sequence is observed on '
    'its natural_formula (H[1] -> H) and labile_formula (the classes have no density attribute of their own)',
    'only the space character is "space"; the record name returned by the FASTA readers is not constrained',
    'atomic masses from the independent reader pvmon/ref/masses.py; N_A from periodictable.constants',
    'when the table source is not written as literal rows of calls named "_" (refactored source) the reference takes '
    'each unambiguous residue from the public tables fasta.AMINO_ACID_CODES / RNA_BASES / DNA_BASES and averages the '
    'ambiguity codes itself over their IUPAC meaning; the evidence notes which route was used',
]

PIN_IS_VIOLATION = False     # residue row != transcription is reported as a violation (see ASSUMPTIONS)
TOL = 1e-10
HERE = os.path.dirname(os.path.dirname(os.path.dirname(os.path.abspath(__file__))))
EXT_TYPE = {'.fna': 'dna', '.ffn': 'dna', '.faa': 'aa', '.frn': 'rna'}
UNTYPED = ['.fasta', '.fa', '.txt', '', '.seq', '.fna.txt', '.frn.bak', '.fas']

_state = {}


# ------------------------------------------------------------------ setup
def _watch(ctx, reach, owner, attr, label, why):
    """Reach counter on a library function looked up by name; a private helper that is absent (renamed,
    inlined) only loses its counter: the requirement on it is waived."""
    fn = getattr(owner, attr, None)
    fn = getattr(fn, '__func__', fn)
    if getattr(fn, '__code__', None) is None:
        ctx.count('anchor_missing.reach.' + label)
        ctx.note('%s.%s not found (refactored source?): reach counter %r is evidence only, requirement waived; %s'
                 % (getattr(owner, '__name__', owner), attr, label, why))
        return False
    reach.watch(fn, label)
    return True


def setup(ctx):
    from periodictable import fasta, formulas
    from ..ref.fasta_ref import FastaRef
    from ..statemon import Reach
    # PVMON_C18_REF_ROUTE=data|source forces a route (used to test the fallback); default: source, else data
    R = _state['ref'] = FastaRef(route=os.environ.get('PVMON_C18_REF_ROUTE') or None)
    ctx.info['reference_route'] = R.route
    ctx.note('reference model route: %s - %s' % (R.route, R.route_note))
    ctx.count('reference.route.' + R.route)
    # a private periodic table for the prefix route with table= (public constructors and loaders only)
    from periodictable import core, mass, density
    T = core.PeriodicTable('c18_private_%d' % ctx.shard)
    mass.init(T)
    density.init(T)
    _state['private'] = T
    reach = Reach()
    reach.watch(fasta.Sequence.__init__, 'Sequence.__init__')
    reach.watch(fasta.Molecule.__init__, 'Molecule.__init__')
    reach.watch(fasta.read_fasta, 'read_fasta')
    reach.watch(fasta.Sequence.load, 'Sequence.load')
    reach.watch(fasta.Sequence.loadall, 'Sequence.loadall')
    _watch(ctx, reach, fasta, '_guess_type_from_filename', 'guess_type',
           'the typing by extension is judged through Sequence.load / loadall on every typed and untyped extension')
    if hasattr(fasta, '_code_average'):
        _watch(ctx, reach, fasta, '_code_average', 'code_average', 'ambiguity rows are judged through the code tables')
    try:
        reach.watch_line_matching(formulas.formula, 'fasta.Sequence(', 'formula.prefix_dispatch')
    except Exception as exc:  # noqa - no source available for formula(): the line counter is evidence only
        ctx.count('anchor_missing.reach.formula.prefix_dispatch')
        ctx.note('source of formulas.formula not available (%s); prefix line counter not attached' % type(exc).__name__)
    reach.start()
    _state['reach'] = reach
    tmp = os.path.join(HERE, 'out', 'C18', 'tmp', 's%02d-%d' % (ctx.shard, os.getpid()))
    os.makedirs(tmp, exist_ok=True)
    _state['tmp'] = tmp


def finish(ctx):
    reach = _state.get('reach')
    if reach:
        reach.stop()
        reach.export(ctx)
    tmp = _state.get('tmp')
    if tmp:
        shutil.rmtree(tmp, ignore_errors=True)
        try:
            os.rmdir(os.path.dirname(tmp))      # only succeeds when no other shard is using it
        except OSError:
            pass
    ctx.require('reach.Sequence.__init__', 100, 'sequences must be built by Sequence.__init__')
    ctx.require('reach.read_fasta', 10, 'FASTA texts must go through read_fasta')
    ctx.require('reach.Sequence.load', 5, 'Sequence.load must be exercised')
    ctx.require('reach.Sequence.loadall', 5, 'Sequence.loadall must be exercised')
    ctx.require('reach.guess_type', 10, 'the extension typing must be exercised')
    ctx.require('reach.formula.prefix_dispatch', 50, 'formula() must take the sequence-prefix branch')
    ctx.require('eval.prefix', 50, 'the prefix route must have been compared with the sequence classes')
    ctx.require('eval.prefix-private-table', 50,
                'the prefix route with a private table must have been compared with the sequence classes')
    ctx.require('prefix_private.labile_hydrogen', 20,
                'prefix formulas on a private table must hold labile hydrogen H[1] next to ordinary H')
    ctx.require('eval.table-row', 61, 'every row of the three code tables must be compared')
    for ext in sorted(EXT_TYPE):
        ctx.require('ext.' + ext, 2, 'files with the typed extension %s must be loaded' % ext)
    ctx.require('ext.untyped', 2, 'files with an untyped extension must be loaded')
    ctx.require('len.1000+', 1, 'sequences of a thousand and more residues must be built')
    for form in ('list', 'tuple', 'generator', 'iterator', 'deque', 'reiterable'):
        ctx.require('container.' + form, 2, 'read_fasta must be fed the lines of a text as a %s' % form)


# ------------------------------------------------------------------ helpers
def _live_atoms(f):
    from .. import atoms as A
    out = {}
    for a, n in f.atoms.items():
        k = A.key(a)
        out[k] = out.get(k, 0) + n
    return out


def _cmp_atoms(ctx, got, want, what, **detail):
    """got/want: {key: count}.  Same key set (zero counts ignored), counts to 1e-10."""
    ctx.evaluated(what='atoms')
    g = {k: v for k, v in got.items() if v != 0}
    w = {k: v for k, v in want.items() if v != 0}
    if set(g) != set(w):
        ctx.violation('%s: atoms %s, residues sum to atoms %s' % (what, _fmt(g), _fmt(w)),
                      field='atoms', **detail)
        return False
    for k in w:
        if not ctx.close(g[k], w[k], rel=TOL, name='atoms.relerr'):
            ctx.violation('%s: count of %r is %r, residues sum to %r' % (what, k, g[k], w[k]),
                          field='atoms', **detail)
            return False
    return True


def _fmt(d):
    return '{' + ', '.join('%s%s:%.12g' % (k[0], '[%d]' % k[1] if k[1] else '', v)
                           for k, v in sorted(d.items())) + '}'


def _cmp(ctx, got, want, what, field, abs_=0.0, **detail):
    ctx.evaluated(what=field)
    if not ctx.close(got, want, rel=TOL, abs_=abs_, name=field + '.relerr'):
        ctx.violation('%s: %s is %r, expected %r' % (what, field, got, want), field=field, **detail)
        return False
    return True


def _check_against_ref(ctx, S, typ, codes, what, **detail):
    """Compare a Sequence object with the reference sums for the cleaned code string."""
    R = _state['ref']
    e = R.expected(typ, codes)
    L = max(1, len(codes))
    ok = _cmp_atoms(ctx, _live_atoms(S.labile_formula), e['atoms'], what + ' labile_formula', **detail)
    nat = dict(e['atoms'])
    if (1, 1, 0) in nat:
        nat[(1, 0, 0)] = nat.get((1, 0, 0), 0) + nat.pop((1, 1, 0))
    ok &= _cmp_atoms(ctx, _live_atoms(S.natural_formula), nat, what + ' natural_formula', **detail)
    ok &= _cmp(ctx, S.cell_volume, e['cell_volume'], what, 'cell_volume', **detail)
    ok &= _cmp(ctx, S.charge, e['charge'], what, 'charge', abs_=1e-10 * L, **detail)
    ok &= _cmp(ctx, S.mass, e['mass'], what, 'mass', **detail)
    ok &= _cmp(ctx, S.Dmass, e['Dmass'], what, 'Dmass', **detail)
    if 'density' in e:
        ok &= _cmp(ctx, S.natural_formula.density, e['density'], what, 'density(natural_formula)', **detail)
        ok &= _cmp(ctx, S.labile_formula.density, e['labile_density'], what, 'density(labile_formula)', **detail)
        if hasattr(S, 'density'):
            ok &= _cmp(ctx, S.density, e['density'], what, 'density(attribute)', **detail)
        else:
            ctx.count('observe.no_density_attribute')
    return ok, e


def _sig(typ, codes):
    return (typ, ''.join(sorted(codes)))


# ------------------------------------------------------------------ generators
JUNK = ['', 'ACGT', 'acgt', 'oO0', '1 2 3', '*', '**A', ' * ', '>x', 'UOJ', '@2', ':', 'A' * 30, '\t']


def _alphabets(R, typ):
    codes = R.codes(typ)
    base = [c for c in codes if R.stands_for[typ][c] == c]
    amb = [c for c in codes if R.stands_for[typ][c] != c]
    return codes, base, amb


def _random_codes(ctx, R, typ, L):
    rng = ctx.rng
    codes, base, amb = _alphabets(R, typ)
    mode = rng.random()
    if mode < 0.45:
        alpha = codes
    elif mode < 0.60:
        alpha = base
    elif mode < 0.75:
        alpha = amb
    elif mode < 0.90:
        alpha = rng.sample(codes, rng.randint(1, 3))
    else:
        alpha = [c for c in codes if c not in '-X'] if rng.random() < 0.5 else ['-', 'X', rng.choice(codes)]
    return ''.join(rng.choice(alpha) for _ in range(L))


def _decorate(ctx, seq):
    """Insert spaces and a '*'+junk suffix; the denotation stays *seq*."""
    rng = ctx.rng
    raw = seq
    r = rng.random()
    if r < 0.25:
        w = rng.randint(1, 12)
        raw = ' '.join(raw[i:i + w] for i in range(0, len(raw), w))
    elif r < 0.45:
        out = []
        for ch in raw:
            if rng.random() < 0.15:
                out.append(' ' * rng.randint(1, 3))
            out.append(ch)
        raw = ''.join(out)
    if rng.random() < 0.2:
        raw = ' ' * rng.randint(1, 3) + raw
    if rng.random() < 0.2:
        raw = raw + ' ' * rng.randint(1, 3)
    if rng.random() < 0.3:
        raw = raw + '*' + rng.choice(JUNK)
    return raw


def _length(ctx):
    rng = ctx.rng
    r = rng.random()
    if r < 0.10:
        return rng.choice([0, 1, 2, 3])
    if r < 0.45:
        return rng.randint(4, 40)
    if r > 0.975:
        # "lengths 0..thousands": both tiers see sequences of a thousand and more residues (a real protein or gene),
        # round lengths and their neighbours included
        return rng.choice([1000, 1001, 1023, 1024, 1025, 2000, 2001, rng.randint(1001, 4000),
                           rng.randint(4001, 20000) if ctx.thorough() else rng.randint(1001, 3000)])
    if not ctx.thorough() or r < 0.85:
        return rng.randint(41, 200)
    if r < 0.95:
        return rng.randint(201, 1200)
    return rng.randint(1201, 5000)


def _file_case(ctx, R):
    rng = ctx.rng
    if rng.random() < 0.7:
        ext = rng.choice(sorted(EXT_TYPE))
    else:
        ext = rng.choice(UNTYPED)
    typ = EXT_TYPE.get(ext, 'aa')
    common = [c for c in R.codes('dna') if c in R.residue['aa'] and c in R.residue['rna']]
    nrec = rng.choice([0, 1, 1, 2, 3, 5, 8])
    records = []
    for _ in range(nrec):
        header = rng.choice(['', 'seq%d' % rng.randint(0, 99), 'sp|P0%d|X_Y some protein' % rng.randint(100, 999),
                             ' leading space', '>double', 'a*b', 'x' * 70, 'ACGT'])
        nlines = rng.choice([0, 0, 1, 1, 2, 3, 6])
        lines = []
        alpha = common if rng.random() < 0.7 else R.codes(typ)
        for _ in range(nlines):
            r = rng.random()
            if r < 0.15:
                lines.append('')
            elif r < 0.2:
                lines.append(' ' * rng.randint(1, 3))
            else:
                ln = ''.join(rng.choice(alpha) for _ in range(rng.choice([1, 5, 10, 60, 70, 80])))
                r2 = rng.random()
                if r2 < 0.1:
                    ln = ' '.join(ln[i:i + 10] for i in range(0, len(ln), 10))
                elif r2 < 0.15:
                    ln = '  ' + ln
                elif r2 < 0.2:
                    ln = ln + '  '
                elif r2 < 0.27:
                    ln = ln + '*'
                lines.append(ln)
        records.append({'header': header, 'lines': lines})
    preamble = []
    if rng.random() < 0.3:
        for _ in range(rng.randint(1, 3)):
            preamble.append(rng.choice(['', 'ACDEFG', '; old style comment', '# exported by tool', 'ACGT' * 5, ' ']))
    return {'ext': ext, 'stem': rng.choice(['x', 'my.seq', 'a b', 'fna', 'data.faa.copy']),
            'preamble': preamble, 'records': records,
            'eol': '\r\n' if rng.random() < 0.25 else '\n', 'final_eol': rng.random() < 0.8}


def generate(ctx):
    R = _state['ref']
    i = 0
    # (a) table rows and the averaging helper
    for typ in sorted(R.residue):
        for code in R.codes(typ):
            if ctx.mine(i):
                yield 'table_row', {'type': typ, 'code': code}
            i += 1
    for typ in sorted(R.residue):
        base = sorted(R.bases[typ])
        members = {R.stands_for[typ][c] for c in R.codes(typ)}
        extra = ['', base[0] * 3, base[0] + base[0] + base[-1], ''.join(base), ''.join(base) * 2]
        for m in sorted(members) + extra:
            if ctx.mine(i):
                yield 'code_average', {'type': typ, 'bases': m}
            i += 1
    # (b) systematic strings: every code, homopolymers, every ordered pair (thorough)
    for typ in sorted(R.residue):
        codes = R.codes(typ)
        for c in codes:
            for rep in (1, 2, 7):
                if ctx.mine(i):
                    yield 'sequence', {'type': typ, 'raw': c * rep, 'private_table': rep != 2}
                i += 1
        if ctx.thorough():
            for a in codes:
                for b in codes:
                    if a != b:
                        if ctx.mine(i):
                            yield 'sequence', {'type': typ, 'raw': a + b, 'private_table': i % 4 == 0}
                        i += 1
        for raw in ['', ' ', '   ', '*', '*' + codes[0], ' * ', codes[0] + '*', codes[0] + ' *' + codes[1],
                    codes[0] + '**' + codes[1], ' ' + codes[0] + ' ', codes[0] + '*xyz 123']:
            if ctx.mine(i):
                yield 'sequence', {'type': typ, 'raw': raw, 'private_table': True}
            i += 1
    # random strings (every third also through the prefix route with the worker's private table)
    types = sorted(R.residue)
    for n in range(ctx.scale(1500, 3000)):
        typ = types[n % len(types)]
        seq = _random_codes(ctx, R, typ, _length(ctx))
        yield 'sequence', {'type': typ, 'raw': _decorate(ctx, seq), 'private_table': n % 9 < 3}
    for n in range(ctx.scale(400, 800)):
        typ = types[n % len(types)]
        seq = _random_codes(ctx, R, typ, max(2, _length(ctx)))
        p = list(seq)
        ctx.rng.shuffle(p)
        if ctx.rng.random() < 0.2:
            p.sort()
        yield 'permutation', {'type': typ, 'a': _decorate(ctx, seq), 'b': _decorate(ctx, ''.join(p))}
    # (c) files
    for n in range(ctx.scale(150, 300)):
        yield 'fasta_file', _file_case(ctx, R)


# ------------------------------------------------------------------ checks
def check_table_row(ctx, case):
    """Live table entry == source-text reading; ambiguity rows stand for what IUPAC says;
    unambiguous rows equal the transcription."""
    from periodictable import fasta
    from ..ref.fasta_ref import IUPAC
    R = _state['ref']
    typ, code = case['type'], case['code']
    what = '%s code %r' % (typ, code)
    ctx.evaluated(what='table-row')
    ctx.distinct_case(('row', typ, code))
    live_table = fasta.CODE_TABLES[typ]
    if R.route == 'data':
        ctx.count('observe.table_row.reference_from_public_tables')
    if set(live_table) != set(R.residue[typ]):
        ctx.violation('%s table holds codes %s, its source rows define %s'
                      % (typ, ''.join(sorted(live_table)), ''.join(R.codes(typ))), field='codes')
        if code not in live_table:
            return
    _check_against_ref(ctx, live_table[code], typ, code, what + ' (table entry)', route='table')
    # what the code stands for
    fam = 'aa' if R.family[typ] == 'aa' else 'na'
    ctx.evaluated(what='stands-for')
    want = IUPAC[fam].get(code)
    got = R.stands_for[typ][code]
    if got == code:
        if want is not None and want != code:
            ctx.violation('%s stands for %r but the table defines it as a residue of its own' % (what, want),
                          field='stands-for')
    elif want is None:
        ctx.count('observe.averaged_code_without_iupac_entry')
    elif sorted(got) != sorted(want):
        ctx.violation('%s is averaged over %r, it stands for %r' % (what, got, want), field='stands-for')
    # transcription pin of the unambiguous rows
    if got == code:
        pin = R.pinned_entry(typ, code)
        ctx.evaluated(what='pin')
        if pin is None:
            ctx.count('observe.row_without_pin')
        elif pin != R.bases[typ][code]:
            a, v, q = R.bases[typ][code]
            msg = ('%s row reads %s V=%s q=%s, transcription of the pinned tree has %s V=%s q=%s'
                   % (what, _fmt(a), v, q, _fmt(pin[0]), pin[1], pin[2]))
            if PIN_IS_VIOLATION:
                ctx.violation(msg, field='pin')
            else:
                ctx.note(msg)
    # nucleotide = phosphate + sugar + base (internal redundancy of the module data; observation only)
    if typ in ('rna', 'dna') and got == code and code in 'ACGT':
        comp = R.other.get('NUCLEIC_ACID_COMPONENTS', {})
        sugar = 'ribose' if typ == 'rna' else 'deoxyribose'
        basename = {'A': 'adenine', 'C': 'cytosine', 'G': 'guanine',
                    'T': 'uracil' if typ == 'rna' else 'thymine'}[code]
        if all(n in comp for n in ('phosphate', sugar, basename)):
            atoms, vol = {}, 0
            for n in ('phosphate', sugar, basename):
                for k, c in comp[n][0].items():
                    atoms[k] = atoms.get(k, 0) + c
                vol += comp[n][1]
            a, v, _q = R.bases[typ][code]
            ctx.count('observe.nucleotide_equals_components' if (atoms == a and vol == v)
                      else 'observe.nucleotide_differs_from_components')


def check_code_average(ctx, case):
    """fasta._code_average(bases, table) is the equal-weight mean of the listed residues."""
    from periodictable import fasta
    R = _state['ref']
    typ, members = case['type'], case['bases']
    fn = getattr(fasta, '_code_average', None)
    if fn is None:
        ctx.count('observe.code_average_absent')
        return
    table = {'aa': fasta.AMINO_ACID_CODES, 'rna': fasta.RNA_BASES, 'dna': fasta.DNA_BASES}[typ]
    # a private helper: its signature / return form may change; then the call is not judged
    try:
        import inspect
        nparams = len(inspect.signature(fn).parameters)
    except (TypeError, ValueError):
        nparams = 2
    if nparams != 2:
        ctx.count('contract.code_average.unrecognised_call')
        return
    out = fn(members, table)
    try:
        f, vol, q = out
        f.atoms
    except (TypeError, ValueError, AttributeError):
        ctx.count('contract.code_average.unrecognised_call')
        return
    atoms, v, c = R._average([R.bases[typ][b] for b in members])
    what = '_code_average(%r, %s)' % (members, typ)
    ctx.distinct_case(('avg', typ, members))
    _cmp_atoms(ctx, _live_atoms(f), {k: float(n) for k, n in atoms.items()}, what)
    _cmp(ctx, vol, float(v), what, 'cell_volume')
    _cmp(ctx, q, float(c), what, 'charge', abs_=1e-12)


def check_sequence(ctx, case):
    from periodictable import fasta, formula
    R = _state['ref']
    typ, raw = case['type'], case['raw']
    codes = R.clean(raw)
    what = 'Sequence(%r, type=%s)' % (raw if len(raw) < 60 else raw[:57] + '...', typ)
    if len(codes) % 4 == 1:
        # first a sequence the library refuses (valid codes followed by one that is not a code of that type; an unknown
        # sequence type), caught by the caller: the judged sequence that follows is a new request
        for bad_raw, bad_typ in ((codes[:7] + ('U' if typ == 'aa' else 'J') + codes[:3], typ), (codes[:5] + '?', typ),
                                 (codes, 'xna')):
            try:
                fasta.Sequence('refused', bad_raw, type=bad_typ)
                ctx.count('refused_sequence.accepted')
            except Exception:
                ctx.count('refused_sequence.refused')
    S = fasta.Sequence('s', raw, type=typ)
    ok, e = _check_against_ref(ctx, S, typ, codes, what, length=len(codes),
                               has_space=' ' in raw, has_star='*' in raw)
    if ok and codes and len(codes) % 5 == 2:
        # the sequence object through ordinary Python protocols: the same molecule
        import copy
        import pickle
        for how, clone in (('copy.copy', copy.copy), ('copy.deepcopy', copy.deepcopy),
                           ('pickle round trip', lambda x: pickle.loads(pickle.dumps(x)))):
            ctx.count('clones.' + how.split('.')[-1].split(' ')[0])
            try:
                S2 = clone(S)
            except Exception as exc:
                ctx.violation('%s: %s raised %s: %s' % (what, how, type(exc).__name__, exc), field='clone', how=how)
                continue
            _check_against_ref(ctx, S2, typ, codes, '%s of %s' % (how, what), length=len(codes), clone=how)
    if codes:
        ctx.distinct_case(_sig(typ, codes))
    ctx.count('len.%s' % ('0' if not codes else '1-9' if len(codes) < 10 else '10-99' if len(codes) < 100
                          else '100-999' if len(codes) < 1000 else '1000+'))
    if ' ' in raw:
        ctx.count('decor.space')
    if '*' in raw:
        ctx.count('decor.star')
    if getattr(S, 'sequence', codes) == codes:
        ctx.count('observe.sequence_attribute_is_cleaned')
    # the undecorated string gives the same object values (spaces / '*' change nothing)
    if raw != codes:
        S0 = fasta.Sequence('s', codes, type=typ)
        ctx.evaluated(what='decoration')
        if not (S0.labile_formula == S.labile_formula and S0.cell_volume == S.cell_volume
                and S0.charge == S.charge and S0.mass == S.mass and S0.Dmass == S.Dmass):
            ctx.violation('%s differs from Sequence(%r): spaces or text after "*" change the result'
                          % (what, codes[:60]), field='decoration')
    # prefix route
    f = formula(typ + ':' + raw)
    ctx.evaluated(what='prefix')
    if not (f == S.labile_formula):
        ctx.violation('formula(%r) = %s, the class gives %s' % ((typ + ':' + raw)[:80], str(f)[:200],
                                                                str(S.labile_formula)[:200]), field='prefix')
    else:
        _cmp_atoms(ctx, _live_atoms(f), e['atoms'], 'formula(%r)' % (typ + ':' + raw)[:80], route='prefix')
        if 'labile_density' in e:
            _cmp(ctx, f.density, e['labile_density'], 'formula(%r)' % (typ + ':' + raw)[:80], 'density(prefix)',
                 route='prefix')
    # prefix route with a private table
    if case.get('private_table'):
        _check_prefix_private(ctx, typ, raw, S)


def _private_table():
    """The worker's private table (built on demand in a replay)."""
    T = _state.get('private')
    if T is None:
        from periodictable import core, mass, density
        T = core.PeriodicTable('c18_private_replay_%d' % os.getpid())
        mass.init(T)
        density.init(T)
        _state['private'] = T
    return T


def _check_prefix_private(ctx, typ, raw, S):
    """formula('<type>:<codes>', table=T) for a private table T: the same atoms (Z, A, charge) and counts as the
    sequence class's labile formula - labile hydrogen stays H[1] - and every atom is T's own object."""
    from periodictable import formula, elements
    from .. import atoms as A
    T = _private_table()
    text = typ + ':' + raw
    what = 'formula(%r, table=<private table>)' % text[:80]
    f = formula(text, table=T)
    ctx.evaluated(what='prefix-private-table')
    want = _live_atoms(S.labile_formula)
    if (1, 1, 0) in want and (1, 0, 0) in want:
        ctx.count('prefix_private.labile_hydrogen')
    if not _cmp_atoms(ctx, _live_atoms(f), want, what + ' against Sequence.labile_formula', route='prefix-private'):
        return
    for a in f.atoms:
        k = A.key(a)
        ctx.evaluated(what='prefix-private-table-atom')
        if A.lookup(T, k) is not a:
            ctx.violation('%s: its atom %s is not the private table\'s own %s%s'
                          % (what, a, A.lookup(T, k), ' (it is the default table\'s)' if A.lookup(elements, k) is a else ''),
                          field='prefix-private-atom', route='prefix-private')
            return
    _cmp(ctx, f.mass, S.labile_formula.mass, what, 'mass(prefix, private table)', route='prefix-private')


def check_permutation(ctx, case):
    from periodictable import fasta
    R = _state['ref']
    typ, a, b = case['type'], case['a'], case['b']
    ca, cb = R.clean(a), R.clean(b)
    if sorted(ca) != sorted(cb):
        raise AssertionError('generator: not a permutation')
    Sa = fasta.Sequence('a', a, type=typ)
    Sb = fasta.Sequence('b', b, type=typ)
    what = 'permutation of %d %s codes' % (len(ca), typ)
    ctx.distinct_case(_sig(typ, ca))
    _cmp_atoms(ctx, _live_atoms(Sb.labile_formula), _live_atoms(Sa.labile_formula), what, relation='order')
    L = max(1, len(ca))
    for field, abs_ in (('cell_volume', 0.0), ('charge', 1e-10 * L), ('mass', 0.0), ('Dmass', 0.0),
                        ('sld', 1e-10), ('Dsld', 1e-10)):
        _cmp(ctx, getattr(Sb, field), getattr(Sa, field), what, field, abs_=abs_, relation='order')
    _cmp(ctx, Sb.natural_formula.density, Sa.natural_formula.density, what, 'density(natural_formula)',
         relation='order')
    _check_against_ref(ctx, Sb, typ, cb, what + ' (second order)')


def _render_file(case):
    eol = case['eol']
    lines = list(case['preamble'])
    for rec in case['records']:
        lines.append('>' + rec['header'])
        lines.extend(rec['lines'])
    text = eol.join(lines)
    if lines and case['final_eol']:
        text += eol
    return text


class _Lines(object):
    """A re-iterable container of lines that is neither a list nor a tuple."""

    def __init__(self, lines):
        self._lines = list(lines)

    def __iter__(self):
        return iter(list(self._lines))


def _line_containers(case):
    """(label, argument for read_fasta) - the lines of the text as an open text file delivers them
    ('\\n'-terminated, the last one bare when the text has no final newline) and as text.splitlines()
    delivers them (bare), each as one-shot iterators and as re-iterable containers."""
    import collections
    bare = list(case['preamble'])
    for rec in case['records']:
        bare.append('>' + rec['header'])
        bare.extend(rec['lines'])
    ended = [l + '\n' for l in bare]
    if ended and not case['final_eol']:
        ended[-1] = bare[-1]
    for label, lines in (('terminated lines', ended), ('bare lines', bare)):
        yield 'list of ' + label, list(lines)
        yield 'tuple of ' + label, tuple(lines)
        yield 'generator of ' + label, (l for l in lines)
        yield 'iterator over a list of ' + label, iter(list(lines))
        yield 'deque of ' + label, collections.deque(lines)
        yield 'reiterable object of ' + label, _Lines(lines)


def check_fasta_file(ctx, case):
    from periodictable import fasta
    R = _state['ref']
    ext = case['ext']
    typ = EXT_TYPE.get(ext, 'aa')
    text = _render_file(case)
    recs = case['records']
    want = [''.join(r['lines']) for r in recs]
    tmp = _state.get('tmp') or os.path.join(HERE, 'out', 'C18', 'tmp', 'replay-%d' % os.getpid())
    os.makedirs(tmp, exist_ok=True)
    path = os.path.join(tmp, case['stem'] + ext)
    ctx.count('ext.' + (ext if ext in EXT_TYPE else 'untyped'))
    shape = (ext, len(recs), tuple(min(len(r['lines']), 3) for r in recs)[:6], bool(case['preamble']),
             case['eol'] == '\r\n', case['final_eol'])
    if recs:
        ctx.distinct_case(('file',) + shape)
    for feature, present in (('preamble', bool(case['preamble'])), ('crlf', case['eol'] == '\r\n'),
                             ('no_final_eol', not case['final_eol']),
                             ('empty_record', any(not r['lines'] for r in recs)),
                             ('blank_line', any('' in r['lines'] for r in recs)),
                             ('no_header', not recs)):
        if present:
            ctx.count('file.' + feature)
    try:
        with open(path, 'wb') as fid:
            fid.write(text.encode('ascii'))

        def cmp_records(got, route):
            ctx.evaluated(what='record-count')
            if len(got) != len(recs):
                ctx.violation('%s yields %d records for a text with %d ">" headers'
                              % (route, len(got), len(recs)), field='record-count', route=route)
                return False
            for n, ((_name, seq), w) in enumerate(zip(got, want)):
                ctx.evaluated(what='record-sequence')
                # spaces are ignored in code strings, so a reader may keep or strip them
                if seq == w:
                    ctx.count('observe.record_text_identical')
                if seq.replace(' ', '') != w.replace(' ', ''):
                    ctx.violation('%s record %d is %r, the lines after its header concatenate to %r'
                                  % (route, n, seq[:200], w[:200]), field='record-sequence', route=route)
                    return False
            return True

        # read_fasta on the open text file
        with open(path, 'rt') as fh:
            got = list(fasta.read_fasta(fh))
        cmp_records(got, 'read_fasta(open(path))')
        # read_fasta on an in-memory text (LF texts only: no newline translation there)
        if case['eol'] == '\n':
            cmp_records(list(fasta.read_fasta(io.StringIO(text))), 'read_fasta(StringIO)')
        # read_fasta on the same text handed over as lines in other containers: a one-shot iterator and
        # a re-iterable container of the same lines must give the same records
        for route, fp in _line_containers(case):
            ctx.count('container.' + route.split(' ')[0])
            cmp_records(list(fasta.read_fasta(fp)), 'read_fasta(%s)' % route)
        # loadall: one Sequence per header, typed by the extension
        seqs = list(fasta.Sequence.loadall(path))
        ctx.evaluated(what='record-count')
        if len(seqs) != len(recs):
            ctx.violation('Sequence.loadall yields %d sequences for a file with %d ">" headers'
                          % (len(seqs), len(recs)), field='record-count', route='loadall')
        else:
            for n, (S, w) in enumerate(zip(seqs, want)):
                _check_against_ref(ctx, S, typ, R.clean(w), 'loadall(%r) record %d typed %s'
                                   % (os.path.basename(path), n, typ), route='loadall', ext=ext)
        # load: the first record
        if recs:
            S = fasta.Sequence.load(path)
            _check_against_ref(ctx, S, typ, R.clean(want[0]), 'load(%r) typed %s' % (os.path.basename(path), typ),
                               route='load', ext=ext)
    finally:
        try:
            os.remove(path)
        except OSError:
            pass
        if not _state.get('tmp'):
            shutil.rmtree(tmp, ignore_errors=True)


CHECKS = {'table_row': check_table_row, 'code_average': check_code_average, 'sequence': check_sequence,
          'permutation': check_permutation, 'fasta_file': check_fasta_file}


def classify(rec):
    return None
