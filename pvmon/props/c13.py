"""C13 - printing a formula and parsing the printed string gives the same formula."""
import numbers
import re
from decimal import Decimal, Context, ROUND_HALF_EVEN, ROUND_HALF_UP
from fractions import Fraction

RULE = ('formulas from three sources - parsed from generated strings, built by random formula programs (leaves: atom, '
        'string, dict, nested sequence, copy; operators +, n*, +=), and returned by mix_by_weight / mix_by_volume - are '
        'printed with str() and the printed string is parsed again; counts are log-uniform over [1e-9, 1e9] with the band '
        'that %g prints in exponent form (>= 999999.5 or < 1e-4) confined to about 10 % of the cases and D/T (and their '
        'ions) to about 5 %; a further sixth of the cases, from all three sources, takes its atom, group and multiplier counts '
        '(and the relative amounts of mixture components) from the notation boundaries of %g: next to 1e6 and 1e-4 on '
        'both sides of the point where six-digit rounding changes the notation, and 10^k(1 +- d) for k in -9..12 where the '
        'rounding carries into the next power of ten. Named formulas (keyword, attribute, kept by n*f, mixtures) take their '
        'names from plain ones and from names with apostrophes, double quotes, backslashes, control characters, non-ASCII '
        'text, leading/trailing spaces, %-directives and names that look like formulas. distinct = distinct (source, printed shape) pairs, the shape being the printed string with '
        'symbols, isotope/ion tags and counts abstracted to E/I/Q/n/f; non-trivial = the printed string has a count, a '
        'tag or a group')
SHARDS = {'quick': 8, 'thorough': 16}
TIMEOUT = {'quick': 900, 'thorough': 7200}
TECHNIQUE = ('runtime monitoring: metamorphic print/parse round trip at the str()/formula() boundary over three formula sources, '
             'normal form of the nesting computed outside the library (groups of count 1 elided, counts rounded to six '
             'significant digits with decimal arithmetic), icontract postcondition on _str_atoms, sys.monitoring reach '
             'counters on the branches of the printer; Decimal / Fraction / numpy.float64 twins of every parsed structure '
             'must print the same text')
LEVEL_TEXT = ('Each generated formula is printed by the real str()/repr() and the printed string is parsed by the real formula(); '
              'the structure of the original (read from Formula.structure, keyed by (Z, A, charge)) and of the re-parsed formula '
              'are compared in a normal form computed by the monitor: same atoms, same nesting modulo groups of count 1, every '
              'count equal to the original rounded to six significant digits. Reach is by workload diversity (all atom kinds, '
              'D/T and their ions, 18 decades of counts, nesting from strings, sequences and arithmetic, mixtures over 12 decades); '
              'held means held on the formulas generated.')
LEVEL_NOTE = ('Trusted: pvmon/gen/formulas.py and pvmon/gen/programs.py (workload only - the oracle reads the structure of the real '
              'formula), decimal rounding in CPython, pvmon/ref/masses.py (only to choose mixture quantities). Formulas with '
              'empty groups or zero counts are outside the property (positive counts) and are not generated.')
ASSUMPTIONS = ['"same nesting" is compared modulo groups of count 1, which the printed form cannot carry',
               'a count exactly half way between two six-digit values may round either way',
               'zero counts and empty groups are not generated (the property quantifies over positive counts)',
               'for a named formula only str(f) == name and the repr form are demanded; the repr form is the literal text '
               'formula(\'<str(f)>\') of the property, whatever characters the name holds (no quoting or escaping of the name)']

_s = {}

EXP_COUNT = re.compile(r'[0-9.]+e[+-][0-9]+')
_CTX = Context(prec=60)


class PrintedFormBroken(AssertionError):
    pass


# ---------------------------------------------------------------- count arithmetic
def round6(c):
    """(half-even, half-up) values of count *c* at six significant digits, as floats."""
    d = Decimal(int(c)) if isinstance(c, numbers.Integral) else Decimal(float(c))
    if d == 0 or not d.is_finite():
        return float(d), float(d)
    q = Decimal(1).scaleb(d.adjusted() - 5)
    return (float(d.quantize(q, rounding=ROUND_HALF_EVEN, context=_CTX)),
            float(d.quantize(q, rounding=ROUND_HALF_UP, context=_CTX)))


def exact2(c):
    return float(c), float(c)


def in_exponent_band(c):
    """True when %g prints the count in exponent form."""
    v = round6(c)[0]
    return v >= 1e6 or 0 < v < 1e-4


def _norm(structure, cmap, akey):
    """Nesting modulo groups of count 1: entries (counts, 'a', key) | (counts, 'g', entries)."""
    out = []
    for c, frag in structure:
        cc = cmap(c)
        if isinstance(frag, (list, tuple)):
            inner = _norm(frag, cmap, akey)
            if cc[0] == 1:
                out.extend(inner)
            else:
                out.append((cc, 'g', tuple(inner)))
        else:
            out.append((cc, 'a', akey(frag)))
    return tuple(out)


def _diff(a, b, path='top level'):
    """First difference between the normal form of the original (a) and of the re-parsed formula (b)."""
    if len(a) != len(b):
        return 'nesting', '%s: %d fragments in the original, %d after re-parsing' % (path, len(a), len(b))
    for i, (x, y) in enumerate(zip(a, b)):
        where = '%s, fragment %d' % (path, i)
        if x[1] != y[1]:
            return 'nesting', '%s: %s in the original, %s after re-parsing' % (
                where, 'group' if x[1] == 'g' else 'atom', 'group' if y[1] == 'g' else 'atom')
        if x[1] == 'a' and x[2] != y[2]:
            return 'atoms', '%s: atom %r in the original, %r after re-parsing' % (where, x[2], y[2])
        if y[0][0] not in x[0]:
            return 'count', '%s: count %r after re-parsing, the original at six significant digits is %r' % (
                where, y[0][0], x[0][0])
        if x[1] == 'g':
            d = _diff(x[2], y[2], where)
            if d:
                return d
    return None


# ---------------------------------------------------------------- round trip oracle
def _roundtrip(ctx, f, T, quiet=False):
    """Returns a list of problem dicts {'kind', 'msg', ...} for formula f."""
    import periodictable as pt
    from ..atoms import key as akey
    from ..gen.formulas import shape_of
    problems = []
    s = str(f)
    r = repr(f)
    if not quiet:
        ctx.evaluated(what='repr')
    if r != "formula('" + s + "')":
        problems.append({'kind': 'repr', 'msg': 'repr is %r, str is %r' % (r[:200], s[:200])})
    name = getattr(f, 'name', None)
    if name:
        if not quiet:
            ctx.evaluated(what='name')
            ctx.count('named')
        if s != name:
            problems.append({'kind': 'name', 'msg': 'formula named %r prints %r' % (name, s[:200])})
        return problems, s
    if not quiet:
        ctx.evaluated(what='reparse')
    try:
        g = pt.formula(s, table=T)
    except PrintedFormBroken:
        raise
    except Exception as exc:
        problems.append({'kind': 'reparse-raised', 'exc_type': type(exc).__name__,
                         'msg': 'str(f) = %r does not parse: %s: %s' % (s[:300], type(exc).__name__, str(exc)[:200]),
                         'structure': repr(f.structure)[:400]})
        return problems, s
    a = _norm(f.structure, round6, akey)
    b = _norm(g.structure, exact2, akey)
    if not quiet:
        ctx.evaluated(what='atoms')
        ctx.evaluated(what='nesting+counts')
    ka = set(akey(x) for x in f.atoms)
    kb = set(akey(x) for x in g.atoms)
    if ka != kb:
        problems.append({'kind': 'atoms', 'msg': 'str(f) = %r parses to atoms %r, the original has %r'
                                                 % (s[:300], sorted(kb), sorted(ka))})
    else:
        d = _diff(a, b)
        if d:
            problems.append({'kind': d[0], 'msg': 'str(f) = %r: %s (original structure %s)'
                                                  % (s[:300], d[1], repr(f.structure)[:300])})
    if not quiet and not problems:
        _walk_counts(ctx, f.structure)
    return problems, s


def _walk_counts(ctx, structure):
    for c, frag in structure:
        if c != 1:
            ctx.count('counts.compared')
            if round6(c)[0] != c:
                ctx.count('counts.needing-more-than-6-digits')
            if 999999.5 <= c < 1e6:
                ctx.count('counts.rounding-up-into-exponent-notation')
            elif 0.00009999995 <= c < 1e-4:
                ctx.count('counts.rounding-up-out-of-exponent-notation')
            elif c != round6(c)[0] and Decimal(repr(round6(c)[0])).adjusted() != Decimal(repr(float(c))).adjusted():
                ctx.count('counts.rounding-up-to-next-power-of-ten')
            if isinstance(c, float) or (isinstance(c, numbers.Real) and not isinstance(c, numbers.Integral)):
                ctx.count('counts.float')
        if isinstance(frag, (list, tuple)):
            ctx.count('groups.count-1' if c == 1 else 'groups.counted')
            _walk_counts(ctx, frag)


def _has_exponent_band_count(structure):
    for c, frag in structure:
        if c != 1 and in_exponent_band(c):
            return True
        if isinstance(frag, (list, tuple)) and _has_exponent_band_count(frag):
            return True
    return False


def _features(f, s):
    """Features of the formula that trigger a listed finding: a count in the band that %g prints in
    exponent form (judged on the structure, not on the printed string), an ion of D or T."""
    from ..atoms import key as akey
    feats = []
    if _has_exponent_band_count(f.structure):
        feats.append('exp')
    if any(k[0] == 1 and k[1] in (2, 3) and k[2] != 0 for k in (akey(a) for a in f.atoms)):
        feats.append('dt_ion')
    return feats


def _sibling(structure, T, fix_exp, fix_dt):
    """The same structure with exponent-band counts moved into the positional band (mantissa kept)
    and/or ions of D and T replaced by the ion of H with the same charge."""
    from ..atoms import key as akey, lookup
    out = []
    for c, frag in structure:
        if fix_exp and in_exponent_band(c):
            d = Decimal(repr(round6(c)[0]))
            c = float(d.scaleb(-d.adjusted()))
            if c == 1:
                c = 2.0
        if isinstance(frag, (list, tuple)):
            frag = _sibling(frag, T, fix_exp, fix_dt)
        elif fix_dt:
            k = akey(frag)
            if k[0] == 1 and k[1] in (2, 3) and k[2] != 0:
                frag = lookup(T, (1, 0, k[2]))
        out.append((c, frag))
    return tuple(out)


def _judge(ctx, f, T, case, source):
    """Round trip of one formula; reports violations with the detail the classifier needs."""
    from periodictable import formulas
    from ..gen.formulas import shape_of
    try:
        problems, s = _roundtrip(ctx, f, T)
    except PrintedFormBroken as exc:
        lines = [l.strip() for l in str(exc).split('\n') if l.strip()]
        ctx.violation('postcondition of _str_atoms violated while printing %s: %s'
                      % (repr(f.structure)[:300], ' '.join(lines[1:4])[:400]),
                      kinds=['contract'], source=source)
        return
    feats = _features(f, s) if not getattr(f, 'name', None) else []
    for ft in feats:
        ctx.count('feature.' + ft)
    if any(a.symbol in ('D', 'T') for a in f.atoms):
        ctx.count('feature.dt')
    if problems:
        p = problems[0]
        detail = dict((k, v) for k, v in p.items() if k != 'msg')
        detail['kinds'] = sorted(set(q['kind'] for q in problems))
        detail['features'] = feats
        detail['source'] = source
        detail['printed'] = s[:400]
        if detail['kinds'] == ['reparse-raised'] and feats:
            for label, fe, fd in (('ok_without_exp', True, False), ('ok_without_dt_ion', False, True),
                                  ('ok_without_both', True, True)):
                try:
                    sib = formulas.formula(_sibling(f.structure, T, fe, fd))
                    detail[label] = not _roundtrip(ctx, sib, T, quiet=True)[0]
                except Exception as exc:
                    detail[label] = False
                    detail[label + '_error'] = repr(exc)[:200]
        ctx.violation(p['msg'], **detail)
    if re.search(r'[0-9(\[{]', s):
        ctx.distinct_case((source, shape_of(s)))
    ctx.count('formulas.' + source)


# ---------------------------------------------------------------- checks
def check_parsed(ctx, case):
    import periodictable as pt
    T = _s['tables'][case.get('table', 'public')]
    name = case.get('name')
    if name is None:
        f = pt.formula(case['text'], table=T)
    else:
        ctx.count('named.hostile')
        how = case.get('name_how', 'keyword')
        if how == 'attribute':
            f = pt.formula(case['text'], table=T)
            f.name = name
        elif how == 'renamed-copy':
            # a copy of a formula that already has a name, given a new one: it prints the name it was given
            f0 = pt.formula(case['text'], table=T, name='stock solution')
            f = pt.formula(f0, name=name)
            ctx.evaluated(what='name')
            ctx.count('named.renamed-copy')
            if str(f) != name or f.name != name:
                ctx.violation('formula(<formula named %r>, name=%r) is named %r and prints %r'
                              % (f0.name, name, f.name, str(f)[:200]), kind='name', how=how)
            if str(f0) != 'stock solution':
                ctx.violation('the formula named %r prints %r after a renamed copy was made' % ('stock solution', str(f0)[:200]),
                              kind='name', how=how)
        else:
            f = pt.formula(case['text'], table=T, name=name)
            if how == 'multiplied':
                _judge(ctx, f, T, case, 'parsed')
                f = 3 * f             # the product is a copy: it keeps the name
    _judge(ctx, f, T, case, 'parsed')
    if name is None:
        _count_kind_twins(ctx, f, T)


def _count_kind_twins(ctx, f, T):
    """Round 8: the printed form depends on the VALUE of a count (six significant digits), not on the kind of
    number that holds it: the same structure with every count as a decimal.Decimal / fractions.Fraction / numpy
    scalar of exactly the same value must print the same text."""
    import decimal
    import fractions
    import numpy as np
    import periodictable as pt

    def as_kind(structure, kind):
        return tuple((kind(c), frag if not isinstance(frag, tuple) else as_kind(frag, kind)) for c, frag in structure)

    want = str(f)
    for label, kind in (('decimal.Decimal', decimal.Decimal), ('fractions.Fraction', fractions.Fraction),
                        ('numpy.float64', np.float64)):
        ctx.evaluated(what='count-kind-twin')
        try:
            got = str(pt.formula(as_kind(f.structure, kind), table=T))
        except Exception as exc:  # noqa
            ctx.violation('structure of %r with %s counts cannot be built or printed: %s: %s'
                          % (want[:200], label, type(exc).__name__, exc), kind='count-kind', kinds=['count-kind'])
            continue
        if got != want:
            ctx.violation('structure of %r with %s counts of the same values prints %r' % (want[:200], label, got[:300]),
                          kind='count-kind', kinds=['count-kind'])


def check_program(ctx, case):
    from ..gen.programs import run_program, loads
    T = _s['tables'][case.get('table', 'public')]
    V = run_program(loads(case['prog']), T)
    seen = set()
    for f in V:
        if id(f) in seen:
            continue
        seen.add(id(f))
        _judge(ctx, f, T, case, 'arithmetic')


def _build_mixture(case, T):
    from periodictable import formulas
    args = []
    for text, q, dens, as_formula in case['parts']:
        if as_formula:
            part = formulas.formula(text, table=T, density=dens) if dens is not None else formulas.formula(text, table=T)
        else:
            part = text + ('@%r' % dens if dens is not None else '')
        args.extend([part, q])
    kw = dict(case.get('kw') or {})
    kw['table'] = T
    fn = formulas.mix_by_weight if case['kind'] == 'weight' else formulas.mix_by_volume
    return fn(*args, **kw)


def check_mixture(ctx, case):
    T = _s['tables'][case.get('table', 'public')]
    f = _build_mixture(case, T)
    ctx.count('mixture.' + case['kind'])
    _judge(ctx, f, T, case, 'mixture')


CHECKS = {'parsed': check_parsed, 'program': check_program, 'mixture': check_mixture}

LINE_LABELS = ('str.isotope-tag', 'str.plain-symbol', 'str.charge-tag', 'str.group-count-1', 'str.group-counted')


# ---------------------------------------------------------------- monitors
def setup(ctx):
    import icontract
    import periodictable as pt
    from periodictable import core, formulas, mass, density
    from ..ref.masses import MassModel
    from ..statemon import Reach
    from ..gen.formulas import watch_private

    _s['model'] = MassModel()
    _s['me'] = pt.constants.electron_mass
    T = core.PeriodicTable('c13_private_%d' % ctx.shard)
    mass.init(T)
    density.init(T)
    _s['tables'] = {'public': pt.elements, 'private': T}

    reach = Reach()
    reach.watch(formulas.Formula.__str__, 'Formula.__str__')
    reach.watch(formulas.Formula.__repr__, 'Formula.__repr__')
    # the printer _str_atoms and the two pair mixers are PRIVATE helpers: optional reach counters / line anchors /
    # contract (requirements waived when the name is gone from this tree)
    lines = [('ret += "%s[%d]"%(fragment.symbol, fragment.isotope)', 'str.isotope-tag'),
             ('ret += fragment.symbol', 'str.plain-symbol'),
             ("ret += '{'+value+sign+'}'", 'str.charge-tag'),
             ('piece = _str_atoms(fragment)', 'str.group-count-1'),
             ('piece = "(%s)', 'str.group-counted')]
    str_atoms = watch_private(ctx, reach, formulas, '_str_atoms',
                              waived=['contract._str_atoms'] + ['reach.' + label for _, label in lines])
    watch_private(ctx, reach, formulas, '_mix_by_weight_pairs')
    watch_private(ctx, reach, formulas, '_mix_by_volume_pairs')
    for text, label in lines:
        if not ctx.replay:
            ctx.require('reach.' + label, 1, 'the workload must take this branch of the printer')
        if str_atoms is None:
            continue                # waived together with the function
        try:
            reach.watch_line_matching(str_atoms, text, label)     # text not found: Reach.missing -> waived
        except Exception:           # no source text available
            reach.missing.add(label)
    _s['reach'] = reach
    stats = _s['stats'] = {'evals': 0, 'unrecognised': 0}

    token = re.compile(r'[A-Z][a-z]?(\[[0-9]+\])?(\{[0-9]*[+-]\})?|[()]|[0-9.e+-]+')

    def printed_form_is_balanced_token_text(result):
        """A str without white space, made of symbol/tag/bracket/number tokens, brackets balanced."""
        if not isinstance(result, str):
            stats['unrecognised'] += 1      # the private helper returns something else in this tree: not judged
            return True
        stats['evals'] += 1
        pos, depth = 0, 0
        while pos < len(result):
            m = token.match(result, pos)
            if not m or m.end() == pos:
                return False
            if m.group(0) == '(':
                depth += 1
            elif m.group(0) == ')':
                depth -= 1
                if depth < 0:
                    return False
            pos = m.end()
        return depth == 0

    if str_atoms is not None:
        def judged(*args, **kw):
            return str_atoms(*args, **kw)
        judged.__name__ = '_str_atoms'
        judged.__doc__ = getattr(str_atoms, '__doc__', None)
        formulas._str_atoms = icontract.ensure(printed_form_is_balanced_token_text, error=PrintedFormBroken)(judged)
    reach.start()
    if not ctx.replay:
        for name in ('_str_atoms', 'Formula.__str__', 'Formula.__repr__', '_mix_by_weight_pairs', '_mix_by_volume_pairs'):
            ctx.require('reach.' + name, 1, 'the workload must enter this anchored mechanism')
        ctx.require('contract._str_atoms', 1, 'the _str_atoms postcondition must have been evaluated')
        for name in ('formulas.parsed', 'formulas.arithmetic', 'formulas.mixture', 'named', 'feature.dt',
                     'counts.needing-more-than-6-digits', 'counts.float', 'groups.count-1', 'groups.counted',
                     'mixture.weight', 'mixture.volume', 'named.hostile', 'named.renamed-copy', 'counts.rounding-up-into-exponent-notation',
                     'counts.rounding-up-out-of-exponent-notation', 'counts.rounding-up-to-next-power-of-ten'):
            ctx.require(name, 1, 'workload feature demanded by the property quantifier')


def finish(ctx):
    _s['reach'].stop()
    _s['reach'].export(ctx)
    ctx.count('contract._str_atoms', _s['stats']['evals'])
    from ..gen.formulas import waive_dead
    waive_dead(ctx, '_str_atoms', ['contract._str_atoms'] + ['reach.' + label for label in LINE_LABELS], 'reach.Formula.__str__')
    waive_dead(ctx, '_mix_by_weight_pairs', [], 'mixture.weight')
    waive_dead(ctx, '_mix_by_volume_pairs', [], 'mixture.volume')
    if _s['stats']['unrecognised']:
        from ..gen.formulas import waive_unjudged
        ctx.count('contract._str_atoms.unrecognised_call', _s['stats']['unrecognised'])
        waive_unjudged(ctx, 'contract._str_atoms', _s['stats']['evals'], _s['stats']['unrecognised'],
                       'the private formulas._str_atoms')
    n = sum(ctx.counters.get('formulas.' + k, 0) for k in ('parsed', 'arithmetic', 'mixture'))
    if n:
        ctx.info['share_exponent_band'] = round(ctx.counters.get('feature.exp', 0) / n, 4)
        ctx.info['share_dt_ion'] = round(ctx.counters.get('feature.dt_ion', 0) / n, 4)


# ---------------------------------------------------------------- workload
def positional(v, digits):
    """Positional decimal text of the positive number v at *digits* significant digits (no exponent)."""
    d = Decimal(repr(float(v)))
    q = Decimal(1).scaleb(d.adjusted() - (digits - 1))
    d = d.quantize(q, context=_CTX)
    text = format(d, 'f')
    if '.' in text:
        text = text.rstrip('0')
    return text


# counts around the two points where %g changes notation (the window [999999.5, 1e6) rounds up INTO exponent
# form, [0.00009999995, 0.0001) rounds up OUT of it), and counts that carry into the next power of ten
NOTATION_BOUNDARY = ['999999', '999999.4', '999999.49', '999999.499999', '999999.5', '999999.500001', '999999.51',
                     '999999.7', '999999.9', '999999.99', '999999.999999', '1000000', '1000000.4', '1000000.5',
                     '1000001', '1000001.5', '1000010', '999998.5', '999999.05', '9999995', '9999994.9', '99999950',
                     '0.000099999', '0.0000999994', '0.00009999949', '0.0000999995', '0.00009999951', '0.00009999996',
                     '0.0000999999999', '0.0001', '0.0001000001', '0.00010000049', '0.0001000005', '0.000100001',
                     '0.00001', '0.0000099999951', '0.00099999951',
                     '9.999995', '9.9999949', '9.9999951', '99.99995', '99.999951', '999.9995', '999.99951',
                     '9999.995', '9999.9951', '99999.95', '99999.949', '99999.951', '0.9999995', '0.99999951',
                     '0.99999949', '0.09999995', '0.099999951', '0.009999995', '0.0099999951', '0.0009999995']

# names a material may legitimately have, hostile to any quoting, escaping or %-formatting of the name
HOSTILE_NAMES = ["Wood's metal", "Field's metal", "Rochelle's salt", "Devarda's alloy", "'", "''", "it's \"quoted\"",
                 '5" wafer', '"', 'a\\b', 'C:\\data\\sample', '\\', "back\\'tick", 'tab\there', 'line\nbreak',
                 'cr\rlf\n', 'bell\x07', '\u00b5-metal', '\u03b2-casein', '\u6c34', 'caf\u00e9 au lait', '\u2028sep',
                 'nbsp\u00a0name', ' leading space', 'trailing space ', '  ', 'H2O', 'D2O@1n', 'Fe{2+}', '(', ')',
                 "formula('x')", "formula(\"Wood's\")", '%s', '100%', '%d %(name)s', '{0} {name}', '{', '0', 'None',
                 'x' * 300, '\x7f', '\ud7ff', 'emoji \U0001f9ea']


class Counts(object):
    """Count generator shared by the three sources; *hot* admits the exponent band."""

    def __init__(self, rng):
        self.rng = rng
        self.hot = False
        self.boundary = False

    def boundary_value(self, lo=-9, hi=12):
        """(text, Fraction) of a count at a notation boundary of %g: next to 1e6 and 1e-4 (where %g changes
        between positional and exponent form, decided AFTER rounding to six digits), or next to any power of
        ten, on either side of the point where six-digit rounding carries into the next power."""
        rng = self.rng
        if rng.random() < 0.5:
            text = rng.choice(NOTATION_BOUNDARY)
        else:
            k = rng.choice([6, 6, -4, -4, rng.randint(lo, hi)])
            delta = rng.choice(['4e-7', '4.9e-7', '4.99999e-7', '5e-7', '5.00001e-7', '5.1e-7', '6e-7', '3e-7', '1e-7',
                                '1e-9', '1e-12', '9e-7', '1e-6', '1.4e-6', '1.5e-6', '0'])
            d = Decimal(1).scaleb(k) * (Decimal(1) + Decimal(rng.choice(['-', '-', '-', '+']) + delta))
            text = format(d, 'f')
            if '.' in text:
                text = text.rstrip('0').rstrip('.')
        v = Fraction(text)
        if v == 1 or v <= 0:
            return self.boundary_value(lo, hi)
        return text, v

    def value(self):
        """(text, Fraction) of a positive count other than 1, positional notation."""
        rng = self.rng
        if self.boundary and rng.random() < 0.6:
            return self.boundary_value()
        while True:
            r = rng.random()
            if r < 0.30:
                n = rng.randint(2, 60)
                return str(n), Fraction(n)
            if self.hot and r < 0.65:
                e = rng.choice([rng.uniform(-9, -4), rng.uniform(6, 9)])
            elif self.hot:
                e = rng.uniform(-9, 9)
            else:
                e = rng.uniform(-4, 6)
            digits = rng.choice([1, 2, 3, 4, 5, 6, 6, 7, 8, 9, 12, 15])
            text = positional(10 ** e, digits)
            v = Fraction(text)
            if v == 0 or v == 1:
                continue
            if not self.hot and in_exponent_band(float(v)):
                continue
            if '.' in text:
                if text.endswith('.'):
                    text = rng.choice([text, text[:-1]]) if text[:-1] else text
                elif text.startswith('0.') and rng.random() < 0.3:
                    text = text[1:]
            elif rng.random() < 0.1:
                text += '.'
            if not re.fullmatch(r'[1-9][0-9]*|(0|[1-9][0-9]*|)[.][0-9]*', text) or text == '.':
                continue
            return text, v

    def string_count(self, allow_one=True, p_one=0.35):
        if allow_one and self.rng.random() < p_one:
            return '', Fraction(1)
        return self.value()

    def number(self, rng=None):
        """A number spec for dict/sequence counts and multipliers."""
        rng = self.rng
        r = rng.random()
        if r < 0.22:
            return [rng.choice(['i', 'i', 'f', 'ni64', 'nf64']), 1]
        text, v = self.value()
        if v.denominator == 1 and rng.random() < 0.7:
            return [rng.choice(['i', 'i', 'i', 'ni64']), int(v)]
        return [rng.choice(['f', 'f', 'f', 'nf64']), float(v)]


def _probe(fn):
    """Features of the formulas a candidate case produces (generator-side shaping only)."""
    try:
        fs = fn()
    except Exception:
        return None
    feats = set()
    for f in fs:
        try:
            feats.update(_features(f, str(f)))
        except Exception:
            return None
    return feats


def generate(ctx):
    import periodictable as pt
    from ..gen.formulas import FormulaGen, fold
    from ..gen.programs import ProgramGen, dumps, run_program
    rng = ctx.rng
    tables = _s['tables']
    m, me = _s['model'], _s['me']
    counts = Counts(rng)
    fgens, pgens = {}, {}
    for t, T in tables.items():
        fg = FormulaGen(T, rng, ws_patterns=0.0, p_dt=0.0)
        fg.count = counts.string_count
        fgens[t] = fg
        pg = ProgramGen(T, rng, positive=True, protocols=True, leaf_count=counts.number, multiplier=counts.number,
                        p_dt=0.0, string_counts=counts.string_count,
                        name_pool=['water', 'salt', 'sample 7', 'x'] + HOSTILE_NAMES)
        pgens[t] = pg

    def flags():
        hot = rng.random() < 0.10
        dt = rng.random() < 0.05
        counts.hot = hot
        for g in list(fgens.values()) + [p.fgen for p in pgens.values()]:
            g.p_dt = 0.5 if dt else 0.0
        for p in pgens.values():
            p.p_dt = 0.5 if dt else 0.0
        return hot, dt

    def admissible(feats, hot, dt):
        # a cold case must not carry a feature of a known finding; if shaping fails the case is used anyway
        if feats is None:
            return True
        return (hot or 'exp' not in feats) and (dt or 'dt_ion' not in feats)

    n = ctx.scale(650, 20000)
    nb = ctx.scale(110, 3000)       # additional cases whose counts sit at the notation boundaries of %g
    for j in range(n + nb):
        tname = 'private' if rng.random() < 0.1 else 'public'
        T = tables[tname]
        hot, dt = flags()
        counts.boundary = j >= n
        if counts.boundary:
            hot = counts.hot = True
        r = j % 10
        for attempt in range(6):
            if r < 4:
                depth = rng.choice([0, 1, 2, 3]) if not ctx.thorough() else rng.choice([0, 1, 2, 3, 5])
                node = fgens[tname].compound(0, depth) if rng.random() < 0.93 else fgens[tname].deep(rng.choice([4, 8, 15]))
                case = {'text': node.text, 'table': tname}
                if rng.random() < 0.08:
                    case['name'] = rng.choice(HOSTILE_NAMES)
                    case['name_how'] = rng.choice(['keyword', 'attribute', 'multiplied', 'renamed-copy'])
                name = 'parsed'
                feats = _probe(lambda: [pt.formula(node.text, table=T)])
            elif r < 7:
                prog = pgens[tname].program(rng.randint(2, 9))
                case = {'prog': dumps(prog), 'table': tname}
                name = 'program'
                feats = _probe(lambda: run_program(prog, T))
            else:
                case = _mixture_case(rng, fgens[tname], counts, m, me, tname, hot)
                if counts.boundary:
                    _boundary_mixture(rng, case, counts, m, me)
                name = 'mixture'
                feats = _probe(lambda: [_build_mixture(case, T)])
            if admissible(feats, hot, dt):
                break
        yield name, case


def _boundary_mixture(rng, case, counts, m, me):
    """Re-scale the quantities of a mixture case so that the amounts of substance relative to the smallest
    one (the printed counts) sit at notation boundaries >= 1 (a dilute component: 1 ppm is a count of 1e6)."""
    import periodictable as pt
    from ..gen.formulas import fold
    parts = case['parts']
    if len(parts) < 2:
        return
    base = rng.randrange(len(parts))
    scale = 10 ** rng.uniform(-3, 3)
    for i, part in enumerate(parts):
        text, q, dens, as_formula = part
        f = pt.formula(text, table=_s['tables'][case['table']])
        mass = sum(float(c) * m.atom_mass(k, me) for k, c in _model_atoms(f).items())
        rr = 1.0 if i == base else float(counts.boundary_value(1, 9)[1])
        part[1] = rr * mass * scale / (dens if case['kind'] == 'volume' else 1.0)
    case['kw'].pop('name', None)


def _model_atoms(f):
    from ..atoms import key as akey
    out = {}
    for a, c in f.atoms.items():
        out[akey(a)] = out.get(akey(a), 0) + c
    return out


def _mixture_case(rng, fgen, counts, m, me, tname, hot):
    from ..gen.formulas import fold
    kind = rng.choice(['weight', 'volume'])
    parts = []
    nparts = rng.choice([1, 2, 2, 3, 3, 4])
    scale = 10 ** rng.uniform(-3, 3)
    for _ in range(nparts):
        node = fgen.compound(0, rng.choice([0, 0, 1]), ngroups=rng.randint(1, 2))
        mass = sum(float(c) * m.atom_mass(k, me) for k, c in fold(node.struct).items())
        dens = round(10 ** rng.uniform(-1, 1.3), 3) if (kind == 'volume' or rng.random() < 0.5) else None
        # relative amount of substance r: the printed counts are r / min(r)
        rr = 10 ** (rng.uniform(0, 12) if hot else rng.uniform(0, 4))
        if rng.random() < 0.25:
            rr = float(rng.randint(1, 20))
        q = rr * mass * scale / (dens if kind == 'volume' else 1.0)
        parts.append([node.text, q, dens, rng.random() < 0.5])
    kw = {}
    r = rng.random()
    if r < 0.12:
        kw['name'] = rng.choice(['buffer', '5% saline', 'mix A'] + HOSTILE_NAMES)
    if 0.08 < r < 0.3:
        kw['density'] = round(10 ** rng.uniform(-1, 1.3), 3)
    elif r > 0.95:
        kw['natural_density'] = round(10 ** rng.uniform(-1, 1.3), 3)
    return {'kind': kind, 'parts': parts, 'kw': kw, 'table': tname}


def classify(rec):
    d = rec.get('detail') or {}
    if d.get('kinds') != ['reparse-raised']:
        return None
    feats = d.get('features') or []
    exc = d.get('exc_type')
    printed = d.get('printed') or ''
    if 'exp' in feats and d.get('ok_without_exp') is True and exc == 'ParseException' and EXP_COUNT.search(printed):
        # the printed string carries a count in exponent form and the same formula with those counts
        # moved into the positional band round-trips
        return 'c13.count-exponent-format'
    if 'dt_ion' in feats and d.get('ok_without_dt_ion') is True and exc == 'TypeError' \
            and re.search(r'[DT]\[[23]\]\{', printed):
        # an ion of D/T printed as D[2]{..} and the same formula with the ion of H instead round-trips
        return 'c13.dt-ion-print'
    if 'exp' in feats and 'dt_ion' in feats and d.get('ok_without_both') is True \
            and exc in ('ParseException', 'TypeError'):
        return 'c13.dt-ion-print+count-exponent-format'
    return None
