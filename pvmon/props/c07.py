"""C07 - neutron data of every element and isotope are those of the embedded table.

Exhaustive sweep: every row of nsf.nsftable (all fields), every row of nsf.nsftableI, the complex-b_c
relation, the sole-isotope fallback, every atom outside the table, every node of every energy table -
on the public table and on private tables created at several points of the process history.  The oracle
is the independent reader pvmon.ref.neutron.NeutronModel."""
import math

from ..statemon import Reach

RULE = ('one case per (table variant, table row), per (variant, element Z) for the fallback / not-in-table '
        'clauses and per (variant, energy table); each row case compares the ten tabulated fields, the '
        'companion-table imaginary lengths and the complex-b_c relation with an independent re-read of the '
        'embedded strings; distinct = distinct (variant, row), (variant, Z, clause) and (variant, energy table, '
        'node-set) signatures; every one compares tabulated numbers or a stated absence, none is trivial')
EXHAUSTIVE = True
TECHNIQUE = ('runtime monitoring: exhaustive sweep of the live neutron records against an independent regular-expression '
             're-read of the embedded tables (reference-model monitor); sys.monitoring reach counters on nsf.init and, as '
             'optional evidence, on the loader helpers nsf.fix_number / nsf.energy_dependent_init')
LEVEL_TEXT = ('Every row of the embedded neutron table and of its imaginary companion, every atom outside the table and '
              'every node, three interior points of every segment and six points beyond the ends of the 14 energy tables are read through the public attributes of the public table and of private '
              'tables created at several points of a process history, and compared with an independent reader; the sweep '
              'is exhaustive over rows, fields and nodes, so the only sampling is over process histories.')
LEVEL_NOTE = ('Trusted: the regex reader in pvmon/ref/neutron.py, CPython float parsing, the embedded strings and the public data '
              'nsf_tables.ENERGY_DEPENDENT_TABLES (cross-read from the source text of nsf_tables.py where its layout allows) as specification. Energy-table nodes are compared to 1e-12 fm (bit-exact count reported).')
SHARDS = {'quick': 4, 'thorough': 8}
ASSUMPTIONS = ['the embedded table strings and the nsf_tables.ENERGY_DEPENDENT_TABLES literal are the specification (literature values are not checked)',
               'how often a loader calls its helpers is not part of the property: the counters on nsf.fix_number / nsf.energy_dependent_init are '
               'evidence, waived (anchor_missing.*) when the helper is absent or a correct loader keeps parsed rows',
               'independent reader pvmon/ref/neutron.py (regular expressions), masses/abundances from pvmon/ref/masses.py',
               'the two documented gap fills (Xe total = coherent + incoherent, Eu-151 b_c = sqrt(coherent/(4 pi/100))) are part of the specification',
               'a half-life entry in the abundance column means "no abundance": 0 or None are both accepted',
               'elements without a natural row but with several isotope rows (Pu, Cm) are not constrained by the property; observed only',
               'private tables are created only after the public neutron group has been touched (the other order is C10/D7)']

FIELDS = ('b_c', 'bp', 'bm', 'coherent', 'incoherent', 'total', 'absorption')
NODE_TOL = 1e-12      # fm, energy-table nodes (values are O(1..100) fm)
_state = {}


def _variants(ctx):
    v = ['public', 'private_fresh']
    if ctx.thorough():
        v += ['private_late', 'private_after_mutation', 'public_after_private']
    return v


def _private(name):
    from periodictable import core, mass, density, nsf
    T = core.PeriodicTable(name)
    mass.init(T)
    density.init(T)
    nsf.init(T)
    return T


def function_seen(reach, label):
    return label in reach.codes.values()


def setup(ctx):
    import periodictable as pt
    from periodictable import nsf
    from ..ref.neutron import NeutronModel
    from ..ref.neutron import private, watch_entry
    # Loader internals (nsf.fix_number, nsf.energy_dependent_init: helpers of nsf.init, in no __all__) are optional
    # instrumentation.  "Every row was read" is judged by the VALUES the tables serve - the sweep below compares
    # every field of every row, on the public and on a private table - never by how often a loader calls a helper.
    reach = Reach()
    watch_entry(ctx, reach, nsf.init, 'nsf.init')
    has_fix = watch_entry(ctx, reach, private(ctx, nsf, 'fix_number', ['reach.numbers_converted_by_loader']),
                          'fix_number', requirements=['reach.numbers_converted_by_loader'])
    watch_entry(ctx, reach, private(ctx, nsf, 'energy_dependent_init', ['reach.energy_dependent_init']),
                'energy_dependent_init')
    reach.start()
    # the public neutron group is touched first (a private nsf table created before that is C10's D7)
    pt.elements.Fe.neutron
    public_calls = reach.counts['fix_number']
    m = _state['model'] = NeutronModel()
    expected = m.expected_fix_number_calls()
    tables = {'public': pt.elements}
    before = reach.counts['fix_number']
    before_e = reach.counts['energy_dependent_init']
    tables['private_fresh'] = _private('c07_fresh_%d' % ctx.shard)
    private_calls = reach.counts['fix_number'] - before
    ctx.info['fix_number_calls_public_first_touch'] = public_calls
    ctx.info['fix_number_calls_private_init'] = private_calls
    ctx.info['numbers_expected_by_reader'] = expected
    ctx.info['reader_counts'] = {'rows': m.nrows, 'imaginary_rows': len(m.imag_rows),
                                 'energy_tables': len(m.energy), 'energy_nodes': m.energy_nodes,
                                 'natural_rows': len(m.natural_rows),
                                 'isotope_rows': m.nrows - len(m.natural_rows),
                                 'single_isotope_elements': len(m.single_isotope),
                                 'energy_tables_read_from': m.energy_source,
                                 'energy_literal_equals_source_text': m.energy_source_matches_literal}
    if m.energy_source_note:
        ctx.note('energy tables taken from %s: %s' % (m.energy_source, m.energy_source_note))
    # observation: numbers the loader was seen converting while it filled the private table
    ctx.count('reach.numbers_converted_by_loader', private_calls)
    if has_fix and private_calls < expected:
        # a loader that parses the embedded strings once and keeps the parsed rows, or converts several numbers per
        # call, is a correct loader: the call counter is evidence only
        from ..ref.neutron import anchor_missing
        anchor_missing(ctx, 'call counter of nsf.fix_number', ['reach.numbers_converted_by_loader'],
                       why='saw %d conversions during nsf.init(private table), %d on the first public touch, the tables '
                           'hold %d numbers: this loader does not convert each number once per table (parsed rows kept or '
                           'another helper used); that every row was read is judged by the values served (rows_checked, '
                           'imaginary_rows_checked, energy_nodes_checked)' % (private_calls, public_calls, expected))
    if reach.counts['energy_dependent_init'] - before_e < 1 and function_seen(reach, 'energy_dependent_init'):
        from ..ref.neutron import anchor_missing
        anchor_missing(ctx, 'entry counter of nsf.energy_dependent_init', ['reach.energy_dependent_init'],
                       why='was not entered by nsf.init(private table): the energy tables are attached another way in this '
                           'tree; that they are attached is judged by the node sweep (energy_nodes_checked)')
    ctx.require('reach.numbers_converted_by_loader', expected,
                'nsf.init(T) observed converting every number of every row (7 per row + abundances + 3 per imaginary '
                'row); evidence only: waived when the loader keeps parsed rows')
    ctx.require('reach.nsf.init', 2, 'nsf.init must have run for the public and for a private table')
    ctx.require('reach.energy_dependent_init', 2, 'energy tables attached for the public and a private table')
    _state['tables'] = tables
    if ctx.thorough():
        _history(ctx)
    reach.stop()
    _state['reach'] = reach


def _history(ctx):
    """Thorough-tier table variants (also built on demand when a witness of such a variant is replayed)."""
    import periodictable as pt
    tables = _state['tables']
    # a history: other lazy groups, calculators, then a late private table
    for el in (pt.Fe, pt.Cu):
        el.covalent_radius, el.crystal_structure, el.xray, el.K_alpha, el.magnetic_ff
    pt.Fe[56].neutron_activation
    pt.neutron_sld('Gd2O3', density=7.4, wavelength=0.7)
    pt.Gd.neutron.scattering(wavelength=[0.5, 4.0])
    tables['private_late'] = _private('c07_late_%d' % ctx.shard)
    # mutate every record of one private table, then create another one; the public table is swept again last
    Ta = _private('c07_mut_%d' % ctx.shard)
    import numpy as np
    # the records of the atoms that have a row of their own (the rows of the public data nsf.nsftable; an element
    # without a natural row shares the record of its isotope) - never the placeholder that stands in for atoms
    # without a row, which is shared between tables (known finding c10.shared-missing-neutron-placeholder)
    m = _state['model']
    for Z, A in m.rows:
        n = getattr(_atom(Ta, Z, A), 'neutron', None)
        if n is None:
            continue
        n.b_c, n.total, n.absorption, n.coherent = 1.25, 2.5, 3.75, 5.0
        n.b_c_complex = 7 - 7j
        n.abundance, n.is_energy_dependent, n.b_c_i = 12.5, True, -9.
        if getattr(n, 'nsf_table', None) is not None:
            n.nsf_table = (n.nsf_table[0], np.zeros_like(n.nsf_table[1]))
    tables['private_after_mutation'] = _private('c07_aftermut_%d' % ctx.shard)
    tables['public_after_private'] = pt.elements


def _table(ctx, name):
    if name not in _state['tables']:
        _history(ctx)     # replay of a thorough-tier variant in a quick-tier context
    return _state['tables'][name]


def generate(ctx):
    m = _state['model']
    i = 0
    for variant in _variants(ctx):
        for r in range(m.nrows):
            if ctx.mine(i):
                yield 'row', {'table': variant, 'row': r, 'id': '%d-%s-%d' % ((m.rows[r][0], m.symbol[m.rows[r][0]], m.rows[r][1]))}
            i += 1
        for Z in range(0, 119):
            if ctx.mine(i):
                yield 'element', {'table': variant, 'Z': Z}
            i += 1
        for k in m.energy_order:
            if ctx.mine(i):
                yield 'energy', {'table': variant, 'Z': k[0], 'A': k[1]}
            i += 1
    if ctx.shard == 0:
        yield 'coverage', {}
    # first touch of the lazily loaded neutron group through each kind of object, in a fresh interpreter each
    probes = [[1, 2, 0], [3, 6, 0], [26, 55, 0], [26, 0, 2], [28, 62, 2], [85, 0, 0], [64, 157, 0], [62, 0, 0]]
    if ctx.thorough():
        probes += [[1, 3, 0], [1, 2, 1], [5, 10, 0], [92, 238, 0], [92, 0, 6], [63, 151, 0], [71, 176, 3], [2, 3, 0],
                   [0, 1, 0], [118, 0, 0], [94, 0, 0], [96, 244, 0]]
    for j, probe in enumerate(probes):
        if ctx.mine(i + j):
            yield 'first_touch', {'probe': probe}


FIRST_TOUCH_SCRIPT = r'''
import json, sys
import periodictable as pt
def atom(Z, A, q):
    a = pt.elements[Z]
    if A: a = a[A]
    if q: a = a.ion[q]
    return a
def read(Z, A, q):
    n = atom(Z, A, q).neutron
    return dict(b_c=n.b_c, bp=n.bp, bm=n.bm, coherent=n.coherent, incoherent=n.incoherent, total=n.total,
                absorption=n.absorption, has_sld=bool(n.has_sld()),
                b_c_complex=None if n.b_c_complex is None else [n.b_c_complex.real, n.b_c_complex.imag])
probe = json.loads(sys.argv[1])
out = [[probe, read(*probe)]]
for k in json.loads(sys.argv[2]):
    out.append([k, read(*k)])
print(json.dumps(out))
'''
FIRST_TOUCH_OTHERS = [[1, 0, 0], [1, 2, 0], [1, 6, 0], [3, 6, 0], [26, 0, 0], [26, 55, 0], [26, 56, 3], [28, 62, 0],
                      [64, 157, 0], [62, 0, 0], [85, 0, 0], [88, 226, 0], [83, 0, 0]]


def check_first_touch(ctx, case):
    """The very first access to the neutron group of a fresh interpreter goes through the probe atom
    (element, isotope, ion, isotope ion, with or without data); it and a fixed list of atoms read
    afterwards must report their own rows."""
    import json
    import math
    import subprocess
    import sys
    m = _state['model']
    p = subprocess.run([sys.executable, '-c', FIRST_TOUCH_SCRIPT, json.dumps(case['probe']), json.dumps(FIRST_TOUCH_OTHERS)],
                       capture_output=True, text=True, timeout=300)
    ctx.distinct_case(('first_touch', tuple(case['probe'])))
    if p.returncode != 0:
        ctx.evaluated(what='first-touch')
        ctx.violation('first neutron access through %r in a fresh interpreter failed: %s' % (case['probe'], p.stderr[-400:]))
        return
    for (Z, A, q), got in json.loads(p.stdout.strip().splitlines()[-1]):
        rec = m.record(Z, A)
        for f in FIELDS:
            ctx.evaluated(what='first-touch')
            want = rec[f] if rec is not None else None
            if not _same(got[f], want):
                ctx.violation('first touch through %r: %r.neutron.%s is %r, its own row gives %r'
                              % (case['probe'], (Z, A, q), f, got[f], want), field=f, atom=[Z, A, q])
        ctx.evaluated(what='first-touch')
        if rec is None and got['has_sld']:
            ctx.violation('first touch through %r: %r is not in the neutron table but has_sld() is True'
                          % (case['probe'], (Z, A, q)), atom=[Z, A, q])
        if rec is not None and rec['b_c'] is not None and rec['absorption'] is not None:
            ctx.evaluated(what='first-touch')
            want = complex(rec['b_c'], -rec['absorption'] / (2000 * 1.798))
            gc = got['b_c_complex']
            if gc is None or any(isinstance(v, float) and math.isnan(v) for v in gc) or \
                    abs(complex(gc[0], gc[1]) - want) > 1e-12 * max(1, abs(want)):
                ctx.violation('first touch through %r: %r.neutron.b_c_complex is %r, expected %r'
                              % (case['probe'], (Z, A, q), gc, want), atom=[Z, A, q], field='b_c_complex')


def _atom(T, Z, A):
    el = T[Z]
    return el[A] if A else el


def _same(got, want):
    """Table value equality: both missing, or the same double."""
    if want is None or got is None:
        return want is None and got is None
    return got == want


def check_row(ctx, case):
    m = _state['model']
    T = _table(ctx, case['table'])
    Z, A = m.rows[case['row']]
    rec = m.rec[(Z, A)]
    el = T[Z]
    ctx.distinct_case((case['table'], 'row', Z, A))
    ctx.evaluated(what='symbol')
    if el.symbol != rec['symbol']:
        ctx.violation('row %s belongs to Z=%d whose symbol is %s' % (case['id'], Z, el.symbol), field='symbol')
        return
    if A and A not in el.isotopes:
        ctx.evaluated(what='isotope-exists')
        ctx.violation('isotope %s[%d] of the neutron table does not exist in the table' % (el.symbol, A), field='isotope')
        return
    at = _atom(T, Z, A)
    n = at.neutron
    for f in FIELDS:
        ctx.evaluated(what='field.' + f)
        got = getattr(n, f)
        if not _same(got, rec[f]):
            ctx.violation('%s.neutron.%s is %r, table row gives %r%s'
                          % (case['id'], f, got, rec[f], ' (gap fill)' if f in rec['gapfill'] else ''),
                          field=f, got=got, want=rec[f], gapfill=list(rec['gapfill']))
    ctx.evaluated(what='field.is_energy_dependent')
    if bool(n.is_energy_dependent) != rec['is_energy_dependent']:
        ctx.violation('%s.neutron.is_energy_dependent is %r, flag column is %r'
                      % (case['id'], n.is_energy_dependent, rec['flag']), field='is_energy_dependent')
    if A:
        ctx.evaluated(2, 'field.isotope')
        if at.nuclear_spin != rec['nuclear_spin']:
            ctx.violation('%s.nuclear_spin is %r, table %r' % (case['id'], at.nuclear_spin, rec['nuclear_spin']),
                          field='nuclear_spin')
        if rec['abundance'] is not None:
            if n.abundance != rec['abundance']:
                ctx.violation('%s.neutron.abundance is %r, table %r' % (case['id'], n.abundance, rec['abundance']),
                              field='abundance', got=n.abundance, want=rec['abundance'])
        elif n.abundance not in (0, None):
            ctx.violation('%s.neutron.abundance is %r but the row gives %r (no abundance)'
                          % (case['id'], n.abundance, rec['abundance_text']), field='abundance', got=n.abundance)
    # complex scattering length: b_c - i absorption/(2000*1.798), on the tabulated AND on the reported values
    if rec['b_c'] is not None and rec['absorption'] is not None:
        want = complex(rec['b_c'], -rec['absorption'] / (2000 * 1.798))
        got = n.b_c_complex
        ctx.evaluated(what='b_c_complex')
        ok = got is not None and ctx.close(got, want, rel=1e-14, name='b_c_complex.relerr')
        if not ok:
            gc = complex(got) if got is not None else None
            ctx.violation('%s.neutron.b_c_complex is %r, b_c - i*absorption/(2000*1.798) = %r (b_c reported as %r)'
                          % (case['id'], got, want, n.b_c), field='b_c_complex',
                          gapfill=list(rec['gapfill']),
                          observed_real_nan=bool(gc is not None and math.isnan(gc.real)),
                          observed_imag_ok=bool(gc is not None and ctx.close(gc.imag, want.imag, rel=1e-14)),
                          reported_b_c_ok=_same(n.b_c, rec['b_c']))
        if n.b_c is not None and n.absorption is not None and got is not None:
            ctx.evaluated(what='b_c_complex.reported')
            rel = complex(n.b_c, -n.absorption / (2000 * 1.798))
            if ok and not ctx.close(got, rel, rel=1e-14):
                ctx.violation('%s: b_c_complex %r is not b_c - i*absorption/3596 of the reported values %r'
                              % (case['id'], got, rel), field='b_c_complex.reported')
    else:
        ctx.count('rows_without_b_c')
    # imaginary companion table
    want_i = m.imag.get((Z, A), (None, None, None))
    got_i = (n.b_c_i, n.bp_i, n.bm_i)
    ctx.evaluated(3, 'imaginary')
    if (Z, A) in m.imag:
        ctx.distinct_case((case['table'], 'imag', Z, A))
        ctx.count('imaginary_rows_checked')
    for name, g, w in zip(('b_c_i', 'bp_i', 'bm_i'), got_i, want_i):
        if not _same(g, w):
            ctx.violation('%s.neutron.%s is %r, companion table gives %r' % (case['id'], name, g, w),
                          field=name, in_companion=(Z, A) in m.imag)
    ctx.count('rows_checked')


def check_element(ctx, case):
    """Sole-isotope fallback and the atoms outside the table."""
    m = _state['model']
    T = _table(ctx, case['table'])
    Z = case['Z']
    el = T[Z]
    if Z in m.single_isotope:
        A = m.fallback[Z]
        rec = m.rec[(Z, A)]
        n, ni = el.neutron, el[A].neutron
        ctx.distinct_case((case['table'], 'single-isotope', Z))
        ctx.count('single_isotope_elements_checked')
        ctx.count('single_isotope_record_is_shared_object', int(n is ni))
        for f in FIELDS + ('is_energy_dependent',):
            ctx.evaluated(what='fallback.' + f)
            want = rec[f]
            got = getattr(n, f)
            if not _same(got, want) or not _same(got, getattr(ni, f)):
                ctx.violation('%s has no natural row; %s.neutron.%s is %r, its only isotope %d reports %r, table %r'
                              % (el.symbol, el.symbol, f, got, A, getattr(ni, f), want), field='fallback.' + f)
        ctx.evaluated(what='fallback.b_c_complex')
        if not ctx.close(n.b_c_complex, complex(rec['b_c'], -rec['absorption'] / 3596.), rel=1e-14):
            ctx.violation('%s.neutron.b_c_complex is %r, its only isotope gives %r'
                          % (el.symbol, n.b_c_complex, complex(rec['b_c'], -rec['absorption'] / 3596.)),
                          field='fallback.b_c_complex')
    elif Z in m.fallback:
        ctx.count('elements_with_several_isotope_rows_and_no_natural_row')   # Pu, Cm: not constrained
        ctx.note('%s: no natural row, isotope rows %r; element reports b_c=%r (first listed isotope has %r)'
                 % (el.symbol, m.isotope_rows[Z], el.neutron.b_c, m.rec[(Z, m.fallback[Z])]['b_c']))
    elif Z not in m.natural_rows:
        ctx.distinct_case((case['table'], 'element-not-in-table', Z))
        _no_sld(ctx, el, '%s (no row)' % el.symbol)
        ctx.count('elements_outside_table')
    # isotopes that have no row
    missing = [A for A in el.isotopes if (Z, A) not in m.row]
    if missing:
        ctx.distinct_case((case['table'], 'isotopes-not-in-table', Z))
    for A in missing:
        _no_sld(ctx, el[A], '%s[%d] (no row)' % (el.symbol, A))
        ctx.count('isotopes_outside_table')


def _no_sld(ctx, at, label):
    ctx.evaluated(2, 'no-sld')
    n = at.neutron
    if n.has_sld():
        ctx.violation('%s reports has_sld() True (b_c=%r)' % (label, n.b_c), field='has_sld')
    r = n.sld(wavelength=1.798)
    if tuple(r) != (None, None, None):
        ctx.violation('%s: neutron.sld() is %r, expected (None, None, None)' % (label, r), field='sld-none')


def check_energy(ctx, case):
    import numpy as np
    from periodictable import nsf
    m = _state['model']
    T = _table(ctx, case['table'])
    Z, A = case['Z'], case['A']
    label = '%s[%s]' % (m.symbol[Z], A or 'nat')
    at = _atom(T, Z, A)
    n = at.neutron
    rows = m.energy[(Z, A)]
    ctx.distinct_case((case['table'], 'energy-nodes', Z, A))
    nbad = 0
    ws, bs = [], []
    for E, re_, im_, _abs in rows:
        want = complex(re_, im_)
        w_own = m.node_wavelength(E)
        ws.append(w_own)
        bs.append(want)
        for how, w in (('own', w_own), ('library-conversion', float(nsf.neutron_wavelength(E * 1000.)))):
            b, _s = n.scattering_by_wavelength(w)
            ctx.evaluated(what='energy-node')
            b = complex(b)
            err = abs(b - want)
            ctx.observe('energy_node.abs_err_fm', err if err == err else math.inf)
            ctx.count('energy_nodes_exact', int(b == want))
            if not err <= NODE_TOL:
                nbad += 1
                if nbad <= 3:
                    ctx.violation('%s at E=%g eV (wavelength %r A, %s): scattering length %r, table %r'
                                  % (label, E, w, how, b, want), field='energy-node', E=E)
        ctx.count('energy_nodes_checked')
    # the same nodes in one vector call
    bv, _sv = n.scattering_by_wavelength(np.array(ws))
    ctx.evaluated(len(ws), 'energy-node-vector')
    bv = np.asarray(bv, dtype=complex)
    if bv.shape != (len(ws),) or not np.all(np.abs(bv - np.array(bs)) <= NODE_TOL):
        ctx.violation('%s: vector call over all %d nodes differs from the table (worst %r)'
                      % (label, len(ws), float(np.nanmax(np.abs(bv - np.array(bs)))) if bv.shape == (len(ws),) else 'shape'),
                      field='energy-node-vector')
    # the arrays handed back belong to the caller: edited in place (scaled for a plot, an incoherent term added), the
    # same request afterwards still serves the table - also in tabulated (increasing-energy) order of the nodes
    warr = np.array(ws)
    first = n.scattering_by_wavelength(warr)
    edited = 0
    for a in first:
        if isinstance(a, np.ndarray) and a.ndim >= 1 and a.flags.writeable:
            a *= 1e-5
            a += 3.0
            edited += 1
    bv2 = np.asarray(n.scattering_by_wavelength(warr)[0], dtype=complex)
    ctx.evaluated(len(ws), 'energy-node-vector-after-edit')
    ctx.count('returned_arrays_edited', edited)
    if bv2.shape != (len(ws),) or not np.all(np.abs(bv2 - np.array(bs)) <= NODE_TOL):
        ctx.violation('%s: vector call over all %d nodes, repeated after the caller edited the arrays of the previous answer '
                      'in place, differs from the table (worst %r)'
                      % (label, len(ws), float(np.nanmax(np.abs(bv2 - np.array(bs)))) if bv2.shape == (len(ws),) else 'shape'),
                      field='energy-node-vector-after-edit')
    if True:   # both tiers: segment interior points and end clamps (cheap)
        ctx.distinct_case((case['table'], 'energy-between', Z, A))
        pts = m.wavelength_table(Z, A)
        probes = []
        for (w0, _b0), (w1, _b1) in zip(pts, pts[1:]):
            for t in (0.5, 0.25, 0.9):
                probes.append(w0 + t * (w1 - w0))
        probes += [pts[0][0] * f for f in (0.999999, 0.5, 0.01)] + [pts[-1][0] * f for f in (1.000001, 2., 50.)]
        nb = 0
        for w in probes:
            want = m.interpolate(Z, A, w)
            b = complex(n.scattering_by_wavelength(w)[0])
            ctx.evaluated(what='energy-between')
            if not ctx.close(b, want, rel=1e-12, abs_=1e-13, name='energy_between.relerr'):
                nb += 1
                if nb <= 3:
                    ctx.violation('%s at wavelength %r A: scattering length %r, own clamped linear interpolation %r'
                                  % (label, w, b, want), field='energy-between',
                                  outside=bool(w < pts[0][0] or w > pts[-1][0]))
        ctx.count('energy_between_points_checked', len(probes))


def check_coverage(ctx, case):
    """The reader saw the table sizes the property quotes and every row is reachable by the sweep."""
    m = _state['model']
    ctx.evaluated(4, 'coverage')
    if m.energy_source_matches_literal is None:
        ctx.count('energy_literal_not_cross_read_from_source_text')      # optional cross-reading not applicable (noted)
    elif not m.energy_source_matches_literal:
        ctx.violation('ENERGY_DEPENDENT_TABLES in memory differs from the literal in the source text of nsf_tables.py',
                      field='energy-literal')
    bad = [k for k in m.rows if not (0 <= k[0] <= 118)]
    bad += [k for k in m.imag_rows if k not in m.row]
    bad += [k for k in m.energy if k not in m.row]
    if bad:
        ctx.violation('rows outside the swept domain: %r' % bad[:10], field='coverage')
    if (m.nrows, len(m.imag_rows), len(m.energy)) != (364, 16, 14):
        ctx.note('table sizes are %d/%d/%d rows, the property text quotes 364/16/14'
                 % (m.nrows, len(m.imag_rows), len(m.energy)))


CHECKS = {'row': check_row, 'element': check_element, 'energy': check_energy, 'coverage': check_coverage,
          'first_touch': check_first_touch}


def finish(ctx):
    r = _state.get('reach')
    if r is not None:
        r.export(ctx)
    m = _state['model']
    nv = len(_variants(ctx))
    ctx.require('rows_checked', m.nrows * nv, 'every row of the neutron table visited on every table variant')
    ctx.require('imaginary_rows_checked', len(m.imag_rows) * nv, 'every row of the imaginary table visited on every variant')
    ctx.require('energy_nodes_checked', m.energy_nodes * nv, 'every node of every energy table visited on every variant')
    ctx.info['table_variants'] = _variants(ctx)


def classify(rec):
    d = rec.get('detail') or {}
    case = rec.get('case') or {}
    # D3: b_c of Eu-151 is gap-filled after b_c_complex was formed, leaving its real part NaN
    if (rec.get('check') == 'row' and d.get('field') == 'b_c_complex' and 'b_c' in (d.get('gapfill') or [])
            and d.get('observed_real_nan') and d.get('observed_imag_ok') and d.get('reported_b_c_ok')
            and str(case.get('id', '')).startswith('63-Eu-151')):
        return 'c07.eu151-bc-complex'
    return None
