"""C04 - neutron results obey density, cell-size, grouping, unit and vector invariances.

Metamorphic relation monitor: every case is a *family* of related
neutron_scattering calls on one multiset of atoms (base call, density x k,
the density given as natural_density= to a string, a dict and a Formula object
with or without a density of its own, all counts x c, regroupings /
permutations through strings, dicts, nested structures and Formula
arithmetic, energy= against wavelength=, a vector call against the scalar
calls, the vector being ONE mutable buffer that is edited in place and passed
again), generated together so that a replay re-executes the whole family.  No reference model is involved; the in-process contracts on
nsf._calculate_scattering and on the three conversion functions fire on
internal calls too; an input-immutability monitor watches the
wavelength / energy arguments of the five entry points.
The contract on the PRIVATE nsf._calculate_scattering and the two line counters inside
Neutron.scattering_by_wavelength are optional instrumentation: absent, called with other
parameters or by-passed in a tree they are skipped, noted and their reach requirements
waived (anchor_missing.*); the relations between public results do not depend on them."""
import json
import math

from ..statemon import Reach, FPMonitor

RULE = ('one case = one family of related neutron_scattering calls on a random multiset of 1-8 atoms with neutron data '
        '(elements, isotopes, energy-dependent entries, ions): base, density*k, counts*c, 2-4 regroupings/permutations '
        '(formula strings with random bracketing, {atom: count} dicts, nested structures, Formula arithmetic), energy= '
        'vs wavelength=, one vector of 1-7 wavelengths (list or numpy array) vs the scalar calls, the same list/array object then '
        'edited in place 1-2 times (rotate, reverse, one item, rescale, refill) and passed again with no call in between; '
        'natural_density= (value, value*k, and the same value with all counts*c) for the compound as string, dict and Formula object with/without its own density, '
        'and density= against a Formula object carrying another density; plus conversion cases '
        '(E, lambda, v scalars and vectors) and the documented anchors. distinct = distinct (sorted atom keys, forms '
        'and tree shapes of the renderings, vector length/container/energy-or-wavelength) of families that are '
        'non-trivial, i.e. have at least two atom occurrences or a vector of length >= 2; conversion cases count by '
        '(function, container, length)')
TECHNIQUE = ('runtime monitoring: metamorphic relation monitor over families of related calls, icontract postconditions '
             'on nsf._calculate_scattering / neutron_wavelength / neutron_energy / neutron_wavelength_from_velocity, '
             'input-immutability monitor on the wavelength/energy arguments, '
             'sys.monitoring branch-reach counters, numpy floating-point exception monitor')
LEVEL_TEXT = ('Random compounds over all atoms with neutron data are pushed through families of related calls and the '
              'documented relations between the results are checked to 1e-10 (1e-12 for the unit conversions); the '
              'relations are exact consequences of the property text, so no reference model is trusted, but only the '
              'sampled compounds, densities, scale factors, groupings and wavelength vectors are covered.'
              ' Added in rounds 4-7: the other documented entry points (package-level aliases, Formula.neutron_sld) by wavelength and by energy, exact instrument wavelengths (1.798 A), zero-count atoms listed first.')
LEVEL_NOTE = ('Trusted: numpy, the physical constants in periodictable.constants (used only for the 1e-12 conversion '
              'postconditions and cross-pinned by the documented anchors), the compound generator pvmon/gen/compounds.py '
              '(self-checked: every rendering tree is folded back to the multiset before use).')
SHARDS = {'quick': 6, 'thorough': 16}
TIMEOUT = {'quick': 300, 'thorough': 2400}
ASSUMPTIONS = ['thermal/cold range taken as wavelength 0.05..50 Angstrom (energy 0.03..33000 meV)',
               'densities 1e-3..25 g/cm^3 (10 %: 1e-15..1e-3), density factors k in 1e-2..1e2 (15 %: 1e-12..1e12), count factors c in 1e-3..1e4, all positive',
               'tolerance 1e-10 relative, with the absolute floor of DESIGN 3.7 for the two clipped-difference outputs '
               '(incoherent SLD: 1e-7*(|rho_re|+rho_im); incoherent cross section: 1e-13*(coh+abs+inc))',
               'cancellation floor: the real SLD may differ by 1e-13*sqrt(re^2+im^2+inc^2) and the coherent cross section by '
               '1e-13*(coh+abs+inc) (Re b_c has both signs; measured: relative error 2e-7 of the real SLD on correct code '
               'for an H/D mixture tuned to cancel, 1.4e-17 in units of that floor scale)',
               'formula strings avoid the two white-space patterns D24/D25 (they belong to C01)',
               'natural_density= is a way of stating the density: the value given in the call decides (also for a Formula object that '
               'carries a density of its own), an explicit density= likewise; what natural_density means for isotopes and ions is C12 - '
               'here only (a) scaling it by k, (b) independence of the way the compound is passed, (c) natural_density=d equals '
               'density=d for compounds of neutral natural-abundance elements and (d) invariance under multiplying all counts by a '
               'constant (the clause "multiplying all counts by a constant ... changes nothing" read with the density stated as '
               'natural_density=; ions and isotopes included) are demanded',
               'a vector result describes the values the wavelength/energy object holds at the time of the call; the caller may edit '
               'its own list/array in place between calls and no call may modify it',
               'a NaN in any output is reported as a violation (the relations are equalities between numbers)',
               'periodictable.constants are data']

REL = 1e-10
NAMES = ('sld_re', 'sld_im', 'sld_inc', 'coh_xs', 'abs_xs', 'inc_xs', 'penetration')
_state = {}


class ContractBreach(Exception):
    """Raised by an in-process postcondition."""


# --------------------------------------------------------------------------
# in-process contracts (named condition functions)
# --------------------------------------------------------------------------
def _finite(x):
    import numpy as np
    try:
        return bool(np.all(np.isfinite(np.asarray(x, dtype=complex))))
    except Exception:
        return False


def post_wavelength_from_energy(energy, result):
    """E * lambda^2 == h^2/(2 m_n) in meV A^2, and the shape of the input is kept."""
    import numpy as np
    _state['n']['contract.neutron_wavelength'] += 1
    e = np.asarray(energy, dtype=float)
    r = np.asarray(result, dtype=float)
    if r.shape != e.shape:
        _state['breach'] = 'result shape %r for input shape %r' % (r.shape, e.shape)
        return False
    ok = (e > 0) & np.isfinite(e)
    good = bool(np.all(np.abs(e[ok] * r[ok] ** 2 / _state['EF'] - 1) <= 1e-12))
    if not good:
        _state['breach'] = ('neutron_wavelength(%r) = %r: E*lambda^2 = %r, h^2/(2 m_n) = %r meV A^2'
                            % (energy, result, (e * r ** 2).tolist(), _state['EF']))[:700]
    return good


def post_energy_from_wavelength(wavelength, result):
    import numpy as np
    _state['n']['contract.neutron_energy'] += 1
    w = np.asarray(wavelength, dtype=float)
    r = np.asarray(result, dtype=float)
    if r.shape != w.shape:
        _state['breach'] = 'result shape %r for input shape %r' % (r.shape, w.shape)
        return False
    ok = (w > 0) & np.isfinite(w)
    good = bool(np.all(np.abs(r[ok] * w[ok] ** 2 / _state['EF'] - 1) <= 1e-12))
    if not good:
        _state['breach'] = ('neutron_energy(%r) = %r: E*lambda^2 = %r, h^2/(2 m_n) = %r meV A^2'
                            % (wavelength, result, (r * w ** 2).tolist(), _state['EF']))[:700]
    return good


def post_wavelength_from_velocity(velocity, result):
    import numpy as np
    _state['n']['contract.neutron_wavelength_from_velocity'] += 1
    v = np.asarray(velocity, dtype=float)
    r = np.asarray(result, dtype=float)
    if r.shape != v.shape:
        _state['breach'] = 'result shape %r for input shape %r' % (r.shape, v.shape)
        return False
    ok = (v > 0) & np.isfinite(v)
    good = bool(np.all(np.abs(r[ok] * v[ok] / _state['VF'] - 1) <= 1e-12))
    if not good:
        _state['breach'] = ('neutron_wavelength_from_velocity(%r) = %r: v*lambda = %r, h/m_n = %r A m/s'
                            % (velocity, result, (r * v).tolist(), _state['VF']))[:700]
    return good


def snap_b_c(b_c):
    import numpy as np
    return np.array(b_c, copy=True)


def snap_sigma_s(sigma_s):
    import numpy as np
    return np.array(sigma_s, copy=True)


def post_inputs_unchanged(OLD, b_c, sigma_s):
    import numpy as np
    return bool(np.array_equal(OLD.b_c_before, np.asarray(b_c), equal_nan=True)
                and np.array_equal(OLD.sigma_s_before, np.asarray(sigma_s), equal_nan=True))


def post_nonnegative(number_density, wavelength, b_c, sigma_s, result):
    """-Im, incoherent SLD, the three cross sections and the penetration depth are >= 0 (finite inputs, N > 0)."""
    import numpy as np
    n = _state['n']
    out = _unpack7(result)
    if out is None:
        return True
    n['contract._calculate_scattering'] += 1
    if not (_finite(number_density) and _finite(wavelength) and _finite(b_c) and _finite(sigma_s)):
        n['contract._calculate_scattering.nonfinite_input'] += 1
        return True
    if not (np.all(np.asarray(number_density) > 0) and np.all(np.asarray(wavelength, dtype=float) > 0)
            and np.all(np.asarray(sigma_s) >= 0)):
        n['contract._calculate_scattering.outside_domain'] += 1
        return True
    # reach: did the incoherent clip engage (sigma_s < 4 pi |b_c|^2 / 100)?
    if np.any(np.asarray(sigma_s) - 4 * math.pi / 100 * np.abs(np.asarray(b_c)) ** 2 < 0):
        n['reach.clip_engaged'] += 1
    sld_re, sld_im, sld_inc, coh, abs_, inc, pen = out
    for name, x in zip(NAMES[1:], (sld_im, sld_inc, coh, abs_, inc, pen)):
        if not np.all(np.asarray(x, dtype=float) >= 0):      # NaN fails as well
            _state['breach'] = ('%s = %r for number_density=%r wavelength=%r b_c=%r sigma_s=%r'
                                % (name, x, number_density, wavelength, b_c, sigma_s))[:700]
            return False
    return True


def post_penetration(number_density, sigma_s, result):
    """penetration * (Sigma_abs + N sigma_s) == 1."""
    import numpy as np
    if not (_finite(number_density) and _finite(sigma_s)) or not np.all(np.asarray(number_density) > 0):
        return True
    try:
        (_, _, _), (_, abs_, _), pen = result
    except Exception:
        return True                       # counted by post_nonnegative
    prod = np.atleast_1d(np.asarray(pen, dtype=float)
                         * (np.asarray(abs_, dtype=float) + number_density * np.asarray(sigma_s, dtype=float)))
    ok = np.isfinite(prod)
    good = bool(np.all(np.abs(prod[ok] - 1) <= 1e-12))
    if not good:
        _state['breach'] = 'penetration*(abs_xs + N*sigma_s) = %r' % (prod.tolist()[:7],)
    return good


def _unpack7(result):
    """The seven outputs of a _calculate_scattering result, or None when the (private) function returns
    another structure in this tree (then nothing is demanded of it)."""
    try:
        (sld_re, sld_im, sld_inc), (coh, abs_, inc), pen = result
    except Exception:
        _state['n']['contract._calculate_scattering.unrecognised_result'] += 1
        return None
    return sld_re, sld_im, sld_inc, coh, abs_, inc, pen


def _calculate_scattering_adapter(number_density, wavelength, b_c, sigma_s, _call):
    """Fixed-signature adapter carrying the icontract postconditions of the PRIVATE nsf._calculate_scattering;
    _call is the pending call of the original with whatever arguments it was given (pvmon.ref.neutron.tolerant)."""
    return _call()


def _neutron_wavelength_adapter(energy, _call):
    return _call()


def _neutron_energy_adapter(wavelength, _call):
    return _call()


def _neutron_wavelength_from_velocity_adapter(velocity, _call):
    return _call()


def attach_contracts(ctx, nsf):
    """icontract postconditions, attached through *args/**kw wrappers (pvmon.ref.neutron.tolerant): a call whose
    arguments cannot be bound to the expected parameter names is passed through un-judged and counted.
    nsf._calculate_scattering is private, hence optional: absent -> its contract and the clip counter are waived."""
    import icontract
    from collections import Counter
    from ..ref.neutron import private, tolerant
    _state['n'] = Counter()
    if getattr(nsf, '_pvmon_c04_contracts', False):
        return
    n = _state['n']
    orig = private(ctx, nsf, '_calculate_scattering', ['contract._calculate_scattering', 'reach.clip_engaged'])
    if orig is not None:
        f = _calculate_scattering_adapter
        f = icontract.ensure(post_nonnegative, 'sld_im, sld_inc, coh, abs, inc, penetration >= 0', error=ContractBreach)(f)
        f = icontract.ensure(post_penetration, 'penetration*(abs_xs + N*sigma_s) == 1', error=ContractBreach)(f)
        f = icontract.ensure(post_inputs_unchanged, 'b_c and sigma_s are not modified', error=ContractBreach)(f)
        f = icontract.snapshot(snap_b_c, name='b_c_before')(f)
        f = icontract.snapshot(snap_sigma_s, name='sigma_s_before')(f)
        nsf._calculate_scattering = tolerant(orig, ('number_density', 'wavelength', 'b_c', 'sigma_s'), f, n,
                                             'contract._calculate_scattering')
    nsf.neutron_wavelength = tolerant(nsf.neutron_wavelength, ('energy',), icontract.ensure(
        post_wavelength_from_energy, 'E*lambda^2 == h^2/(2 m_n) to 1e-12, shape kept', error=ContractBreach)(
            _neutron_wavelength_adapter), n, 'contract.neutron_wavelength')
    nsf.neutron_energy = tolerant(nsf.neutron_energy, ('wavelength',), icontract.ensure(
        post_energy_from_wavelength, 'E*lambda^2 == h^2/(2 m_n) to 1e-12, shape kept', error=ContractBreach)(
            _neutron_energy_adapter), n, 'contract.neutron_energy')
    nsf.neutron_wavelength_from_velocity = tolerant(nsf.neutron_wavelength_from_velocity, ('velocity',), icontract.ensure(
        post_wavelength_from_velocity, 'v*lambda == h/m_n to 1e-12, shape kept', error=ContractBreach)(
            _neutron_wavelength_from_velocity_adapter), n, 'contract.neutron_wavelength_from_velocity')
    nsf._pvmon_c04_contracts = True


# --------------------------------------------------------------------------
# setup
# --------------------------------------------------------------------------
def setup(ctx):
    import periodictable as pt
    from periodictable import nsf, constants as c
    from ..gen import compounds as G
    pt.elements.H.neutron          # force the lazy neutron load before the contracts are attached
    _state['uni'] = G.Universe(pt.elements)
    # documented equations (nsf docstrings): E = h^2/(2 m_n lambda^2), lambda = h/(m_n v); h in eV s, m_n in u
    m_n = c.neutron_mass * c.atomic_mass_constant                     # kg
    _state['m_n'] = m_n
    _state['eV'] = c.electron_volt
    _state['EF'] = 1e3 * 1e20 * c.plancks_constant ** 2 * c.electron_volt / (2 * m_n)   # meV A^2
    _state['VF'] = 1e10 * c.plancks_constant * c.electron_volt / m_n                    # A m/s
    from ..ref.neutron import watch_entry, watch_lines
    attach_contracts(ctx, nsf)
    reach = Reach()
    watch_entry(ctx, reach, nsf.neutron_scattering, 'neutron_scattering', requirements=[])
    # line anchors inside the body of a public method: optional (another body -> reach.missing -> requirement waived)
    sbw = nsf.Neutron.scattering_by_wavelength
    watch_lines(ctx, reach, sbw, ('return ones*self.b_c_complex', 'if self.nsf_table is None'), 'branch.constant_b_c')
    watch_lines(ctx, reach, sbw, ('np.interp(', 'return b_c, sigma_s'), 'branch.energy_table')
    try:
        reach.start()
    except Exception as exc:       # monitoring unavailable: requirements below make the run inconclusive
        ctx.note('sys.monitoring could not be started: %r' % (exc,))
    _state['reach'] = reach
    _state['fpe'] = FPMonitor().start()
    from ..ref.neutron import ArgumentGuard          # only the wrapper class; no reference model is used here
    _state['guard'] = ArgumentGuard.install(nsf)     # after Reach: the counters watch the original code objects


# --------------------------------------------------------------------------
# generation
# --------------------------------------------------------------------------
def _log_uniform(rng, lo, hi):
    return 10 ** rng.uniform(math.log10(lo), math.log10(hi))


def _variant(rng, G, uni, table, items, rel, scale=None):
    """One rendering of the multiset *items* (already scaled if rel == 'scale')."""
    if rel == 'reorder':
        # a pure permutation of the same occurrences: flat, no brackets, no multipliers, no splitting
        form = rng.choice(['string', 'formula_string', 'dict', 'struct'])
    else:
        form = rng.choice(['string', 'string', 'string', 'formula_string', 'dict', 'struct', 'arith'])
    if form == 'dict':
        rows = G.items_text(items)
        rng.shuffle(rows)
        v = {'form': 'dict', 'items': rows, 'shape': 'dict%d' % len(rows)}
    else:
        if rel == 'reorder':
            tree = G.flat_tree(rng.sample(list(items), len(items)))
        else:
            its = G.split_some(rng, items) if rng.random() < 0.5 else list(items)
            tree = G.make_tree(rng, its) if rng.random() < 0.9 else G.flat_tree(rng.sample(its, len(its)))
        want = G.total(items)
        if G.denote(tree) != want:
            raise AssertionError('generator self-check failed: tree %r does not denote %r' % (tree, want))
        v = {'form': form, 'tree': json.dumps(tree), 'shape': repr(G.shape_of(tree))}
        if form in ('string', 'formula_string'):
            v['text'] = G.render_string(tree, table, rng)
    v['rel'] = rel
    if scale is not None:
        v['scale'] = scale
    return v


def _family(ctx, index, G, uni, table):
    rng = ctx.rng
    items = G.draw_multiset(rng, uni)
    nedep = len(uni.edep)
    if index < 2 * nedep:                        # every energy-dependent entry is visited, deterministically
        k = uni.edep[index % nedep]
        items[rng.randrange(len(items))] = (k, G.draw_count(rng))
    rho = _log_uniform(rng, 1e-3, 25.0)
    if rng.random() < 0.1:
        rho = _log_uniform(rng, 1e-15, 1e-3)     # gases down to the residual gas of an evacuated flight tube
    r = rng.random()
    if r < 0.08:
        rho = rng.choice([1, 2, 3, 5, 7, 11, 19])        # int densities
    wl = _log_uniform(rng, 0.05, 50.0)
    if rng.random() < 0.15:                              # inside the energy tables
        wl = _log_uniform(rng, 0.4, 6.0)
    wl_type = rng.choice(['float'] * 10 + ['np.float64', 'np.float64', 'int', 'int', 'np.0d'])
    if wl_type == 'int':
        wl = float(rng.randint(1, 30))
    elif rng.random() < 0.06:
        # the wavelengths every instrument scientist types: the thermal reference 1.798 A (also the documented
        # default), 4.75, 5, 6 ... as exact literals
        wl = rng.choice([1.798, 1.798, 1.798, 4.75, 5.0, 6.0, 0.5, 12.0, 1.8])
    c = G.draw_scale(rng)
    tries = 0
    while not all(G.renderable(v * c) for _, v in items) and tries < 20:
        c = G.draw_scale(rng)
        tries += 1
    if tries >= 20:
        c = 2
    case = {
        'index': index,
        'atoms': G.items_text(items),
        'density': rho,
        'k': _log_uniform(rng, 1e-2, 1e2) if rng.random() < 0.85 else _log_uniform(rng, 1e-12, 1e12),
        'wavelength': wl,
        'wavelength_type': wl_type,
        'base': _variant(rng, G, uni, table, items, 'base'),
        'variants': [],
    }
    for _ in range(rng.randint(2, 4)):
        case['variants'].append(_variant(rng, G, uni, table, items, rng.choice(['regroup', 'regroup', 'reorder'])))
    case['variants'].append(_variant(rng, G, uni, table, G.scaled(items, c), 'scale', scale=G.dec_text(c)))
    n = rng.randint(1, 7)
    wls = [_log_uniform(rng, 0.05, 50.0) for _ in range(n)]
    ints = rng.random() < 0.08
    if ints:
        wls = [float(rng.randint(1, 30)) for _ in range(n)]      # integer-valued wavelengths, passed as ints
        if wl_type != 'int':
            case['wavelength'] = wl = wls[0]
    wls[rng.randrange(n)] = wl
    if n > 1 and rng.random() < 0.2:
        wls[rng.randrange(n)] = wls[0]                   # repeated wavelength, unsorted order is the rule anyway
    case['vector'] = {'wavelengths': wls, 'container': rng.choice(['list', 'array']),
                      'via': 'energy' if (rng.random() < 0.25 and not ints) else 'wavelength', 'ints': ints}
    case['vector']['edits'] = _buffer_edits(rng, wls, ints)
    case['energy_scalar_type'] = rng.choice(['float', 'float', 'np.float64'])
    # density given as natural_density=: string, dict, Formula object with / without a density of its own
    its = G.split_some(rng, items) if rng.random() < 0.3 else list(items)
    tree = G.make_tree(rng, its) if rng.random() < 0.7 else G.flat_tree(rng.sample(its, len(its)))
    if G.denote(tree) != G.total(items):
        raise AssertionError('generator self-check failed: tree %r does not denote %r' % (tree, G.total(items)))
    r = rng.random()
    case['nd'] = {'value': _log_uniform(rng, 1e-3, 25.0), 'k': _log_uniform(rng, 1e-2, 1e2),
                  'text': G.render_string(tree, table, rng),
                  'own': None if r < 0.25 else '%.3f' % _log_uniform(rng, 0.05, 25.0),
                  'own_via': 'keyword' if r < 0.7 else 'at',
                  'scaled_form': rng.choice(['object', 'object', 'object', 'string', 'dict'])}
    return case


def _buffer_edits(rng, wls, ints):
    """1-2 in-place edits of the wavelength buffer, stated in wavelengths (an energy buffer gets the equivalent
    energies): rotate / reverse (a pure permutation: no new scalar calls needed), one item, rescale, refill."""
    cur = list(wls)
    edits = []
    for _ in range(1 if rng.random() < 0.7 else 2):
        ops = ['item', 'item', 'refill']
        if len(cur) > 1 and len(set(cur)) > 1:
            ops += ['roll', 'roll', 'reverse']
        if not ints:
            ops += ['scale', 'scale']
        op = rng.choice(ops)
        new = (lambda: float(rng.randint(1, 30))) if ints else (lambda: _log_uniform(rng, 0.05, 50.0))
        if op == 'scale':
            lo, hi = max(0.2, 0.05 / min(cur)), min(5.0, 50.0 / max(cur))
            if not lo < hi:
                op = 'refill'
            else:
                f = float('%.6g' % _log_uniform(rng, lo, hi))
                cur = [w * f for w in cur]
                edits.append({'op': 'scale', 'f': f})
        if op == 'refill':
            cur = [new() for _ in cur]
            edits.append({'op': 'refill', 'wavelengths': list(cur)})
        elif op == 'item':
            j = rng.randrange(len(cur))
            cur[j] = new()
            edits.append({'op': 'item', 'j': j, 'wavelength': cur[j]})
        elif op == 'roll':
            cur = cur[-1:] + cur[:-1]
            edits.append({'op': 'roll'})
        elif op == 'reverse':
            cur.reverse()
            edits.append({'op': 'reverse'})
    return edits


def generate(ctx):
    import periodictable as pt
    from ..gen import compounds as G
    uni = _state['uni']
    nfam = ctx.scale(540, 3000)
    nconv = ctx.scale(170, 800)
    yield 'anchors', {}
    for j in range(nfam):
        index = j * ctx.nshards + ctx.shard
        yield 'family', _family(ctx, index, G, uni, pt.elements)
        if j % 3 == 0 and j // 3 < nconv:
            yield 'convert', _convert_case(ctx)


def _convert_case(ctx):
    rng = ctx.rng
    n = rng.choice([0, 0, 1, 1, 2, 3, 5, 7])          # 0 = scalar
    kind = rng.choice(['float', 'int', 'np.float64']) if n == 0 else rng.choice(['list', 'array', 'array'])
    m = max(n, 1)
    energies = [_log_uniform(rng, 1e-3, 1e5) for _ in range(m)]
    velocities = [_log_uniform(rng, 10, 1e5) for _ in range(m)]
    if kind == 'int':
        energies = [float(rng.randint(1, 500))]
        velocities = [float(rng.randint(50, 20000))]
    return {'n': n, 'kind': kind, 'energies': energies, 'velocities': velocities}


# --------------------------------------------------------------------------
# evaluation helpers
# --------------------------------------------------------------------------
def _build(variant, density=None):
    """The library-side compound object of a stored rendering."""
    import periodictable as pt
    from ..gen import compounds as G
    uni = _state['uni']
    form = variant['form']
    if form == 'string':
        return variant['text']
    if form == 'formula_string':
        return pt.formula(variant['text'])
    if form == 'dict':
        return G.build_dict(variant['items'], uni)
    tree = json.loads(variant['tree'])
    if form == 'struct':
        return G.build_structure(tree, uni)
    if form == 'arith':
        return G.build_arith(tree, uni, pt.formula)
    raise ValueError(form)


def _parsed_atoms(obj):
    """What the library thinks the compound contains (diagnostic for violations only)."""
    import periodictable as pt
    from .. import atoms as A
    try:
        return sorted(([list(A.key(a)), float(v)] for a, v in pt.formula(obj).atoms.items()))
    except Exception as exc:
        return 'formula() raised %s: %s' % (type(exc).__name__, exc)


class _Fail(Exception):
    pass


def _breach_text(exc):
    """Description of the failed postcondition (first lines of icontract's message) plus the values
    recorded by the condition function."""
    lines = [l for l in str(exc).splitlines() if l.strip() and not l.startswith('OLD was')]
    head = ' '.join(lines[1:2] or lines[:1])[:200]
    return '%s [%s]' % (head, _state.pop('breach', 'no values recorded'))


def _call(ctx, what, compound, **kw):
    """neutron_scattering through the module attribute; contract breaches and
    library exceptions become violations of the family."""
    from periodictable import nsf
    try:
        res = nsf.neutron_scattering(compound, **kw)
    except ContractBreach as exc:
        ctx.violation('%s: in-process postcondition failed: %s' % (what, _breach_text(exc)), relation=what,
                      symptom='contract', kw=_kwj(kw))
        raise _Fail()
    ctx.count('calls.neutron_scattering')
    return res


def _kwj(kw):
    import numpy as np
    return {k: (v.tolist() if isinstance(v, np.ndarray) else v) for k, v in kw.items()}


def _flat7(ctx, what, res, n=None):
    """7 x m float array of a result; checks the result structure and, for a
    vector call of length n, that every output has shape (n,)."""
    import numpy as np
    try:
        (a, b, c), (d, e, f), g = res
    except Exception:
        ctx.violation('%s: result is not ((re, im, inc), (coh, abs, inc), penetration): %r' % (what, res),
                      relation=what, symptom='structure')
        raise _Fail()
    outs = (a, b, c, d, e, f, g)
    if any(x is None for x in outs):
        ctx.violation('%s: result contains None for a compound whose atoms all have neutron data' % what,
                      relation=what, symptom='none')
        raise _Fail()
    want_shape = () if n is None else (n,)
    shapes = [np.shape(x) for x in outs]
    if any(s != want_shape for s in shapes):
        ctx.violation('%s: output shapes %r, expected %r for every output' % (what, shapes, want_shape),
                      relation=what, symptom='shape', shapes=[list(s) for s in shapes])
        raise _Fail()
    arr = np.array([np.asarray(x, dtype=float).reshape(-1) for x in outs])
    return arr


def _nonneg(ctx, what, arr):
    import numpy as np
    ctx.evaluated(what='nonnegativity')
    bad = []
    for i in (1, 2, 3, 4, 5, 6):
        if not np.all(arr[i] >= 0):
            bad.append((NAMES[i], arr[i].tolist()[:7]))
    if np.any(np.isnan(arr[0])):
        bad.append((NAMES[0], arr[0].tolist()[:7]))
    if bad:
        ctx.violation('%s: negative or NaN output: %r' % (what, bad), relation=what, symptom='negative',
                      outputs=[b[0] for b in bad])
        return False
    return True


class _Diag(object):
    """Diagnosis attached to a regrouping violation: does the library read the
    two renderings as the same atoms?  (Evaluated only when a violation is recorded.)"""

    def __init__(self, base_v, v):
        self.base_v, self.v = base_v, v

    def __call__(self):
        return {'base_atoms_as_parsed': _parsed_atoms(_build(self.base_v)),
                'variant_atoms_as_parsed': _parsed_atoms(_build(self.v)),
                'variant_text': self.v.get('text'), 'base_text': self.base_v.get('text')}


def _compare(ctx, what, got, want, name, diag=None):
    """got ~ want for the 7 outputs (arrays 7 x m), 1e-10 relative with the
    absolute floor for the clipped-difference outputs."""
    import numpy as np
    ctx.evaluated(what=name)
    if got.shape != want.shape:
        ctx.violation('%s: shapes differ %r vs %r' % (what, got.shape, want.shape), relation=name, symptom='shape')
        return False
    with np.errstate(all='ignore'):
        scale_sld = np.abs(want[0]) + np.abs(want[1])
        scale_xs = want[3] + want[4] + want[5]
        floor = np.zeros_like(want)
        floor[2] = 1e-7 * scale_sld
        floor[5] = 1e-13 * scale_xs
        # conditioning of the sum over atoms: Re b_c has both signs (H, Li, Ti, V, Mn, ...), so the real SLD can
        # cancel; two correct summation orders then differ by eps * sum|n_i b_i|, which is bounded by
        # eps * sqrt(re^2 + im^2 + inc^2) (the incoherent term collects what the coherent one loses).
        floor[0] = 1e-13 * np.sqrt(want[0] ** 2 + want[1] ** 2 + want[2] ** 2)
        floor[3] = 1e-13 * scale_xs
        diff = np.abs(got - want)
        mag = np.maximum(np.abs(got), np.abs(want))
        ok = (diff <= REL * mag) | (diff <= floor) | (got == want)
        relerr = np.where((diff <= floor) | (mag == 0), 0.0, diff / np.where(mag == 0, 1, mag))
    relerr = np.where(np.isnan(relerr), np.inf, relerr)
    ctx.observe('relerr.' + name, float(np.max(relerr)) if relerr.size else 0.0)
    if np.all(ok):
        return True
    i, j = [int(x[0]) for x in np.nonzero(~ok)]
    ctx.violation('%s: %s differs: got %r, expected %r (rel. error %.3g; entry %d)'
                  % (what, NAMES[i], float(got[i, j]), float(want[i, j]), float(relerr[i, j]), j),
                  relation=name, symptom='value', output=NAMES[i], got=got[:, j].tolist(), want=want[:, j].tolist(),
                  **(diag() if diag else {}))
    return False


def _container(kind, values, ints=False):
    import numpy as np
    if ints:
        values = [int(v) for v in values]
    if kind == 'array':
        return np.array(values, dtype=int if ints else float)
    return list(values)


def _scalar(kind, value):
    import numpy as np
    if kind == 'int':
        return int(value)
    if kind == 'np.float64':
        return np.float64(value)
    if kind == 'np.0d':
        return np.array(float(value))          # 0-d array: a scalar by shape, outputs must have shape ()
    return float(value)


def _edit_buffer(nsf, buf, edit, via, ints):
    """Apply one in-place edit to the caller's wavelength / energy buffer (list or ndarray); the same object is
    then passed to the next call."""
    import numpy as np

    def value(w):
        if via == 'energy':
            return float(nsf.neutron_energy(w))
        return int(w) if ints else w

    op = edit['op']
    is_list = isinstance(buf, list)
    if op == 'refill':
        buf[:] = [value(w) for w in edit['wavelengths']]
    elif op == 'item':
        buf[edit['j']] = value(edit['wavelength'])
    elif op == 'scale':
        f = edit['f'] if via == 'wavelength' else 1.0 / edit['f'] ** 2
        if is_list:
            for j in range(len(buf)):
                buf[j] = buf[j] * f
        else:
            buf *= f
    elif op == 'roll':
        if is_list:
            buf.insert(0, buf.pop())
        else:
            buf[:] = np.roll(buf, 1)
    elif op == 'reverse':
        if is_list:
            buf.reverse()
        else:
            buf[:] = buf[::-1].copy()
    else:
        raise ValueError('unknown buffer edit %r' % (op,))


def _guard_drain(ctx, what):
    """Failures of the input-immutability monitor become violations of the current family."""
    g = _state.get('guard')
    while g is not None and g.failures:
        f = g.failures.pop(0)
        ctx.evaluated(what='input-immutability')
        ctx.violation('%s: %s modified its %s argument in place: %s before the call, %s after'
                      % (what, f['function'], f['argument'], f['before'], f['after']), relation='immutability',
                      symptom='mutated-argument', **f)


def _natural_density_relations(ctx, case, base, wla, keys):
    """The density stated through natural_density=: (a) string, dict and Formula object (with or without a
    density of its own) give the same numbers for the same value, (b) value*k scales SLDs and cross sections
    by k and the penetration depth by 1/k, (c) an explicit density= decides over the object's own density,
    (d) for neutral natural-abundance elements natural_density=d is density=d, (e) all counts times a constant
    with the same natural_density= changes nothing (isotopes and ions included: isotopic and natural mass of the
    cell are both sums over the atoms, so their ratio does not depend on the size of the cell)."""
    import periodictable as pt
    from ..gen import compounds as G
    uni = _state['uni']
    nd = case['nd']
    v, k, text, own = nd['value'], nd['k'], nd['text'], nd.get('own')
    rho = case['density']
    ctx.count('natural_density.families')
    s_res = _flat7(ctx, 'natural_density= string', _call(ctx, 'natural_density= string', text,
                                                         natural_density=v, wavelength=wla))
    _nonneg(ctx, 'natural_density= string', s_res)
    as_dict = G.build_dict(case['atoms'], uni)
    what = 'natural_density=%r via dict vs string %r' % (v, text)
    got = _flat7(ctx, what, _call(ctx, what, as_dict, natural_density=v, wavelength=wla))
    _compare(ctx, what, got, s_res, 'natural_density.form')
    # the Formula object, possibly carrying a density of its own (a one-atom formula has the element density)
    if own is None:
        obj, how = pt.formula(text), 'formula(%r)' % text
    elif nd.get('own_via') == 'at':
        obj, how = pt.formula(text + '@' + own), 'formula(%r)' % (text + '@' + own)
    else:
        obj, how = pt.formula(text, density=float(own)), 'formula(%r, density=%s)' % (text, own)
    carried = obj.density
    ctx.count('natural_density.object_with_own_density' if carried is not None else 'natural_density.object_without_density')
    if own is not None:
        ctx.evaluated(what='formula.density')
        if carried is None or not ctx.close(carried, float(own), rel=1e-12):
            ctx.violation('%s has density %r' % (how, carried), relation='natural_density.form', symptom='value')
    what = 'natural_density=%r via %s (own density %r) vs string' % (v, how, carried)
    got = _flat7(ctx, what, _call(ctx, what, obj, natural_density=v, wavelength=wla))
    _nonneg(ctx, what, got)
    _compare(ctx, what, got, s_res, 'natural_density.form')
    # (b) scaling
    form = nd.get('scaled_form', 'object')
    target = {'object': obj, 'string': text, 'dict': as_dict}[form]
    what = 'natural_density*%r via %s' % (k, how if form == 'object' else form)
    got = _flat7(ctx, what, _call(ctx, what, target, natural_density=v * k, wavelength=wla))
    _nonneg(ctx, what, got)
    want = s_res.copy()
    want[:6] *= k
    want[6] /= k
    _compare(ctx, what, got, want, 'natural_density.scale')
    # (e) all counts * c (the 'scale' rendering of the family) at the same natural density
    for sv in case['variants']:
        if sv.get('rel') == 'scale':
            what = 'natural_density=%r, counts*%s via %s vs string %r' % (v, sv.get('scale'), sv['form'], text)
            got = _flat7(ctx, what, _call(ctx, what, _build(sv), natural_density=v, wavelength=wla))
            _nonneg(ctx, what, got)
            ctx.count('natural_density.counts_scaled')
            if any(q for _Z, _A, q in keys):
                ctx.count('natural_density.counts_scaled_with_ions')
            _compare(ctx, what, got, s_res, 'natural_density.counts_scale', diag=_Diag({'form': 'string', 'text': text}, sv))
    # (c) explicit density= decides
    if carried is not None:
        what = 'density=%r via %s (own density %r) vs base' % (rho, how, carried)
        got = _flat7(ctx, what, _call(ctx, what, obj, density=rho, wavelength=wla))
        _compare(ctx, what, got, base, 'density.explicit_wins')
    # (d) neutral natural-abundance elements only: natural_density is the density
    if all(A == 0 and q == 0 for _Z, A, q in keys):
        ctx.count('natural_density.natural_neutral_families')
        want = base.copy()
        want[:6] *= v / rho
        want[6] /= v / rho
        _compare(ctx, 'natural_density=%r vs density=%r (neutral natural elements only) for %r' % (v, rho, text),
                 s_res, want, 'natural_density.is_density')


def _zero_count(ctx, case, f0, rho, wla, base, keys):
    import periodictable as pt
    from ..atoms import lookup
    rng = ctx.rng
    uni = _state['uni']
    present = set((Z, A) for Z, A, _q in keys)
    # carbon and hydrogen come first in Hill order (dict initialisers are Hill-sorted), then alphabetical symbols
    for cand in ((6, 0, 0), (1, 0, 0), (1, 2, 0), (13, 0, 0), (47, 0, 0), (5, 0, 0)):
        if (cand[0], cand[1]) not in present:
            break
    else:
        return
    zero_atom = lookup(pt.elements, cand)
    f = f0 if hasattr(f0, 'structure') else pt.formula(f0)
    structure = list(f.structure)
    pos = rng.randrange(len(structure)) if structure else 0
    forms = [('nested structure with (0, %s) at position %d' % (zero_atom, pos),
              structure[:pos] + [(0, zero_atom)] + structure[pos:]),
             ('{%s: 0.0, ...} dict' % zero_atom, dict([(zero_atom, 0.0)] + list(f.atoms.items()))),
             ]
    if case['base'].get('form') == 'string':
        text = case['base']['text']
        if text[:1].isalpha():     # (a leading count would bind to the new atom)
            forms.append(('string %s0.0 + base text' % zero_atom, '%s0.0%s' % (zero_atom, text)))
    for label, obj in forms:
        what = 'zero-count atom: %s' % label
        got = _flat7(ctx, what, _call(ctx, what, obj, density=rho, wavelength=wla))
        _compare(ctx, what, got, base, 'zero_count')
    ctx.count('zero_count.families')


def _entry_points(ctx, f0, rho, wla, wl, E, base):
    """nsf.neutron_sld, the package-level periodictable.neutron_sld / neutron_scattering and the (deprecated, still
    documented) Formula.neutron_sld method against the base call of the family, each by wavelength= and by energy=."""
    import numpy as np
    import periodictable as pt
    from periodictable import nsf

    def sld3(what, res):
        try:
            a, b, c = res
            got = np.array([[float(a)], [float(b)], [float(c)]])
        except Exception:
            ctx.violation('%s: result is not (re, im, inc): %r' % (what, res), relation='entry_point', symptom='structure')
            raise _Fail()
        want7 = base[:, :1]
        full = np.vstack([got, want7[3:]])           # only the three SLD outputs are under test
        _compare(ctx, what, full, want7, 'entry_point')

    carrier = None
    for kwname, kwval, shown in (('wavelength', wla, wl), ('energy', E, float(E))):
        kw = {kwname: kwval}
        tag = '%s=%r' % (kwname, shown)
        sld3('nsf.neutron_sld(<compound>, density=%r, %s) vs base' % (rho, tag), nsf.neutron_sld(f0, density=rho, **kw))
        sld3('periodictable.neutron_sld(<compound>, density=%r, %s) vs base' % (rho, tag),
             pt.neutron_sld(f0, density=rho, **kw))
        what = 'periodictable.neutron_scattering(<compound>, density=%r, %s) vs base' % (rho, tag)
        got = _flat7(ctx, what, pt.neutron_scattering(f0, density=rho, **kw))
        _compare(ctx, what, got, base, 'entry_point')
        method = getattr(pt.formulas.Formula, 'neutron_sld', None)
        if method is None:
            ctx.count('entry_point.formula_method_absent')      # the deprecated method may be removed one day
            continue
        if carrier is None:
            carrier = pt.formula(f0, density=rho)
        sld3('formula(<compound>, density=%r).neutron_sld(%s) vs base' % (rho, tag), carrier.neutron_sld(**kw))
        ctx.count('entry_point.formula_method')
    ctx.count('entry_point.families')


# --------------------------------------------------------------------------
# checks
# --------------------------------------------------------------------------
def check_family(ctx, case):
    try:
        _family_body(ctx, case)
    except _Fail:
        pass
    except ContractBreach as exc:        # a breach outside the wrapped calls (conversion of the vector entries)
        ctx.violation('in-process postcondition failed: %s' % _breach_text(exc), relation='family', symptom='contract')


def _family_body(ctx, case):
    import numpy as np
    from periodictable import nsf
    from ..gen import compounds as G
    uni = _state['uni']
    rho, k, wl = case['density'], case['k'], case['wavelength']
    wla = _scalar(case.get('wavelength_type', 'float'), wl)      # the scalar wavelength as passed to the library
    ctx.count('wavelength_type.' + case.get('wavelength_type', 'float'))
    if wl == 1.798:
        ctx.count('wavelength.exactly_1.798')
    rows = case['atoms']
    keys = sorted({(Z, A, q) for Z, A, q, _ in rows})
    for Z, A, q in keys:
        if uni.is_edep((Z, A, q)):
            ctx.count('seen.edep.%d-%d' % (Z, A))
        if q:
            ctx.count('seen.ion_atoms')
        if A:
            ctx.count('seen.isotope_atoms')
    ctx.count('families')
    base_v = case['base']

    # 1. base call -----------------------------------------------------------
    base_obj = _build(base_v)
    base = _flat7(ctx, 'base', _call(ctx, 'base', base_obj, density=rho, wavelength=wla))
    _nonneg(ctx, 'base', base)
    ctx.count('form.' + base_v['form'])
    if base[5, 0] == 0:
        ctx.count('observed.incoherent_xs_exactly_zero')

    # 2. density * k ---------------------------------------------------------
    got = _flat7(ctx, 'density*k', _call(ctx, 'density*k', _build(base_v), density=rho * k, wavelength=wla))
    _nonneg(ctx, 'density*k', got)
    want = base.copy()
    want[:6] *= k
    want[6] /= k
    _compare(ctx, 'density*%r' % k, got, want, 'density')

    # 2b. the density given as natural_density= -------------------------------
    if case.get('nd'):
        _natural_density_relations(ctx, case, base, wla, keys)

    # 3. regroup / reorder / counts * c ---------------------------------------
    for v in case['variants']:
        obj = _build(v)
        what = '%s via %s' % (v['rel'], v['form'])
        got = _flat7(ctx, what, _call(ctx, what, obj, density=rho, wavelength=wla))
        _nonneg(ctx, what, got)
        ctx.count('form.' + v['form'])
        _compare(ctx, what, got, base, v['rel'], diag=_Diag(base_v, v))

    # 4. energy= vs wavelength= ------------------------------------------------
    f0 = _build(base_v)
    if isinstance(f0, str):
        import periodictable as pt
        f0 = pt.formula(f0)              # parse once for the scalar calls below
    try:
        E = nsf.neutron_energy(wl)
    except ContractBreach as exc:
        ctx.violation('neutron_energy(%r): postcondition failed: %s' % (wl, _breach_text(exc)), relation='energy',
                      symptom='contract')
        raise _Fail()
    E = float(E) if case.get('energy_scalar_type') == 'float' else np.float64(E)
    got = _flat7(ctx, 'energy=', _call(ctx, 'energy=', f0, density=rho, energy=E))
    _nonneg(ctx, 'energy=', got)
    _compare(ctx, 'energy=%r vs wavelength=%r' % (float(E), wl), got, base, 'energy')

    # 4a. an atom with count zero, listed BEFORE the others, is not there (the 0 % end of a substitution series, a
    #     fitted dopant at 0): as a nested structure, as an {atom: count} dict and as a string
    _zero_count(ctx, case, f0, rho, wla, base, keys)

    # 4b. the other documented entry points give the same numbers, by wavelength= and by energy= ------------
    _entry_points(ctx, f0, rho, wla, wl, E, base)

    # 5. vector call vs scalar calls; the vector is ONE buffer, edited in place and passed again ----------
    vec = case['vector']
    wls = vec['wavelengths']
    n = len(wls)
    via, ints = vec['via'], vec.get('ints', False)
    if via == 'energy':
        buf = _container(vec['container'], [float(nsf.neutron_energy(w)) for w in wls])
    else:
        buf = _container(vec['container'], wls, ints)
    has_edep = any(uni.is_edep(key) for key in keys)
    runs = []                      # (label, values held by the buffer at the call, 7 x n result)
    for step, edit in enumerate([None] + list(vec.get('edits') or [])):
        what = 'vector(%s, n=%d, %s)' % (via, n, vec['container'])
        if edit is not None:
            _edit_buffer(nsf, buf, edit, via, ints)
            what += ' after %d call(s) with the same object, edited in place (%s)' % (step, edit['op'])
            ctx.count('buffer.op.' + edit['op'])
            if has_edep and via == 'wavelength':
                ctx.count('buffer.reuse_with_edep.' + vec['container'])
        held = buf.tolist() if isinstance(buf, np.ndarray) else list(buf)
        gotv = _flat7(ctx, what, _call(ctx, what, f0, density=rho, **{via: buf}), n=n)    # no other call in between
        _guard_drain(ctx, what)
        after = buf.tolist() if isinstance(buf, np.ndarray) else list(buf)
        if after != held:
            ctx.violation('%s: the %s argument was modified by the call: %r -> %r' % (what, via, held, after),
                          relation='vector', symptom='mutated-argument')
        _nonneg(ctx, what, gotv)
        runs.append((what, held, gotv.copy()))
    ctx.count('vector.n%d.%s.%s' % (n, vec['container'], via))
    scalar = {}
    for what, held, gotv in runs:
        cols = []
        for i, x in enumerate(held):
            if repr(x) not in scalar:
                r = _call(ctx, 'scalar %s=%r' % (via, x), f0, density=rho, **{via: x})
                col = _flat7(ctx, 'scalar call %s=%r' % (via, x), r)
                _nonneg(ctx, 'scalar call %s=%r' % (via, x), col)
                scalar[repr(x)] = col[:, 0]
            cols.append(scalar[repr(x)])
        _compare(ctx, '%s, %s values %r' % (what, via, held), gotv, np.array(cols).T, 'vector')
    _guard_drain(ctx, 'family')

    # distinct non-trivial family signature
    if len(rows) >= 2 or n >= 2:
        sig = (tuple(keys), base_v['form'], base_v['shape'],
               tuple((v['rel'], v['form'], v['shape']) for v in case['variants']), n, vec['container'], vec['via'])
        ctx.distinct_case(sig)
    else:
        ctx.count('trivial_families')


def check_convert(ctx, case):
    """E*lambda^2 and v*lambda are constants, energy->wavelength->energy is the
    identity, and the three functions are mutually consistent (E = m v^2 / 2)."""
    import numpy as np
    from periodictable import nsf
    n, kind = case['n'], case['kind']

    def wrap(vals):
        if n == 0:
            x = vals[0]
            return int(x) if kind == 'int' else (np.float64(x) if kind == 'np.float64' else float(x))
        return _container(kind, vals)

    E_in = wrap(case['energies'])
    E = np.asarray(case['energies'], dtype=float)[:max(n, 1)]
    shape = () if n == 0 else (n,)
    try:
        lam = nsf.neutron_wavelength(E_in)
        back = nsf.neutron_energy(lam)
        lam_in = wrap([float(x) for x in np.asarray(lam, dtype=float).reshape(-1)]) if kind != 'int' else float(lam)
        E2 = nsf.neutron_energy(lam_in)
        v_in = wrap(case['velocities']) if kind != 'list' else np.array(case['velocities'], dtype=float)
        lam_v = nsf.neutron_wavelength_from_velocity(v_in)
    except ContractBreach as exc:
        ctx.violation('conversion postcondition failed: %s' % _breach_text(exc), relation='convert', symptom='contract')
        return
    V = np.asarray(case['velocities'], dtype=float)[:max(n, 1)]
    ctx.distinct_case(('convert', kind, n))
    ctx.evaluated(4, 'convert.shape')
    for name, val in (('neutron_wavelength', lam), ('neutron_energy(neutron_wavelength)', back),
                      ('neutron_energy', E2), ('neutron_wavelength_from_velocity', lam_v)):
        if np.shape(val) != shape:
            ctx.violation('%s returned shape %r for input shape %r' % (name, np.shape(val), shape), relation='convert',
                          symptom='shape')
            return
    lam = np.asarray(lam, dtype=float).reshape(-1)
    back = np.asarray(back, dtype=float).reshape(-1)
    E2 = np.asarray(E2, dtype=float).reshape(-1)
    lam_v = np.asarray(lam_v, dtype=float).reshape(-1)
    # E lambda^2 is one constant for all inputs (also against the first value ever seen in this process)
    prod = E * lam ** 2
    ref = _state.setdefault('EF_seen', float(prod[0]))
    ctx.evaluated(what='convert.E_lambda2_constant')
    err = float(np.max(np.abs(prod / ref - 1)))
    ctx.observe('relerr.E_lambda2', err)
    if not err <= 1e-12:
        ctx.violation('E*lambda^2 is not constant: %r vs %r' % (prod.tolist(), ref), relation='convert', symptom='value')
    ctx.evaluated(what='convert.E_lambda2_documented')
    if not abs(ref / _state['EF'] - 1) <= 1e-12:
        ctx.violation('E*lambda^2 = %r, documented h^2/(2 m_n) = %r meV A^2' % (ref, _state['EF']),
                      relation='convert', symptom='constant')
    # round trip
    ctx.evaluated(2, 'convert.roundtrip')
    for name, val in (('energy->wavelength->energy', back), ('energy(wavelength) from a fresh argument', E2)):
        err = float(np.max(np.abs(val / E - 1)))
        ctx.observe('relerr.roundtrip', err)
        if not err <= 1e-12:
            ctx.violation('%s is not the identity: %r -> %r' % (name, E.tolist(), val.tolist()), relation='convert',
                          symptom='value')
    # v lambda constant
    prodv = V * lam_v
    refv = _state.setdefault('VF_seen', float(prodv[0]))
    ctx.evaluated(2, 'convert.v_lambda')
    err = float(np.max(np.abs(prodv / refv - 1)))
    ctx.observe('relerr.v_lambda', err)
    if not err <= 1e-12:
        ctx.violation('v*lambda is not constant: %r vs %r' % (prodv.tolist(), refv), relation='convert', symptom='value')
    if not abs(refv / _state['VF'] - 1) <= 1e-12:
        ctx.violation('v*lambda = %r, documented h/m_n = %r A m/s' % (refv, _state['VF']), relation='convert',
                      symptom='constant')
    # mutual consistency: E(lambda(v)) = m v^2 / 2
    ctx.evaluated(what='convert.mutual')
    try:
        Ev = np.asarray(nsf.neutron_energy(lam_v), dtype=float)
    except ContractBreach as exc:
        ctx.violation('conversion postcondition failed: %s' % _breach_text(exc), relation='convert', symptom='contract')
        return
    want = 0.5 * _state['m_n'] * V ** 2 / _state['eV'] * 1e3
    err = float(np.max(np.abs(Ev / want - 1)))
    ctx.observe('relerr.kinetic', err)
    if not err <= 1e-12:
        ctx.violation('neutron_energy(neutron_wavelength_from_velocity(v)) = %r but m v^2/2 = %r meV'
                      % (Ev.tolist(), want.tolist()), relation='convert', symptom='value')


def check_anchors(ctx, case):
    """1.798 A = 2200 m/s = 25.3 meV, each quoted to four digits: 5e-4 relative."""
    from periodictable import nsf
    try:
        vals = [('neutron_wavelength(25.3)', float(nsf.neutron_wavelength(25.3)), 1.798),
                ('neutron_wavelength_from_velocity(2200)', float(nsf.neutron_wavelength_from_velocity(2200)), 1.798),
                ('neutron_energy(1.798)', float(nsf.neutron_energy(1.798)), 25.3),
                ('neutron_energy(neutron_wavelength_from_velocity(2200))',
                 float(nsf.neutron_energy(nsf.neutron_wavelength_from_velocity(2200))), 25.3),
                ('ABSORPTION_WAVELENGTH', float(nsf.ABSORPTION_WAVELENGTH), 1.798)]
    except ContractBreach as exc:
        ctx.violation('conversion postcondition failed at the anchors: %s' % _breach_text(exc), relation='anchors',
                      symptom='contract')
        return
    ctx.distinct_case(('anchors',))
    for name, got, want in vals:
        ctx.evaluated(what='anchors')
        err = abs(got / want - 1)
        ctx.observe('relerr.anchor', err)
        if not err <= 5e-4:
            ctx.violation('%s = %r, documented anchor %r (rel. deviation %.3g)' % (name, got, want, err),
                          relation='anchors', symptom='value')


CHECKS = {'family': check_family, 'convert': check_convert, 'anchors': check_anchors}


def finish(ctx):
    reach = _state.get('reach')
    if reach is not None:
        reach.stop()
        reach.export(ctx)
    fpe = _state.get('fpe')
    if fpe is not None:
        fpe.stop()
        fpe.export(ctx)
    for k, v in _state['n'].items():
        ctx.count(k, v)
    g = _state.get('guard')
    if g is not None:
        ctx.count('immutability.evaluations', g.evaluations)
        for name, num in g.by_function.items():
            ctx.count('immutability.' + name, num)
        g.evaluations = 0
        g.by_function.clear()
    ctx.require('immutability.evaluations', 1, 'the input-immutability monitor never compared a mutable argument')
    for container in ('array', 'list'):
        ctx.require('buffer.reuse_with_edep.' + container, 1,
                    'no call re-used an in-place edited %s wavelength buffer with an energy-dependent atom' % container)
    ctx.require('natural_density.object_with_own_density', 1, 'natural_density= never met a Formula object with its own density')
    ctx.require('natural_density.object_without_density', 1, 'natural_density= never met a Formula object without density')
    ctx.require('natural_density.counts_scaled_with_ions', 1, 'counts*c under natural_density= never met a compound with ions')
    uni = _state['uni']
    ctx.info['universe'] = {k: len(v) for k, v in uni.classes.items()}
    for name in ('contract._calculate_scattering', 'contract.neutron_wavelength', 'contract.neutron_energy',
                 'contract.neutron_wavelength_from_velocity'):
        ctx.require(name, 1, 'the in-process postcondition must have been evaluated')
    # optional instrumentation (private function / line anchors): waived through anchor_missing.* when not applicable
    from ..ref.neutron import anchor_missing, waive_if_bypassed
    n = _state['n']
    for name in ('contract._calculate_scattering', 'contract.neutron_wavelength', 'contract.neutron_energy',
                 'contract.neutron_wavelength_from_velocity'):
        unread = n.get(name + '.unrecognised_call', 0) + n.get(name + '.unrecognised_result', 0)
        if unread and not n.get(name, 0):
            anchor_missing(ctx, 'postcondition %s' % name, [name] + (['reach.clip_engaged'] if name.endswith('scattering') else []),
                           why='met %d calls whose arguments or result it does not recognise and none it does' % unread)
    if waive_if_bypassed(ctx, 'contract._calculate_scattering', 'calls.neutron_scattering',
                         'postcondition on nsf._calculate_scattering'):
        anchor_missing(ctx, 'clip counter of that postcondition', ['reach.clip_engaged'], why='goes with it')
    for label in ('branch.constant_b_c', 'branch.energy_table'):
        # the anchor line exists but the calculators of this tree do not run through it: evidence only
        waive_if_bypassed(ctx, 'reach.' + label, 'calls.neutron_scattering', 'line counter %s' % label)
    ctx.require('reach.branch.constant_b_c', 1, 'constant-b_c branch of scattering_by_wavelength never entered')
    ctx.require('reach.branch.energy_table', 1, 'energy-table branch of scattering_by_wavelength never entered')
    ctx.require('reach.clip_engaged', 1, 'no call with sigma_s < sigma_c: the incoherent clip never engaged')
    ctx.require('observed.incoherent_xs_exactly_zero', 1, 'no family whose incoherent cross section is clipped to exactly zero '
                '(public-level counterpart of reach.clip_engaged)')
    ctx.require('seen.ion_atoms', 1, 'no ion in any family')
    for Z, A, _ in uni.edep:
        ctx.require('seen.edep.%d-%d' % (Z, A), 1, 'energy-dependent entry never used in a family')
    ctx.require('families', 3000 if not ctx.thorough() else 40000, 'fewer families than the floor of the tier')
    ctx.require('wavelength.exactly_1.798', 1, 'no family at the thermal reference wavelength 1.798 A exactly')
    ctx.require('zero_count.families', 1, 'no family with a zero-count atom listed before the others')
    ctx.require('entry_point.families', 1, 'the other documented entry points were never compared with the base call')


def classify(rec):
    return None
