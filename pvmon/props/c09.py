"""C09 - lazy loading is invisible: served values do not depend on access order.

Shard 0 turns its worker interpreter into the *pristine* interpreter (only
`import periodictable` + third-party numpy/pyparsing) and walks, by fork, the
first-touch histories of the public table to closure of the abstract loader state;
every state is digested and every event's value is compared with the canonical
order's.  All shards replay histories in fresh `python -c` interpreters: every
violating history of the walk, random histories and (thorough) all ordered pairs
of representative events.  A violation is only ever reported from a fresh
interpreter, as a case {'history': [event names], 'probe': event-or-'digest'}."""
import json
import os
import random
import time
from collections import deque

from .. import explore as X

IMPORT_LIBRARY = False   # the worker must stay pristine; explore.pristine_import() imports the library

RULE = ('cases are histories of first-touch events on a fresh process (217 events: attribute read / hasattr / '
        'getattr-with-default of each of the 12 lazy attribute names through element, isotope, ion, isotope ion and '
        'an atom without data in the group, and of nuclear_spin through isotope, isotope ion and an isotope without '
        'neutron data; 6 calculator calls; 9 submodule imports; init(elements) and '
        'init(elements, reload=True) of every loader, init_spectral_lines). Walk: breadth-first over abstract loader '
        'states (class-dict kind of every lazy attribute on Element/Isotope/Ion + set(table.properties)), every event '
        'applied to every state; thorough adds a walk over a finer abstraction (multiplicity of each name in '
        'table.properties, instance dictionaries of ten representative atoms) with 69 representative events, all 3 844 '
        'ordered pairs of 62 representative events and 5 000 random histories of length <= 30 over 365 events, each in a '
        'fresh interpreter. distinct = distinct abstract loader states reached + distinct (history, probe) pairs '
        'replayed in fresh interpreters; each is non-trivial because each compares a served value or the whole '
        '13 000-entry digest with the canonical order')
TECHNIQUE = ('runtime monitoring: fork-tree exploration of first-touch histories to closure of the abstract loader state, '
             'metamorphic oracle (value of every event and digest of every served value must equal the canonical order), '
             'fresh-interpreter replay of violating and random histories, sys.monitoring trace of which route fired each loader; '
             'a user-registered lazy group (core.delayed_load with the isotope / ion flags) run over first-touch histories in '
             'fresh interpreters against what its loader set')
LEVEL_TEXT = ('Every event of a 217-event alphabet is applied to every reachable abstract loader state of the public table '
              '(closure reached by a breadth-first fork walk from a pristine interpreter); each event value and a digest of '
              'about 13 000 lazily served values per state are compared with the canonical order; violating histories and '
              'random histories are re-executed in fresh interpreters. Closure is relative to the abstraction; the claim is '
              'exploration, not proof.')
LEVEL_NOTE = ('Trusted: fork() fidelity (every reported violation is re-executed in a fresh interpreter), the abstraction '
              '(two histories reaching the same abstract state are checked to give the same digest), CPython 3.12.')
SHARDS = {'quick': 3, 'thorough': 16}
TIMEOUT = {'quick': 1200, 'thorough': 5400}
ASSUMPTIONS = ['the canonical order (each group read once through an element, registration order, fresh interpreter) defines the served values',
               'the abstract loader state (class-dict kinds of the 12 lazy names on Element/Isotope/Ion + set(table.properties)) captures all loader-relevant state; checked indirectly: two histories reaching one abstract state must give equal digests',
               'attribute assignment before first read is not an event (not in the property\'s list of means)',
               'fork() preserves interpreter state; every violation is confirmed in a fresh interpreter before it is reported']

WALK_PROCS = {'quick': 12, 'thorough': 6}     # forked children of shard 0
FRESH_JOBS = {'quick': 2, 'thorough': 1}      # concurrent fresh interpreters per shard
RANDOM_HISTORIES = {'quick': (200, 8), 'thorough': (5000, 30)}
STATE_CAP = {'quick': 5000, 'thorough': 20000}
REPLAY_ALL_LIMIT = 160       # every violating (history, probe) of the walk is replayed fresh up to this many ...
REPLAY_PER_SIGNATURE = 2     # ... beyond it: this many per distinct symptom (at most REPLAY_ALL_LIMIT in all),
MAX_DIGEST_REPLAYS = 96      # ... plus the digest of every violating state (at most this many, shortest first)
ALT_DIGESTS = {'quick': 48, 'thorough': 400}

MAX_STEP_REPORTS = 4         # non-canonical step values of one history reported as cases of their own
KEY_D5 = 'c09.spectral-lines-units-lost'
KEY_SPIN = 'c09.nuclear-spin-not-lazy'
UNIT_ATTRS = ('K_alpha_units', 'K_beta1_units')

_state = {}


# --------------------------------------------------------------------------
def _log(ctx, text):
    print('[C09 shard %d %6.1fs] %s' % (ctx.shard, time.time() - ctx.t0, text), flush=True)


def setup(ctx):
    X.enable_bytecode_cache()
    events = X.alphabet(ctx.tier)
    canon = X.canonical(events)
    if 'error' in canon:
        raise RuntimeError('canonical run failed: ' + canon['error'])
    _state['events'] = events
    _state['canon_vals'] = canon['event_values']
    _state['canon_digest'] = canon['digest_before']
    _state['canon_state'] = canon['state']
    _state['canon_after'] = X.diff_digest(canon['digest'], canon['digest_before'])
    ctx.info['digest_entries'] = len(canon['digest_before'])
    ctx.info['alphabet_size'] = len(events)
    ctx.info['canonical_history'] = list(X.CANON)
    _state['fresh_pristine_modules'] = canon.get('pristine')
    ctx.info['lazy_placeholders'] = canon.get('placeholders', [])
    if ctx.shard == 0 and not ctx.replay:
        _state['pristine'] = X.pristine_import(expected=_state['fresh_pristine_modules'])


def _canon_value(name):
    cv = _state['canon_vals']
    if name not in cv:
        r = X.fresh_run(X.CANON, probe=name)
        if 'error' in r:
            raise RuntimeError('canonical value of %s: %s' % (name, r['error']))
        cv[name] = r['probe']
    return cv[name]


# --------------------------------------------------------------------------
# judging one history in a fresh interpreter
# --------------------------------------------------------------------------
def _fresh_judge(case):
    """Pure function (runs in a helper thread): execute the case in a fresh interpreter and
    compare with the canonical order.  Returns a small dict."""
    h, probe = list(case['history']), case['probe']
    r = X.fresh_run(h, probe=probe)
    if 'error' in r:
        return {'error': r['error']}
    out = {'steps': len(h), 'bad_steps': [], 'neutron_pending': X.group_pending(r['state'], 'neutron')}
    for i, v in enumerate(r['values']):
        want = _canon_value(h[i])
        if v != want:
            out['bad_steps'].append([i, X._short(v, 600), X._short(want, 600)])
    if probe == 'digest':
        out['ndiff'], out['entries'], out['diff_attrs'] = X.diff_digest(r['digest'], _state['canon_digest'])
        out['entries_compared'] = len(_state['canon_digest'])
    else:
        want = _canon_value(probe)
        out['probe_ok'] = (r['probe'] == want)
        out['observed'], out['canonical'] = X._short(r['probe'], 600), X._short(want, 600)
    return out


def _emission_first_touch_is_explicit_init(history, probe):
    """Structural feature of D5: the first event of the history that addresses the emission-line
    group is an explicit init_spectral_lines(elements)."""
    for e in history:
        if X.event_group(e) == 'emission':
            return e == 'init:emission'
    return False


def _is_spin_probe(probe):
    p = str(probe).split(':')
    return len(p) == 3 and p[0] in ('read', 'hasattr', 'getattr_d') and p[1] == 'nuclear_spin'


def _symptom(res):
    """Hashable signature of what differs (for shrinking: the same symptom must persist)."""
    if 'ndiff' in res:
        return ('digest', tuple(res['diff_attrs'])) if res['ndiff'] else None
    return None if res.get('probe_ok') else ('probe', json.dumps(res.get('observed'))[:200])


def _shrink(ctx, case, symptom, budget=24):
    """Greedy one-event-at-a-time reduction of a violating history (fresh interpreter per trial)."""
    h = list(case['history'])
    i = len(h) - 1
    while i >= 0 and budget > 0 and len(h) > 1:
        trial = {'history': h[:i] + h[i + 1:], 'probe': case['probe']}
        budget -= 1
        ctx.count('shrink_trials')
        res = _fresh_judge(trial)
        if 'error' not in res and _symptom(res) == symptom:
            h = trial['history']
        i -= 1
    return {'history': h, 'probe': case['probe']}


def _judge(ctx, case, origin, res=None, shrink=False):
    """Judge a case; report a violation (attached to check 'history' and to the exact failing
    case) when the fresh interpreter disagrees with the canonical order.  Returns True if it did."""
    if res is None:
        res = _fresh_judge(case)
    if 'error' in res:
        ctx.harness_error('fresh interpreter for %s: %s' % (json.dumps(case)[:300], res['error']))
        return False
    h, probe = list(case['history']), case['probe']
    ctx.count('fresh_replays')
    ctx.count('fresh_replays.' + origin)
    ctx.distinct_case(('history', tuple(h), probe))
    reported = False
    for i, _, _ in res.get('bad_steps', [])[:MAX_STEP_REPORTS]:
        # an event inside the history returned a non-canonical value: the failing case is that prefix
        # (re-executed on its own); the rest of the history is still judged, so that a known finding
        # in one step cannot mask anything that follows it
        reported |= _judge(ctx, {'history': h[:i], 'probe': h[i]}, origin, shrink=shrink)
    ctx.evaluated(len(h) + 1, 'event-value-fresh' if probe != 'digest' else 'digest-fresh')
    if probe == 'digest':
        ctx.count('digest_entries_compared', res['entries_compared'])
    sym = _symptom(res)
    if sym is None:
        return reported
    if shrink and len(h) > 2:
        small = _shrink(ctx, case, sym)
        if small['history'] != h:
            return _judge(ctx, small, origin)       # re-judged (and reported) as the smaller case
    seen = _state.setdefault('reported', set())
    if (tuple(h), probe) in seen:          # the same case reached again (walk / alternative history / reload list)
        ctx.count('duplicate_violation_reports_suppressed')
        return True
    seen.add((tuple(h), probe))
    detail = {'origin': origin, 'probe': probe,
              'explicit_emission_init_first': _emission_first_touch_is_explicit_init(h, probe)}
    if probe == 'digest':
        detail.update(ndiff=res['ndiff'], entries=res['entries'][:6], diff_attrs=res['diff_attrs'])
        msg = ('after history %s the digest of served values differs from the canonical order in %d entries, e.g. %s'
               % (h, res['ndiff'], json.dumps(res['entries'][:2])[:400]))
    else:
        detail.update(observed=res['observed'], canonical=res['canonical'])
        msg = ('after history %s the event %s returns %s; the canonical order serves %s'
               % (h, probe, json.dumps(res['observed'])[:200], json.dumps(res['canonical'])[:200]))
    if _is_spin_probe(probe):
        # features for the classifier of 'c09.nuclear-spin-not-lazy': was the neutron group still pending when
        # the probe ran, and does the same case pass once the neutron group is loaded first (sibling)?
        detail['neutron_pending_before_probe'] = bool(res.get('neutron_pending'))
        sres = _fresh_judge({'history': h + ['read:neutron:el'], 'probe': probe})
        ctx.count('sibling_runs')
        detail['sibling_clean'] = ('error' not in sres and _symptom(sres) is None
                                   and not [b for b in sres['bad_steps'] if b[0] >= len(h)])
    # sibling for the classifier: the same case without the explicit init_spectral_lines calls
    elif detail['explicit_emission_init_first']:
        sib = {'history': [e for e in h if e != 'init:emission'], 'probe': probe}
        key = json.dumps(sib)
        cache = _state.setdefault('siblings', {})
        if key not in cache:
            sres = _fresh_judge(sib)
            ctx.count('sibling_runs')
            cache[key] = ('error' not in sres and not sres.get('bad_steps') and _symptom(sres) is None)
        detail['sibling_clean'] = cache[key]
    ctx.violation(msg, check='history', case={'history': h, 'probe': probe}, **detail)
    return True


def check_history(ctx, case):
    fut = _state.get('prefetch', {}).pop(json.dumps(case, sort_keys=True), None)
    res = fut.result() if fut is not None else None
    origin = case.get('origin', 'replay') if isinstance(case, dict) else 'replay'
    _judge(ctx, {'history': case['history'], 'probe': case['probe']}, origin, res=res,
           shrink=origin in ('random', 'pair'))


# --------------------------------------------------------------------------
# the walk (shard 0 only)
# --------------------------------------------------------------------------
def check_walk(ctx, case):
    fine = case['abstraction'] == 'fine'
    if 'pristine' not in _state:
        _state['pristine'] = X.pristine_import(expected=_state.get('fresh_pristine_modules'))
    # the pending/loaded distinction rests on the identity of the objects the import left in the class
    # dictionaries; without any such object the abstraction cannot see laziness at all
    if not X.placeholder_names():
        ctx.harness_error('no descriptor found in the class dictionaries of Element/Isotope/Ion under any lazy '
                          'attribute name right after `import periodictable`: the abstract loader state is blind')
    missing = [n for n, found in X.trace_anchors().items() if not found]
    if missing:
        # optional instrumentation (private code objects found by name): the loader trace is poorer, the
        # fired.* counters then come from the abstract state (pending before the event, not pending after)
        for n in missing:
            ctx.count('anchor_missing.trace.' + n)
        ctx.note('loader trace: private code objects %s not found in this tree; which route fired which loader is '
                 'read off the abstract state instead' % ', '.join(missing))
    n0 = _state['canon_after'][0]
    ctx.evaluated(1, 'canonical-stability')
    if n0:
        _judge(ctx, {'history': list(X.CANON) + list(_state['events']), 'probe': 'digest'}, 'canonical')
    if X.abstract_state(False) == _state['canon_state']:
        ctx.harness_error('the pristine interpreter already is in the canonical (all loaded) state')
    which = case.get('alphabet', 'full')
    w = X.Walk(X.walk_alphabet(which), _state['canon_vals'], _state['canon_digest'], fine=fine, cap=case['cap'],
               nproc=WALK_PROCS[ctx.tier], log=lambda s: _log(ctx, s))
    w.run()
    _log(ctx, 'walk done: %d states, %d transitions, closed=%s capped=%s, %d event / %d digest discrepancies'
         % (len(w.seen), w.transitions, w.closed, w.capped, len(w.event_violations), len(w.digest_violations)))
    for s in w.seen:
        ctx.distinct_case(('state', case['abstraction'], s))
    ctx.evaluated(w.transitions, 'event-value')
    ctx.evaluated(w.digests, 'digest')
    ctx.count('digest_entries_compared', w.digests * len(_state['canon_digest']))
    ctx.count('states', len(w.seen))
    ctx.count('transitions', w.transitions)
    ctx.count('grandchildren_forked', w.forks + w.digests)
    for k, n in w.kinds.items():
        ctx.count('events.' + k, n)
    for key, n in w.fired.items():
        g, route, how = key.split('/')
        ctx.count('fired.%s.%s' % (g, route), n)
        ctx.count('fired_how.%s.%s.%s' % (g, route, how), n)
    for h, s, s2 in w.inconsistent[:4]:
        ctx.harness_error('replaying %r gave abstract state %s, expected %s (abstraction or fork failure)' % (h, s2, s))
    if _state['canon_state'] not in [X.coarse_of(s) for s in w.seen]:
        ctx.harness_error('the canonical state was not reached by the walk')
    if w.closed:
        ctx.count('closure_reached.' + case['abstraction'])
    ctx.count('states.' + case['abstraction'], len(w.seen))
    ctx.info['states'] = ctx.counters['states']
    ctx.info['transitions'] = ctx.counters['transitions']
    ctx.info.setdefault('closure', {})[case['abstraction']] = {
        'reached': bool(w.closed), 'cap': case['cap'], 'cap_reached': bool(w.capped), 'events': len(w.events),
        'alphabet': which, 'states': len(w.seen), 'transitions': w.transitions, 'levels': w.levels,
        'states_with_differing_digest': len(w.digest_violations),
        'transitions_with_differing_value': len(w.event_violations)}
    if w.capped:
        ctx.note('%s walk: state cap %d reached: neither a violation nor closure' % (case['abstraction'], case['cap']))

    # -- abstraction check: another history into the same abstract state must give the same digest
    first_diff = {json.dumps(h): (n, [e[0] for e in bad]) for h, n, bad, _ in w.digest_violations}
    alts = [(s, w.alt[s]) for s in w.seen if s in w.alt][:ALT_DIGESTS[ctx.tier]]
    res = w.digest_histories([h for _, h in alts])
    for i, (s, h) in enumerate(alts):
        if i not in res:
            continue
        n, bad, attrs, s_after = res[i]
        ctx.evaluated(1, 'digest-alt-history')
        ctx.count('alt_history_digests')
        if s_after != s:
            ctx.harness_error('alternative history %r reached %s instead of %s' % (h, s_after, s))
            continue
        want = first_diff.get(json.dumps(w.seen[s]), (0, []))
        if (n, [e[0] for e in bad]) != want:
            ctx.count('abstraction_failures')
            ctx.harness_error('abstraction failure: histories %r and %r reach the same abstract state but their '
                              'digests differ from the canonical one in %d resp. %d entries'
                              % (w.seen[s], h, want[0], n))
        if n:
            w.digest_violations.append((h, n, bad, attrs))

    for e in w.errors[:8]:
        ctx.harness_error('walk: ' + e)

    # -- fresh-interpreter confirmation of every violating history (all of them while they are few;
    #    beyond the limits: the shortest histories of every violating state and of every distinct symptom)
    dv = sorted(w.digest_violations, key=lambda r: (len(r[0]), r[0]))
    cases = [{'history': h, 'probe': 'digest'} for h, _, _, _ in dv[:MAX_DIGEST_REPLAYS]]
    not_replayed = max(0, len(dv) - MAX_DIGEST_REPLAYS)
    ev = w.event_violations
    if len(ev) > REPLAY_ALL_LIMIT:
        by = {}
        for h, e, v in ev:
            by.setdefault((e, json.dumps(v)[:200]), []).append(h)
        ev2 = []
        for (e, v), hs in by.items():
            hs.sort(key=lambda h: (len(h), h))
            # spread over the violating states: the shortest and the longest history (and in between)
            step = max(1, (len(hs) - 1) // max(1, REPLAY_PER_SIGNATURE - 1))
            pick = sorted(set(list(range(0, len(hs), step))[:REPLAY_PER_SIGNATURE - 1] + [len(hs) - 1]))
            ev2 += [(hs[i], e, v) for i in pick]
        ev2.sort(key=lambda r: (len(r[0]), r[0], r[1]))
        ev2 = ev2[:REPLAY_ALL_LIMIT]
        not_replayed += len(ev) - len(ev2)
        ctx.note('%d event-level discrepancies in the walk with %d distinct symptoms; %d replayed fresh (up to %d per '
                 'symptom, shortest histories first) plus the digest of the violating states'
                 % (len(ev), len(by), len(ev2), REPLAY_PER_SIGNATURE))
        ev = ev2
    ctx.count('walk_discrepancies_not_replayed', not_replayed)
    cases += [{'history': h, 'probe': e} for h, e, _ in ev]
    ctx.count('walk_discrepancies', len(w.event_violations) + len(w.digest_violations))
    if cases:
        from concurrent.futures import ThreadPoolExecutor
        with ThreadPoolExecutor(WALK_PROCS[ctx.tier]) as pool:
            results = list(pool.map(_fresh_judge, cases))
        for c, r in zip(cases, results):
            if not _judge(ctx, c, 'walk', res=r) and 'error' not in r:
                ctx.count('fork_only_discrepancies')
                ctx.harness_error('discrepancy seen in the fork walk but not in a fresh interpreter: %s' % json.dumps(c)[:300])
        _log(ctx, 'replayed %d violating histories fresh' % len(cases))


CHECKS = {'walk': check_walk, 'history': check_history}


# --------------------------------------------------------------------------
# --------------------------------------------------------------------------
# round 8: a lazily loaded group registered by the USER through core.delayed_load (documented extension point)
# --------------------------------------------------------------------------
USERGROUP_CHILD = r"""
import sys, json
import periodictable
from periodictable import core, elements
from periodictable.core import Element
flags = json.loads(sys.argv[1]); order = json.loads(sys.argv[2])
def _load():
    "user data: shell energy"
    Element.shell_energy = None          # class-level default for missing data
    elements.Fe.shell_energy = 7.112
    elements.Fe[56].shell_energy = 7.1121
    elements.Fe.ion[2].shell_energy = 7.120
    elements.Ni.shell_energy = 8.333
core.delayed_load(['shell_energy'], _load, element=True, isotope=flags[0], ion=flags[1])
OBJ = {"Fe": lambda: elements.Fe, "Fe56": lambda: elements.Fe[56], "Fe2+": lambda: elements.Fe.ion[2],
       "Ni": lambda: elements.Ni, "Ni58": lambda: elements.Ni[58], "Ni2+": lambda: elements.Ni.ion[2],
       "Fe56_2+": lambda: elements.Fe[56].ion[2], "Cu": lambda: elements.Cu, "Cu63": lambda: elements.Cu[63],
       "Cu1+": lambda: elements.Cu.ion[1]}
def read(name):
    try:
        return repr(OBJ[name]().shell_energy)
    except AttributeError:
        return "AttributeError"
for name in order:
    read(name)
print("USERGROUP " + json.dumps({"where": periodictable.__file__, "values": dict((n, read(n)) for n in sorted(OBJ))}))
"""
USERGROUP_EXPECTED = {'Fe': '7.112', 'Fe56': '7.1121', 'Fe2+': '7.12', 'Ni': '8.333', 'Ni58': '8.333', 'Ni2+': '8.333',
                      'Fe56_2+': '7.1121', 'Cu': 'None', 'Cu63': 'None', 'Cu1+': 'None'}
USERGROUP_HISTORIES = ([], ['Fe'], ['Fe2+'], ['Fe56'], ['Cu'], ['Ni2+', 'Fe'], ['Fe56_2+'], ['Fe', 'Fe2+'],
                       ['Fe56', 'Ni2+', 'Cu'], ['Cu1+'], ['Cu63', 'Fe2+'], ['Ni58'])


def check_usergroup(ctx, case):
    """A property group registered through core.delayed_load for Element and (by flag) Isotope and Ion serves what
    its loader set - specific values on the element, the isotope and the ion, the class default elsewhere, through
    delegation for isotopes and ions without a value of their own - whichever object is touched first."""
    import subprocess
    import sys
    flags, order = case['flags'], case['history']
    try:
        p = subprocess.run([sys.executable, '-c', USERGROUP_CHILD, json.dumps(flags), json.dumps(order)],
                           capture_output=True, text=True, timeout=180, env=X.fresh_env())
    except subprocess.TimeoutExpired:
        ctx.harness_error('user-group interpreter timed out')
        return
    line = [l for l in p.stdout.splitlines() if l.startswith('USERGROUP ')]
    ctx.evaluated(len(USERGROUP_EXPECTED), 'usergroup-read')
    ctx.count('usergroup.runs')
    ctx.distinct_case(('usergroup', tuple(flags), tuple(order)))
    if not line:
        ctx.violation('user-registered lazy group (isotope=%r, ion=%r), first touches %r: the interpreter died: %s'
                      % (flags[0], flags[1], order, (p.stderr or p.stdout).strip().splitlines()[-1:]),
                      check='usergroup', case=case, kind='usergroup')
        return
    out = json.loads(line[0][len('USERGROUP '):])
    if not out['where'].startswith(X.repo_root() + os.sep):
        ctx.harness_error('user-group interpreter imported %s' % out['where'])
        return
    bad = dict((k, v) for k, v in out['values'].items() if v != USERGROUP_EXPECTED[k])
    if bad:
        ctx.violation('user-registered lazy group (isotope=%r, ion=%r), first touches %r: reads %r, the loader set %r'
                      % (flags[0], flags[1], order, bad, dict((k, USERGROUP_EXPECTED[k]) for k in bad)),
                      check='usergroup', case=case, kind='usergroup')


CHECKS['usergroup'] = check_usergroup


def _fresh_cases(ctx):
    """All fresh-interpreter cases of the tier, identical in every shard (own RNG, seed only)."""
    rng = random.Random(ctx.seed * 7919 + 11)
    events = _state['events']
    cases = []
    if ctx.thorough():
        reps = X.representative_events()
        for a in reps:
            for b in reps:
                cases.append({'history': [a, b], 'probe': 'digest', 'origin': 'pair'})
    # reload idempotence, systematically: a second load of a group must not change what is served
    for g, d in X.GROUPS.items():
        read = 'read:%s:%s' % (d['attrs'][0], d['canon'])
        init = 'init:emission' if g == 'emission' else 'init:' + d['module']
        again = init if g == 'emission' else 'reinit:' + d['module']
        for h in ([read, again], [again, again], [init, again, read], [read, again, again]):
            cases.append({'history': h, 'probe': 'digest', 'origin': 'reload'})
    n, maxlen = RANDOM_HISTORIES[ctx.tier]
    for _ in range(n):
        cases.append({'history': X.random_history(rng, events, maxlen), 'probe': 'digest', 'origin': 'random'})
    return cases


def generate(ctx):
    if ctx.shard == 0:
        yield 'walk', {'abstraction': 'coarse', 'alphabet': 'full', 'cap': STATE_CAP['quick']}
        if ctx.thorough():
            yield 'walk', {'abstraction': 'fine', 'alphabet': 'representative', 'cap': STATE_CAP['thorough']}
    workers = list(range(1, ctx.nshards)) or [0]
    ug = [{'flags': [iso, ion], 'history': list(h)} for iso in (False, True) for ion in (False, True)
          for h in USERGROUP_HISTORIES]
    for i, c in enumerate(ug):
        if workers[i % len(workers)] == ctx.shard:
            yield 'usergroup', c
    mine = [c for i, c in enumerate(_fresh_cases(ctx)) if workers[i % len(workers)] == ctx.shard]
    jobs = FRESH_JOBS[ctx.tier]
    if jobs <= 1:
        for c in mine:
            yield 'history', c
        return
    from concurrent.futures import ThreadPoolExecutor
    pool = ThreadPoolExecutor(jobs)
    pre = _state.setdefault('prefetch', {})
    window = deque()
    it = iter(mine)

    def feed():
        while len(window) < 2 * jobs:
            c = next(it, None)
            if c is None:
                return
            pre[json.dumps(c, sort_keys=True)] = pool.submit(
                _fresh_judge, {'history': c['history'], 'probe': c['probe']})
            window.append(c)
    feed()
    while window:
        c = window.popleft()
        yield 'history', c
        feed()
    pool.shutdown()


def finish(ctx):
    if ctx.replay:
        return
    ctx.require('cases.walk', 1, 'the fork walk must have run')
    ctx.require('usergroup.runs', 4 * len(USERGROUP_HISTORIES), 'every user-registered lazy group history must have run')
    ctx.require('closure_reached.coarse', 1, 'the full-alphabet walk must reach closure of the abstract loader state '
                                             '(no cap, no dead child, no inconsistent replay)')
    for g, d in X.GROUPS.items():
        routes = ['iso', 'isoion'] if g == 'neutron_activation' else X.OBJECT_ROUTES
        for r in routes:
            ctx.require('fired.%s.%s' % (g, r), 1,
                        'loader of group %s must have been fired by an attribute event through route %s' % (g, r))
        ctx.require('fired.%s.init' % g, 1, 'loader of group %s must have been fired by an explicit init(elements)' % g)
    n, _ = RANDOM_HISTORIES[ctx.tier]
    ctx.require('fresh_replays.random', n, 'every random history must have been replayed in a fresh interpreter')
    ctx.require('fresh_replays.reload', 4 * len(X.GROUPS), 'every reload history must have been replayed in a fresh interpreter')


def classify(rec):
    """D5: explicit init_spectral_lines(elements) before the first emission-line touch loses the class-level
    K_alpha_units / K_beta1_units.  Narrow: only those two names differ, the first emission event of the
    history is the explicit init, and the same case without the explicit init passes."""
    if rec.get('check') != 'history':
        return None
    d = rec.get('detail') or {}
    case = rec.get('case') or {}
    probe = case.get('probe')
    if _is_spin_probe(probe):
        # nuclear_spin is set by nsf.init but not registered with delayed_load.  Narrow: an isotope /
        # isotope-ion read that reports the attribute ABSENT (AttributeError, hasattr False, getattr
        # default) while the neutron group was still pending, and the same read is canonical once the
        # neutron group was loaded.  A wrong value, or a difference after the load, stays a violation.
        obs = d.get('observed')
        absent = (obs is False or obs == 'DEFAULT' or
                  (isinstance(obs, list) and len(obs) == 3 and obs[0] == 'EXC' and obs[1] == 'AttributeError'
                   and 'nuclear_spin' in str(obs[2])))
        if (absent and d.get('neutron_pending_before_probe') is True and d.get('sibling_clean') is True
                and str(probe).split(':')[2] != 'nodata'):
            return KEY_SPIN
        return None
    if not d.get('explicit_emission_init_first') or d.get('sibling_clean') is not True:
        return None
    if probe == 'digest':
        attrs = d.get('diff_attrs') or []       # attribute names over ALL differing digest entries
        if attrs and set(attrs) <= set(UNIT_ATTRS):
            return KEY_D5
        return None
    p = str(probe).split(':')
    if len(p) == 3 and p[0] in ('read', 'hasattr', 'getattr_d') and p[1] in UNIT_ATTRS:
        obs = d.get('observed')
        lost = (obs is False or obs == 'DEFAULT' or
                (isinstance(obs, list) and len(obs) == 3 and obs[0] == 'EXC' and obs[1] == 'AttributeError'
                 and p[1] in str(obs[2])))
        if lost:
            return KEY_D5
    return None
