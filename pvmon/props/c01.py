"""C01 - a formula string denotes exactly the composition its documented grammar says."""
import re
from fractions import Fraction

RULE = ('strings are rendered from random derivation trees of the documented grammar (known denotation), plus a '
        'sweep of one-atom strings for every nameable atom, plus one malformed sibling per applicable malformation '
        'class; distinct = distinct derivation shapes (symbols, tags and counts abstracted to E/^/~/n/f) of positive '
        'strings and distinct (class, shape) of malformed ones; non-trivial = has a tag, a count other than 1 or more than one group')
SHARDS = {'quick': 8, 'thorough': 16}
TIMEOUT = {'quick': 900, 'thorough': 7200}
TECHNIQUE = ('runtime monitoring: grammar-directed workload with derivation-tree denotation as reference model at the '
             'formula() boundary, icontract postcondition on _count_atoms, sys.monitoring reach counters on the parse actions')
LEVEL_TEXT = ('Each generated string is parsed by the real formula() and its atoms, charge and density are compared with '
              'the denotation of the derivation tree it was rendered from (a model that never parses); every malformed '
              'sibling must raise. Reach is by workload diversity (all 17.7k nameable atoms, nesting to depth 60 in the '
              'thorough tier, all separator and count spellings, public and private tables); held means held on the strings generated.'
              ' Added in rounds 4-7 of the seeded-break campaign: the documented secondary routes (parse_formula, parser objects from formula_grammar, calls without a table argument), blank strings, formulas of 130-5000 groups, nesting depths 120/250 (known finding above ~105 levels), every malformed string tried twice.')
LEVEL_NOTE = ('Trusted: the generator/renderer in pvmon/gen/formulas.py (rendering rules keep strings unambiguous under the '
              'documented grammar), pvmon/ref/masses.py for densities, CPython Fraction/float. Nesting beyond Python\'s '
              'recursion limit is out of reach.')
ASSUMPTIONS = ['the documented grammar in doc/sphinx/guide/formula_grammar.rst is the specification',
               'strings are generated with white space only as group separator and counts without exponents']

_s = {}

MALFORMED_MIN = 20
SUITE_UNDER_CONTRACTS = True


ACTIONS = ('convert_element', 'convert_implicit', 'convert_explicit', 'convert_compound')


def _attach_count_atoms_contract(ctx, stats):
    """icontract postcondition on the PRIVATE formulas._count_atoms: equals an independent top-down fold of the
    same structure.  Optional instrumentation: skipped (requirement waived) when the name is gone; a call whose
    arguments or result no longer have the pinned form (one structure in, {atom: count} out) is passed through
    un-judged and counted as contract._count_atoms.unrecognised_call."""
    import icontract
    from periodictable import formulas
    from ..gen.formulas import private, pairs_structure
    orig = private(ctx, formulas, '_count_atoms', waived=['contract._count_atoms'])
    if orig is None or not callable(orig):
        return

    class CountAtomsBroken(AssertionError):
        pass

    def model_fold(seq, mult, out):
        for count, fragment in seq:
            if isinstance(fragment, (list, tuple)):
                model_fold(fragment, mult * count, out)
            else:
                k = id(fragment)
                out[k] = out.get(k, 0) + mult * count
        return out

    def count_atoms_matches_fold(seq, result):
        try:
            want = model_fold(seq, 1, {})
            got = {id(a): c for a, c in result.items()}
        except Exception:
            stats['unrecognised'] += 1      # result is not an {atom: count} mapping any more: not judged
            return True
        stats['evals'] += 1
        if set(want) != set(got):
            return False
        for k, v in want.items():
            if abs(got[k] - v) > 1e-11 * abs(v):
                return False
        return True

    def judged(seq):
        return orig(seq)
    judged = icontract.ensure(count_atoms_matches_fold, error=CountAtomsBroken)(judged)

    def _count_atoms(*args, **kw):
        if len(args) == 1 and not kw and pairs_structure(args[0]):
            return judged(args[0])
        stats['unrecognised'] += 1
        return orig(*args, **kw)
    _count_atoms.__wrapped__ = orig
    _count_atoms.__doc__ = getattr(orig, '__doc__', None)
    formulas._count_atoms = _count_atoms


def setup(ctx):
    import periodictable as pt
    from periodictable import core, formulas, mass, density
    from ..ref.masses import MassModel
    from ..statemon import Reach
    from ..gen.formulas import watch_nested, watch_private

    _s['model'] = MassModel()
    _s['me'] = pt.constants.electron_mass
    T = core.PeriodicTable('c01_private_%d' % ctx.shard)
    mass.init(T)
    density.init(T)
    _s['tables'] = {'public': pt.elements, 'private': T}

    reach = Reach()
    watch_private(ctx, reach, formulas, '_count_atoms')      # evidence only (no requirement on it)
    # contract on the private _count_atoms (optional instrumentation)
    stats = _s['contract'] = {'evals': 0, 'unrecognised': 0}
    _attach_count_atoms_contract(ctx, stats)

    # the four parse actions are nested functions of formula_grammar on the pinned tree (private names): when they
    # were renamed / moved the counter is evidence only
    watch_nested(ctx, reach, getattr(formulas, 'formula_grammar', None), ACTIONS)
    reach.watch(core.IonSet.__getitem__, 'IonSet.__getitem__')
    reach.watch(core.Element.__getitem__, 'Element.__getitem__')
    reach.watch(core.PeriodicTable.symbol, 'PeriodicTable.symbol')
    reach.start()
    _s['reach'] = reach
    for name in ACTIONS + ('IonSet.__getitem__', 'Element.__getitem__', 'PeriodicTable.symbol'):
        ctx.require('reach.' + name, 1, 'the workload must enter this anchored mechanism')
    ctx.require('contract._count_atoms', 1, 'the _count_atoms postcondition must have been evaluated')
    if not ctx.replay:
        ctx.require('cases.private', 1, 'private-table share of the workload')
        for r in ROUTES[1:]:
            ctx.require('route.' + r, 1, 'every documented parser route must be taken by valid strings')
            ctx.require('malformed.route.' + r, 1, 'every documented parser route must be taken by malformed strings')
        for r in DEFAULT_TABLE_ROUTES:
            ctx.require('route.' + r, 1, 'strings must also be parsed without a table argument')
        ctx.require('empty.blank-string', 1, 'blank strings (white space only) must be parsed')
        ctx.require('long_formulas', 1, 'formulas of hundreds of groups must be parsed')
        ctx.require('deep_nesting', 1, 'parentheses nested more than 100 deep must be tried')
        for cls in ('unknown-symbol', 'undefined-isotope', 'undefined-charge', 'bad-isotope-tag', 'bad-ion-tag',
                    'bad-count', 'unbalanced-bracket', 'bad-density'):
            ctx.require('malformed.' + cls, MALFORMED_MIN, 'every malformation class must be exercised')


def finish(ctx):
    _s['reach'].stop()
    _s['reach'].export(ctx)
    ctx.count('contract._count_atoms', _s['contract']['evals'])
    from ..gen.formulas import waive_dead
    waive_dead(ctx, '_count_atoms', ['contract._count_atoms'], 'eval.atoms')
    if _s['contract']['unrecognised']:
        from ..gen.formulas import waive_unjudged
        ctx.count('contract._count_atoms.unrecognised_call', _s['contract']['unrecognised'])
        waive_unjudged(ctx, 'contract._count_atoms', _s['contract']['evals'], _s['contract']['unrecognised'],
                       'the private formulas._count_atoms')


# ---------------------------------------------------------------- routes
ROUTES = ('formula', 'parse_formula', 'grammar', 'grammar-new')
# public-table cases only: the table argument left out (the default table is the public one)
DEFAULT_TABLE_ROUTES = ('formula-default', 'parse_formula-default')


def _parse(text, T, route='formula'):
    """The string through one of the documented routes: periodictable.formula (the main one), formulas.parse_formula,
    or a parser object from formulas.formula_grammar(table=T) (guide/customizing.rst) - kept for the whole run or
    built for this one string.  All of them must accept and reject the same strings and give the same formula."""
    import periodictable as pt
    from periodictable import formulas
    if route == 'formula':
        return pt.formula(text, table=T)
    if route == 'formula-default':
        return pt.formula(text)
    if route == 'parse_formula-default':
        return formulas.parse_formula(text)
    if route == 'parse_formula':
        return formulas.parse_formula(text, table=T)
    if route == 'grammar':
        parsers = _s.setdefault('parsers', {})
        if id(T) not in parsers:
            parsers[id(T)] = formulas.formula_grammar(table=T)
        return parsers[id(T)].parseString(text)[0]
    if route == 'grammar-new':
        return formulas.formula_grammar(table=T).parseString(text)[0]
    raise ValueError(route)


# ---------------------------------------------------------------- oracles
def _denot_from_case(case):
    return {(z, a, q): Fraction(c) for z, a, q, c in case['denot']}


def _expected_density(case, denot):
    """Density the documented reading gives, or ('none',) for unknown."""
    m = _s['model']
    me = _s['me']
    tag = case.get('density')
    if tag:
        text, kind = tag
        x = float(Fraction(('0' + text) if text.startswith('.') else (text + '0' if text.endswith('.') else text)))
        if kind == 'i':
            return x
        # natural density: x = rho * (natural mass / actual mass)
        nat = sum(float(c) * (m.el[k[0]][0] - k[2] * me) for k, c in denot.items())
        act = sum(float(c) * m.atom_mass(k, me) for k, c in denot.items())
        return x * act / nat
    if len(denot) == 1:
        (Z, A, q), = denot.keys()
        rho = m.density[_s['tables']['public'][Z].symbol]
        if rho is None:
            return None
        if A:
            return rho * m.iso[(Z, A)][0] / m.el[Z][0]
        return rho
    return None


def _compare(ctx, f, denot, case, T, tname, depth=0):
    """Compare a parsed formula with a denotation; returns list of problems."""
    from ..atoms import key as akey, lookup
    problems = []
    atoms = f.atoms
    got = {}
    for a, c in atoms.items():
        k = akey(a)
        got[k] = got.get(k, 0) + c
        if a is not lookup(T, k):
            problems.append('atom %r of the result is not the %s table\'s object' % (a, tname))
    ctx.evaluated(what='atoms')
    if set(got) != set(denot):
        problems.append('atoms %r, grammar gives %r' % (sorted(got), sorted(denot)))
    else:
        tol = 1e-12 * (depth + 2)
        for k, v in denot.items():
            if not ctx.close(got[k], float(v), rel=tol, name='count.relerr'):
                problems.append('count of %r is %r, grammar gives %r' % (k, got[k], float(v)))
                break
    ctx.evaluated(what='charge')
    q = float(sum(c * k[2] for k, c in denot.items()))
    absq = float(sum(abs(c * k[2]) for k, c in denot.items()))
    if abs(f.charge - q) > 1e-12 * (depth + 2) * max(absq, 1e-300) and f.charge != q:
        problems.append('charge %r, grammar gives %r' % (f.charge, q))
    ctx.evaluated(what='density')
    want = _expected_density(case, denot)
    if want is None:
        if f.density is not None:
            problems.append('density %r, expected unknown (None)' % (f.density,))
    elif f.density is None or not ctx.close(f.density, want, rel=1e-12, name='density.relerr'):
        problems.append('density %r, grammar gives %r' % (f.density, want))
    return problems


def check_string(ctx, case):
    import periodictable as pt
    tname = case.get('table', 'public')
    T = _s['tables'][tname]
    ctx.count('cases.' + tname)
    text = case['text']
    denot = _denot_from_case(case)
    route = case.get('route', 'formula')
    ctx.count('route.' + route)
    if case.get('deep'):
        ctx.count('deep_nesting')
    if case.get('long'):
        ctx.count('long_formulas')
        ctx.observe('long_formulas.groups', case['long'])
    via = '' if route == 'formula' else ' [route %s]' % route
    try:
        f = _parse(text, T, route)
    except Exception as exc:
        detail = dict(exc_type=type(exc).__name__, flags=case.get('flags', []), route=route)
        if case.get('safe_text'):
            detail['sibling_ok'] = _sibling_ok(ctx, case, denot, T, tname)
        ctx.violation('formula(%r)%s raised %s: %s' % (text, via, type(exc).__name__, str(exc)[:200]), **detail)
        return
    problems = _compare(ctx, f, denot, case, T, tname, case.get('depth', 0))
    if problems:
        detail = dict(flags=case.get('flags', []), problems=problems[:4], route=route)
        if case.get('safe_text'):
            detail['sibling_ok'] = _sibling_ok(ctx, case, denot, T, tname)
        ctx.violation('formula(%r)%s: %s' % (text, via, problems[0]), **detail)
    ctx.distinct_case(('pos', case.get('shape') or text))
    # the same string again, in the other table and once more in this one: the result must not
    # depend on what was parsed before (one grammar is cached per table)
    if case.get('again') and not problems:
        other = 'private' if tname == 'public' else 'public'
        for tn in (other, tname):
            TT = _s['tables'][tn]
            ctx.count('reparse.' + tn)
            try:
                g = pt.formula(text, table=TT)
            except Exception as exc:
                ctx.violation('formula(%r, table=%s) raised %s on re-parse after a parse with the %s table'
                              % (text, tn, type(exc).__name__, tname), reparse=tn)
                break
            p2 = _compare(ctx, g, denot, case, TT, tn, case.get('depth', 0))
            if p2:
                ctx.violation('formula(%r, table=%s) re-parsed after a parse with the %s table: %s'
                              % (text, tn, tname, p2[0]), reparse=tn, problems=p2[:3])
                break


def _sibling_ok(ctx, case, denot, T, tname):
    """The same tree with the flagged white-space separators written as '+'."""
    import periodictable as pt
    try:
        g = pt.formula(case['safe_text'], table=T)
    except Exception:
        return False
    return not _compare(ctx, g, denot, case, T, tname, case.get('depth', 0))


def check_malformed(ctx, case):
    import periodictable as pt
    T = _s['tables'][case.get('table', 'public')]
    ctx.count('malformed.' + case['class'].split(':')[0])
    ctx.evaluated(what='malformed')
    route = case.get('route', 'formula')
    ctx.count('malformed.route.' + route)
    try:
        f = _parse(case['text'], T, route)
    except Exception:
        ctx.distinct_case(('neg', case['class'], case.get('shape')))
        # refused once is refused again: the failed attempt must not have left anything behind that lets the same
        # string through the second time
        ctx.evaluated(what='malformed-again')
        try:
            f = _parse(case['text'], T, route)
        except Exception:
            return
        ctx.violation('malformed string %r (%s of %r) was refused the first time and accepted as %r the second time%s'
                      % (case['text'], case['class'], case['from'], f.structure if len(repr(f.structure)) < 200 else '...',
                         '' if route == 'formula' else ' [route %s]' % route),
                      malformation=case['class'], route=route, second_attempt=True)
        return
    ctx.violation('malformed string %r (%s of %r) was accepted as %r%s'
                  % (case['text'], case['class'], case['from'], f.structure if len(repr(f.structure)) < 200 else '...',
                     '' if route == 'formula' else ' [route %s]' % route),
                  malformation=case['class'], route=route)


def check_element_sweep(ctx, case):
    """All atoms of one element, as one-atom strings with and without a count."""
    import periodictable as pt
    from ..atoms import render
    import random
    tname = case.get('table', 'public')
    T = _s['tables'][tname]
    ctx.count('cases.' + tname)
    Z = case['Z']
    el = T[Z]
    rng = random.Random(case['seed'])
    keys = [(Z, 0, 0)] + [(Z, 0, q) for q in el.ions]
    for A in el.isotopes:
        keys.append((Z, A, 0))
        keys.extend((Z, A, q) for q in el.ions)
    stride = case.get('stride', 1)
    for i, k in enumerate(keys):
        if stride > 1 and k[1] and k[2] and (i % stride):
            continue
        name = render(T, k, rng)
        for cnt_text, cnt in (('', Fraction(1)), case.get('count', ['3', '3'])):
            cnt = Fraction(cnt)
            text = name + cnt_text
            sub = {'denot': [[k[0], k[1], k[2], str(cnt)]], 'density': None}
            try:
                f = pt.formula(text, table=T)
            except Exception as exc:
                ctx.violation('formula(%r) raised %s: %s' % (text, type(exc).__name__, str(exc)[:200]),
                              exc_type=type(exc).__name__, text=text, key=list(k))
                continue
            problems = _compare(ctx, f, {k: cnt}, sub, T, tname)
            if problems:
                ctx.violation('formula(%r): %s' % (text, problems[0]), text=text, key=list(k), problems=problems[:3])
        ctx.count('sweep.atoms')
    ctx.distinct_case(('sweep', tname, Z))


def check_empty(ctx, case):
    """The empty string is the grammar's 'nothing': no atoms, no charge, unknown density - every time,
    whatever was done with earlier empty formulas (given a density or a name, extended in place)."""
    import periodictable as pt
    tname = case.get('table', 'public')
    T = _s['tables'][tname]
    ctx.count('cases.' + tname)
    water = pt.formula(case['other'], table=T)
    seen = []
    blank = case.get('blank', '')   # '', or white space only: the grammar's 'nothing' as well
    if blank:
        ctx.count('empty.blank-string')
    for step in case['steps']:
        ctx.evaluated(what='empty')
        if step == 'plain':
            f = pt.formula(blank, table=T)
        elif step == 'parse':
            f = _parse(blank, T, case.get('route', 'parse_formula'))
        elif step == 'density':
            f = pt.formula(blank, density=case['density'], table=T)
        elif step == 'name':
            f = pt.formula(blank, name='air', table=T)
        elif step == 'extend':
            f = pt.formula(blank, table=T)
            before = (f.atoms, f.density)
            if before != ({}, None):
                ctx.violation("formula('') before being extended: atoms %r density %r" % before, step=step)
            f += water
            seen.append(f)
            continue
        want_density = case['density'] if step == 'density' else None
        want_name = 'air' if step == 'name' else None
        if f.atoms != {} or f.charge != 0 or f.density != want_density or f.name != want_name or f.structure != ():
            ctx.violation("formula(" + repr(blank) + ") [%s] after %r: atoms %r charge %r density %r name %r, expected nothing, 0, %r, %r"
                          % (step, case['steps'][:case['steps'].index(step)], f.atoms, f.charge, f.density, f.name,
                             want_density, want_name), step=step)
        if any(f is g for g in seen):
            ctx.violation("formula('') returned the very object of an earlier call (%s)" % step, step=step)
        seen.append(f)
    ctx.distinct_case(('empty', tuple(case['steps'])))


CHECKS = {'string': check_string, 'malformed': check_malformed, 'element_sweep': check_element_sweep,
          'empty': check_empty}


# ---------------------------------------------------------------- workload
def _case_of(node, tname, depth):
    from ..gen.formulas import fold, shape_of
    denot = fold(node.struct)
    case = {'text': node.text, 'table': tname, 'depth': depth,
            'denot': [[k[0], k[1], k[2], str(c)] for k, c in sorted(denot.items())],
            'density': [node.density[0], node.density[2]] if node.density else None,
            'flags': sorted(node.flags), 'shape': shape_of(node.text)}
    return case, denot


def malformations(s, rng, table):
    """(class, string) pairs: one-token malformations of the valid, untagged string s."""
    out = []
    syms = list(re.finditer(r'[A-Z][a-z]?', s))
    m = rng.choice(syms)
    out.append(('unknown-symbol', s[:m.start()] + rng.choice(['Xx', 'Qq', 'Jj', 'Zz']) + s[m.end():]))
    cands = [m for m in syms if (m.end() == len(s) or s[m.end()] not in '[{') and m.group(0) not in ('D', 'T')]
    if cands:
        m = rng.choice(cands)
        e = table.symbol(m.group(0))
        A = next(a for a in rng.sample(range(1, 400), 399) if a not in e.isotopes)
        out.append(('undefined-isotope', s[:m.end()] + '[%d]' % A + s[m.end():]))
        q = next(q for q in rng.sample([9, -9, 8, -8, 10, -10, 12], 7) if q not in e.ions)
        out.append(('undefined-charge', s[:m.end()] + '{%d%s}' % (abs(q), '+' if q > 0 else '-') + s[m.end():]))
        tag = rng.choice(['[]', '[0]', '[05]', '[1.5]', '[a]', ' [12]'])
        out.append(('bad-isotope-tag', s[:m.end()] + tag + s[m.end():]))
        tag = rng.choice(['{}', '{2}', '{+2}', '{0+}', '{2+-}', ' {+}'])
        out.append(('bad-ion-tag', s[:m.end()] + tag + s[m.end():]))
        if m.end() == len(s) or not (s[m.end()].isdigit() or s[m.end()] == '.'):
            cnt = rng.choice(['0', '00', '03', '-2', '1e3'])
            out.append(('bad-count', s[:m.end()] + cnt + s[m.end():]))
    if re.search(r'[A-Za-z\]}]$', s) and rng.random() < 0.3:
        out.append(('bad-count', s + '1.2.3'))
    br = [i for i, c in enumerate(s) if c in '()[]{}']
    if br:
        i = rng.choice(br)
        out.append(('unbalanced-bracket', s[:i] + s[i + 1:]))
        i = rng.choice(br)
        out.append(('unbalanced-bracket', s[:i] + s[i] + s[i:]))
    tag = rng.choice(['@x', '@-1', '@1.2.3', '@@1', '@ 1', '@1x', '@'])
    out.append(('bad-density:' + tag, s + tag))
    return out


def generate(ctx):
    from ..gen.formulas import FormulaGen, shape_of
    rng = ctx.rng
    tables = _s['tables']
    # 1. systematic one-atom sweep, elements round-robin over shards
    i = 0
    for tname in ('public', 'private'):
        for Z in range(1, 119):
            if tname == 'private' and not ctx.thorough() and Z % 4:
                i += 1
                continue
            if ctx.mine(i):
                cs = rng.choice(['2', '3', '12', '0.5', '.25', '7.', '1000000', '1.000001'])
                yield 'element_sweep', {'Z': Z, 'table': tname, 'seed': rng.randrange(1 << 30),
                                        'count': [cs, str(Fraction(cs + '0' if cs.endswith('.') else ('0' + cs if cs.startswith('.') else cs)))],
                                        'stride': 1 if ctx.thorough() else 1}
            i += 1
    # 1b. very long formulas
    for item in _long_cases(ctx, rng, tables):
        yield item
    # 2. random derivation trees
    n = ctx.scale(700, 9000)
    gens = {t: FormulaGen(T, rng, ws_patterns=0.3) for t, T in tables.items()}
    for j in range(n):
        tname = 'private' if rng.random() < 0.25 else 'public'
        g = gens[tname]
        r = rng.random()
        if ctx.thorough() and r < 0.08:
            depth = rng.choice([5, 8, 13, 21, 34, 60])
            node = g.deep(depth)
        else:
            depth = rng.choice([0, 1, 2, 3, 4]) if not ctx.thorough() else rng.choice([0, 1, 2, 3, 4, 6])
            node = g.compound(0, depth)
        bare = node.text
        if rng.random() < 0.35:
            g.with_density(node)
        case, denot = _case_of(node, tname, node.depth)
        if node.flags:
            case['safe_text'] = _safe_text(node)
        if rng.random() < 0.15:
            case['again'] = True
        if rng.random() < 0.25:
            # a less-travelled documented route: parse_formula, or a parser object from formula_grammar(table=T)
            case['route'] = rng.choice(ROUTES[1:])
        elif tname == 'public' and rng.random() < 0.4:
            # the everyday call: no table argument at all (whatever was parsed - or rejected - before, on whichever
            # table, the default table is the public one)
            case['route'] = rng.choice(DEFAULT_TABLE_ROUTES)
        if case.get('safe_text') is None and node.flags:
            continue
        yield 'string', case
        if j % 40 == 7:
            steps = [rng.choice(['plain', 'density', 'name', 'extend', 'parse']) for _ in range(rng.randint(3, 7))] \
                + ['plain', 'parse']
            yield 'empty', {'table': tname, 'steps': steps, 'density': round(rng.uniform(0.001, 20), 4),
                            'other': rng.choice(['H2O', 'N2', 'CaCO3', 'Fe{2+}']),
                            'blank': rng.choice(['', '', ' ', '  ', '\t', ' \n']), 'route': rng.choice(ROUTES[1:])}
        # malformed siblings of the untagged text (unflagged strings only: the base must be valid)
        if not node.flags and rng.random() < 0.6:
            for cls, ms in malformations(bare, rng, tables[tname]):
                mc = {'text': ms, 'class': cls, 'from': bare, 'table': tname, 'shape': shape_of(ms)}
                if rng.random() < 0.3:
                    mc['route'] = rng.choice(ROUTES[1:])
                elif tname == 'public' and rng.random() < 0.3:
                    mc['route'] = rng.choice(DEFAULT_TABLE_ROUTES)
                yield 'malformed', mc


def _long_cases(ctx, rng, tables):
    """Very long formulas: hundreds to thousands of groups in a row (a sum of many hydrates, a printed mixture).  The
    grammar puts no bound on the number of groups, so neither may the parser (a parser that recurses per group runs
    out of stack at a few hundred)."""
    from ..gen.formulas import FormulaGen
    sizes = [130, 300, 800] + ([2000, 5000] if ctx.thorough() else [])
    for n in sizes:
        tname = 'private' if rng.random() < 0.3 else 'public'
        g = FormulaGen(tables[tname], rng, ws_patterns=0.0)
        node = g.compound(0, rng.choice([0, 0, 1]), ngroups=n)
        if rng.random() < 0.3:
            g.with_density(node)
        case, _ = _case_of(node, tname, node.depth)
        case['shape'] = 'long:%d' % n
        case['long'] = n
        if rng.random() < 0.3:
            case['route'] = rng.choice(ROUTES[1:])
        yield 'string', case
    # "any nesting depth": parentheses nested far deeper than any chemistry needs (the quick tier's random trees stop
    # at depth 4, the thorough tier's chains at 60); one chain per table and depth
    for depth in (120, 250):
        for tname in ('public', 'private'):
            g = FormulaGen(tables[tname], rng, ws_patterns=0.0)
            g.count = _small_count(rng)
            node = g.deep(depth)
            case, _ = _case_of(node, tname, node.depth)
            case['shape'] = 'deep:%d' % depth
            case['deep'] = depth
            yield 'string', case


def _small_count(rng):
    """Counts for very deep chains: 1 or 2 (a count multiplies everything inside, 250 levels of 12 overflow a double)."""
    def count(allow_one=True, p_one=0.35):
        return ('', Fraction(1)) if rng.random() < 0.7 else ('2', Fraction(2))
    return count


def _safe_text(node):
    """Flagged strings: replace each white-space-only separator that takes part in a known
    mis-binding pattern by '+'.  The generator only ever emits a single blank for these, and a
    single blank elsewhere is a plain separator, so replacing every ' ' that is not adjacent
    to '+' is the same tree with '+' separators."""
    return re.sub(r'(?<![+ ]) (?![+ ])', '+', node.text)


def classify(rec):
    d = rec.get('detail') or {}
    case = rec.get('case') or {}
    if rec.get('check') == 'malformed':
        if d.get('malformation') == 'bad-density:@' and case.get('text', '').endswith('@') \
                and not case.get('from', '@').endswith('@'):
            return 'c01.empty-density-tag'
        return None
    if rec.get('check') == 'string' and d.get('exc_type') == 'RecursionError' and (case.get('deep') or 0) >= 100 \
            and not case.get('long'):
        # the recursive-descent parser needs some ten interpreter frames per level of parentheses: with CPython's
        # default recursion limit a valid string nested deeper than about 105 levels is refused with RecursionError
        return 'c01.nesting-depth-recursion-limit'
    flags = d.get('flags') or []
    if rec.get('check') == 'string' and flags and d.get('sibling_ok') is True and not d.get('exc_type'):
        if flags == ['ws-after-counted-group']:
            return 'c01.space-after-counted-group'
        if flags == ['ws-count-after-paren']:
            return 'c01.count-after-paren-space'
        return 'c01.space-binding-both-patterns'
    return None
